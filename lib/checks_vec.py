"""C06 (every stored value dropped exactly once), C08 (vector types behave like std Vec, capacity promises) and the
element-level half of C16 (split / merge partition exactly, parts independent).

Pipeline of every check (DESIGN.md 2, 3.5, 4):
  1. TLC model-checks spec/Vec.tla (MC_Vec) on the property's focused configuration: ownership invariants, exactly-once at the
     end of every behaviour, capacity / no-move action properties, partition identities; -coverage 1: no dead action.
  2. TLC emits behaviours of the same specification (all paths to a small depth + `-simulate` random walks seeded by
     VERIF_SEED) as JSON through the history variable.
  3. harness/coll replays them on the real BumpBox<[T]> / FixedBumpVec / BumpVec / MutBumpVec / MutBumpVecRev for three
     element shapes x both bump directions x MIN_ALIGN in {1, 8, 16} and records every step; the same behaviours run on
     std::vec::Vec (a disagreement between std and Vec.tla is a specification bug => tool error).
  4. TLC evaluates the contract of the property on every recorded step (spec/VecObs.tla is the oracle).
"""
import os, time, json, subprocess, re, shutil, hashlib
from concurrent.futures import ThreadPoolExecutor
from vlib import *

ALL_OPS = ["push", "insert", "remove", "pop", "pop_if", "truncate", "resize", "extend_from_slice", "extend_from_within",
           "extend", "append", "append_slot", "reserve", "shrink", "retain", "dedup", "drain", "extract_if", "splice",
           "into_iter", "map", "convert", "leak", "new", "flatten", "split_off", "split_at", "split_ends", "split_at_spare",
           "partition", "merge", "box_one", "observe"]
# C16: every split / merge operation plus the follow-up operations that grow, shrink, drop, box or convert a part
SPLIT_OPS = ["split_off", "split_at", "split_ends", "split_at_spare", "partition", "merge", "box_one", "flatten", "map",
             "push", "pop", "remove", "truncate", "extend_from_within", "reserve", "shrink", "convert", "leak", "append_slot",
             "into_iter", "drain", "new"]
ACTION_OF = {  # Ops name -> action name in Vec.tla (for the dead-action check)
    "push": "Push", "insert": "Insert", "remove": "Remove", "pop": "Pop", "pop_if": "PopIf", "truncate": "Truncate",
    "resize": "Resize", "extend_from_slice": "ExtendSlice", "extend_from_within": "ExtendWithin", "extend": "ExtendIter",
    "append": "Append_", "append_slot": "AppendSlot", "reserve": "Reserve", "shrink": "Shrink", "retain": "Retain",
    "dedup": "Dedup", "drain": "Drain", "extract_if": "ExtractIf", "splice": "Splice", "into_iter": "IntoIter", "map": "Map",
    "convert": "Convert", "leak": "Leak", "new": "NewCont", "flatten": "Flatten", "split_off": "SplitOff",
    "split_at": "SplitAt", "split_ends": "SplitEnds", "split_at_spare": "SplitSpare", "partition": "Partition",
    "merge": "Merge", "box_one": "BoxOne", "observe": "Observe"}
# two-operation exhaustive sets of the thorough tier
CORE_OPS = ["push", "remove", "truncate", "resize", "extend_from_within", "retain", "dedup", "drain", "into_iter", "map",
            "split_off", "append_slot", "extract_if"]
JOBS = int(os.environ.get("VERIF_JOBS", "10"))
SHAPES = "e16,e1,ez"
SETTINGS = "u1,d1,u8,d8,u16,d16"
INVARIANTS = "TypeOk NoDoubleDrop SingleOwner Conservation NothingFromNowhere ExactlyOnceAtEnd CapOk"
PROPERTIES = "NoMoveWhilePromised PartitionExact Independence"


def _set(xs):
    return "{" + ", ".join(('"%s"' % x) if isinstance(x, str) else str(x).upper() if isinstance(x, bool) else str(x)
                           for x in xs) + "}"


def _cfg(tag, kinds, zst, lens, spare, maxlen, maxids, maxops, inject, ops, mode, keymodes=("pair",), slots=3):
    """mode = 'mc' (VIEW, invariants, properties) | 'emit' (history in the state, Emit invariant)"""
    txt = ["SPECIFICATION Spec", "CONSTANTS",
           "  Kinds = " + _set(kinds), "  ZstChoices = " + _set(zst), "  KeyModes = " + _set(keymodes),
           "  InitLens = " + _set(lens), "  InitSpare = " + _set(spare), "  MaxLen = %d" % maxlen, "  MaxIds = %d" % maxids,
           "  MaxOps = %d" % maxops, "  MaxSlots = %d" % slots, "  Inject = " + ("TRUE" if inject else "FALSE"),
           "  Ops = " + _set(ops), "CHECK_DEADLOCK FALSE"]
    if mode == "mc":
        txt += ["VIEW view", "INVARIANTS " + INVARIANTS, "PROPERTIES " + PROPERTIES]
    else:
        txt += ["INVARIANTS Emit"]
    # generated configurations live under .work (TLC takes an absolute -config path), nothing is written into spec/
    d = os.path.join(WORK, "veccfg")
    os.makedirs(d, exist_ok=True)
    name = os.path.join(d, "vec_%s_%d.cfg" % (tag, os.getpid()))
    with open(name, "w") as f:
        f.write("\n".join(txt) + "\n")
    return name


def _model_check(pid, cfgname, ops, workers, timeout):
    try:
        r = tlc("MC_Vec", cfgname, workers=workers, timeout=timeout, coverage=True, xmx="10g")
    finally:
        try:
            os.unlink(cfgname)
        except OSError:
            pass
    if r.error:
        raise ToolError("%s: Vec.tla violates its own properties (specification bug): %s\n%s"
                        % (pid, r.error, "\n".join(r.out.splitlines()[-80:])))
    require_ok(r, "MC_Vec " + pid)
    dead = [a for o, a in ACTION_OF.items() if o in ops and r.coverage.get(a, (0, 0))[1] == 0]
    if dead:
        raise ToolError("%s: dead actions in the model-checking configuration (vacuity): %s" % (pid, dead))
    return r


def _emit(cfgname, out, simulate=None, depth=None, workers=6, timeout=1500, append=False):
    """Run TLC on an emission configuration, stream its REPLAY lines into the NDJSON file `out`.
    Returns (behaviours written, states generated)."""
    md = workdir("tlc-emit-%d-%s" % (os.getpid(), os.path.basename(cfgname).replace(".cfg", "")))
    cmd = ["java", "-Xss64m", "-XX:+UseParallelGC", "-Xmx10g", "-Djava.io.tmpdir=" + workdir(os.path.basename(md) + ".jtmp"), "-cp", JAR_CP, "tlc2.TLC", "-workers", str(workers),
           "-metadir", md, "-cleanup", "-noGenerateSpecTE", "-deadlock", "-config", cfgname]
    if simulate:
        cmd += ["-simulate", "num=%d" % max(1, simulate // workers), "-depth", str(depth), "-seed", str(seed())]
    cmd += ["MC_Vec"]
    e = dict(os.environ)
    e.pop("JAVA_TOOL_OPTIONS", None)
    n = 0
    states = 0
    tail = []
    t0 = time.time()
    p = subprocess.Popen(cmd, cwd=SPEC, env=e, stdout=subprocess.PIPE, stderr=subprocess.STDOUT, text=True, errors="replace")
    try:
        with open(out, "a" if append else "w") as f:
            for line in p.stdout:
                if line.startswith('<<"REPLAY", "'):
                    f.write(json.loads(line.rstrip()[len('<<"REPLAY", '):-2]))
                    f.write("\n")
                    n += 1
                else:
                    tail.append(line)
                    if len(tail) > 60:
                        tail.pop(0)
                    m = re.search(r"(\d+) states generated", line) or re.search(r"number of states generated: (\d+)", line)
                    if m:
                        states = int(m.group(1))
                if time.time() - t0 > timeout:
                    p.kill()
                    raise ToolError("TLC emission timeout (%s)" % cfgname)
        p.wait()
    finally:
        if p.poll() is None:
            p.kill()
        shutil.rmtree(md, ignore_errors=True)
        shutil.rmtree(md.rstrip("/") + ".jtmp", ignore_errors=True)
        try:
            os.unlink(cfgname)
        except OSError:
            pass
    txt = "".join(tail)
    if p.returncode != 0 or re.search(r"Error:|Exception", txt):
        raise ToolError("TLC emission failed (%s):\n%s" % (cfgname, txt[-3000:]))
    return n, states


def _count_lines(path):
    if not os.path.exists(path):
        return 0
    n = 0
    with open(path, "rb") as f:
        for _ in f:
            n += 1
    return n


def _replay(binary, beh, obs, shapes, settings, mode, timeout=1500):
    """Run the harness; a crash (abort / segfault) of the code under test is data: it is recorded as a crash record
    and the replay restarts after the crashing run."""
    if os.path.exists(obs):
        os.unlink(obs)
    skip = 0
    crashes = 0
    t0 = time.time()
    while True:
        p = subprocess.run([binary, "replay", beh, obs, shapes, settings, mode, str(skip)], stdout=subprocess.PIPE,
                           stderr=subprocess.PIPE, text=True, timeout=timeout)
        if p.returncode == 0:
            break
        if "HARNESS" in (p.stderr or "") and p.returncode == 2:
            raise ToolError("harness usage error: " + p.stderr[-500:])
        crashes += 1
        done = _count_lines(obs)
        # the run number `done + 1` crashed: write a crash record for it (the oracle flags it), continue behind it
        with open(obs, "a") as f:
            f.write(json.dumps({"b": 0, "k": done + 1, "shape": "?", "up": True, "ma": 0, "kind": "?", "zst": False,
                                "crash": True, "unsup": False, "std": False, "stopped": False, "esz": 0,
                                "cfg": {"kind": "?", "zst": False, "km": "", "n": 0, "spare": 0},
                                "rc": p.returncode,
                                "steps": [{"op": "init", "c": 1, "d": 0, "i": 0, "j": 0, "s": "", "pk": "", "pn": 0,
                                           "o": {"out": "ok", "injp": False, "msg": "", "ret": [], "num": [],
                                                 "cs": [["-", [], 0, 0, 0, 0]], "dr": [], "cr": [], "cl": [], "tomb": False, "held": [],
                                                 "zc": 0, "zd": 0, "xcb": 0}}]}) + "\n")
        skip = done + 1
        if crashes > 200 or time.time() - t0 > timeout:
            raise ToolError("harness keeps crashing (%d crashes)" % crashes)
    return _count_lines(obs), crashes


def _parse_set(txt):
    txt = txt.strip()
    return parse_tla_value(txt) if txt else []


def _tagged_multiline(out, tag):
    """PrintT output of TLC may wrap a tuple over several lines: return the text after the tag of every such tuple."""
    res = []
    lines = out.splitlines()
    i = 0
    pat = re.compile(r'^<<\s*"' + re.escape(tag) + r'"\s*,?')
    while i < len(lines):
        if pat.match(lines[i]):
            buf = lines[i]
            while buf.count("<<") > buf.count(">>") and i + 1 < len(lines):
                i += 1
                buf += " " + lines[i].strip()
            buf = re.sub(r"\s+", " ", buf)
            inner = pat.sub("", buf, count=1).strip()
            assert inner.endswith(">>")
            res.append(inner[:-2].strip())
        i += 1
    return res


def _oracle(obs, nparts=10, timeout=2400):
    """Evaluate VecObs over the observation file. Returns dict tag -> list of global line numbers, and WHY details."""
    d = workdir("obs-VecObs-%d" % os.getpid())
    parts = split_ndjson(obs, nparts, d)

    def one(i):
        return tlc("VecObs", "VecObs.cfg", workers=1, timeout=timeout, env={"OBS": parts[i][0]}, xmx="6g", xss="512m",
                   metadir=os.path.join(d, "md%02d" % i))
    with ThreadPoolExecutor(max_workers=len(parts)) as ex:
        results = list(ex.map(one, range(len(parts))))
    res = {"CHECKED": 0, "BAD06": [], "BAD08": [], "BAD16": [], "DRIFT": [], "BADSTD": [], "UNSUP": [], "WHY": {}}
    for pi, r in enumerate(results):
        require_ok(r, "VecObs observation check")
        for x in _tagged_multiline(r.out, "CHECKED"):
            res["CHECKED"] += int(x)
        for tag in ("BAD06", "BAD08", "BAD16", "DRIFT", "BADSTD", "UNSUP"):
            for x in _tagged_multiline(r.out, tag):
                for i in _parse_set(x):
                    res[tag].append(parts[pi][1][i - 1])
        for x in _tagged_multiline(r.out, "WHY"):
            v = parse_tla_value("<<" + x + ">>")
            res["WHY"][(v[0], parts[pi][1][v[1] - 1])] = v[2]
    shutil.rmtree(d, ignore_errors=True)
    return res


def _step_stats(obs):
    """plain counting (not oracle work): steps, injected steps, expected panics, split steps, stable-antecedent hits"""
    st = {"runs": 0, "steps": 0, "inj_steps": 0, "expected_panic_steps": 0, "split_steps": 0, "no_move_antecedent_hits": 0,
          "instantiations": set(), "ops": set(), "crashes": 0}
    with open(obs) as f:
        for line in f:
            r = json.loads(line)
            st["runs"] += 1
            if r.get("crash"):
                st["crashes"] += 1
                continue
            st["instantiations"].add((r["kind"], r["shape"], r["up"], r["ma"]))
            for s in r["steps"][1:]:
                st["steps"] += 1
                e = s.get("e", {})
                st["ops"].add(s["op"])
                st["inj_steps"] += e.get("out") == "inj"
                st["expected_panic_steps"] += e.get("out") == "panic"
                st["split_steps"] += bool(e.get("sp"))
                st["no_move_antecedent_hits"] += bool(e.get("st"))
    st["instantiations"] = len(st["instantiations"])
    st["ops"] = sorted(st["ops"])
    return st


def _signature(pid, rec, why):
    """violation signature: the failing clause of the first failing step, the operation, container kind and element shape"""
    if rec.get("crash"):
        return {"clause": "crash", "rc": rec.get("rc")}
    # (the oracle prints the failing clauses of the first 200 records per class and part only)
    first = sorted(why, key=lambda w: (w[0], w[1]))[0] if why else [len(rec["steps"]), "?", 0]
    t = first[0]
    step = rec["steps"][t - 1] if 0 < t <= len(rec["steps"]) else {"op": "?"}
    # zero sized elements are counted, not identified: a surplus drop shows at the step where the count goes wrong, which
    # can be later than the operation that caused it; record whether a `drain ... drop` preceded (known finding F1)
    drain_before = any(x["op"] == "drain" and x.get("s") == "drop" for x in rec["steps"][:t])
    return {"clause": first[1], "op": step.get("op"), "fin": step.get("s", ""), "kind": rec["kind"],
            "zst": bool(rec["zst"]), "inject": step.get("pk", ""), "zst_drain_drop_before": bool(rec["zst"]) and drain_before}


def _check(pid, tier, tag, plan):
    """plan: dict with mc (kwargs for _cfg), emits (list of (kwargs, simulate, depth)), explanation, assumptions."""
    t0 = time.time()
    out = Outcome(pid)
    thorough = tier == "thorough"
    wd = workdir(pid)
    bins = cargo_build("coll", jobs=min(JOBS, 8))
    binary = bins["coll"]
    # 1. design level
    mc = plan["mc"]
    r = _model_check(pid, _cfg("mc" + pid, mode="mc", **mc), mc["ops"], workers=min(JOBS, 10),
                     timeout=3000 if thorough else 900)
    log("%s: model checked %d distinct states (%d generated, depth %d) in %.0fs" % (pid, r.distinct, r.generated, r.depth, r.wall))
    mc2 = None
    if plan.get("mc2"):
        mc2 = _model_check(pid, _cfg("mcb" + pid, mode="mc", **plan["mc2"]), [], workers=min(JOBS, 10), timeout=3000)
        log("%s: deeper focused model check: %d distinct states (depth %d) in %.0fs" % (pid, mc2.distinct, mc2.depth, mc2.wall))
    # 2. behaviours
    beh = os.path.join(wd, "behaviours.ndjson")
    nbeh = 0
    emitted = []
    for i, (kw, sim, depth) in enumerate(plan["emits"]):
        n, states = _emit(_cfg("em%s%d" % (pid, i), mode="emit", **kw), beh, simulate=sim, depth=depth, append=i > 0,
                          workers=min(JOBS, 6), timeout=2400 if thorough else 600)
        emitted.append({"kind": "random walks" if sim else "all paths", "max_ops": kw["maxops"], "behaviours": n,
                        "inject": kw["inject"], "kinds": list(kw["kinds"]), "init_lens": list(kw["lens"])})
        nbeh += n
    log("%s: %d behaviours emitted in %.0fs" % (pid, nbeh, time.time() - t0))
    if nbeh == 0:
        raise ToolError("no behaviours emitted")
    # 3. replay on the real collections and on std
    obs = os.path.join(wd, "obs.ndjson")
    nruns, crashes = _replay(binary, beh, obs, SHAPES, SETTINGS, plan["replay_mode"])
    stdobs = os.path.join(wd, "std.ndjson")
    p = run([binary, "std", beh, stdobs], timeout=1200)
    nstd = int(p.stdout.strip() or 0)
    with open(obs, "a") as f, open(stdobs) as g:
        shutil.copyfileobj(g, f)
    log("%s: %d runs on the real collections (%d crashes), %d on std, %.0fs" % (pid, nruns, crashes, nstd, time.time() - t0))
    # 4. the oracle
    res = _oracle(obs, nparts=min(JOBS, 12))
    if res["CHECKED"] != nruns + nstd:
        raise ToolError("VecObs saw %d records, expected %d" % (res["CHECKED"], nruns + nstd))
    if res["UNSUP"]:
        rec = nth_lines(obs, res["UNSUP"][:1])
        raise ToolError("harness cannot carry an emitted operation: %s" % json.dumps(list(rec.values())[0])[:1500])
    if res["BADSTD"]:
        g = res["BADSTD"][0]
        rec = list(nth_lines(obs, [g]).values())[0]
        raise ToolError("std::vec::Vec disagrees with Vec.tla (specification bug), %d records, e.g. %s\n%s"
                        % (len(res["BADSTD"]), res["WHY"].get(("STD", g)), json.dumps(rec)[:3000]))
    bad = res[tag]
    recs = nth_lines(obs, bad[:400])
    for g in bad[:400]:
        rec = recs[g]
        why = res["WHY"].get((pid, g), [])
        sig = _signature(pid, rec, why)
        out.violation(sig, {"check": pid, "failing_clauses(step, clause, slot-or-id)": why,
                            "instantiation": {k: rec.get(k) for k in ("kind", "shape", "up", "ma", "zst")},
                            "how": "harness/coll replay <behaviour> on this instantiation; record = behaviour steps with the "
                                   "model's expectation e and the observation o", "record": rec})
    violating = set(res["BAD06"]) | set(res["BAD08"]) | set(res["BAD16"])
    drift = [g for g in res["DRIFT"] if g not in violating]
    if drift:
        rec = list(nth_lines(obs, drift[:1]).values())[0]
        log("MODEL-DRIFT %s: %d runs differ from the implementation-shaped model but satisfy the contract, e.g. %s %s"
            % (pid, len(drift), res["WHY"].get(("DRIFT", drift[0])), json.dumps(rec)[:1200]))
    other = {t: len(res[t]) for t in ("BAD06", "BAD08", "BAD16") if t != tag and res[t]}
    if other:
        log("%s: note: clauses of other properties failed on this run's traces: %s (reported by their own checks)" % (pid, other))
    st = _step_stats(obs)
    samples = [json.loads(l) for l in open(beh).readlines()[:1]]
    samples += list(nth_lines(beh, [nbeh // 2, nbeh]).values())
    rc = out.finish()
    cov = {
        "states": max(r.distinct, 1) + (mc2.distinct if mc2 else 0), "transitions": max(r.generated, 1) + (mc2.generated if mc2 else 0),
        "traces_validated_against_impl": nruns,
        "samples": [{"cfg": s["cfg"], "steps": [{k: v for k, v in x.items() if k != "e"} for x in s["steps"]]} for s in samples],
        "exhaustive": False,
        "mc_depth": r.depth, "mc_action_counts": {a: r.coverage.get(a, (0, 0))[1] for a in sorted(set(ACTION_OF.values()))
                                                  if r.coverage.get(a, (0, 0))[1]},
        "behaviours": nbeh, "behaviour_sets": emitted, "runs_on_std_vec": nstd,
        "steps_checked": st["steps"], "injected_panic_steps": st["inj_steps"], "expected_panic_steps": st["expected_panic_steps"],
        "split_merge_steps": st["split_steps"], "no_move_antecedent_hits": st["no_move_antecedent_hits"],
        "instantiations": st["instantiations"], "operations_replayed": st["ops"], "harness_crashes": crashes,
        "model_drift_runs": len(drift),
        "known_finding_hits": dict(out.known_hits),
        "explanation": plan["explanation"],
    }
    cov["element_level_wall_s"] = round(time.time() - t0, 1)
    extra = plan.get("extra")
    if extra:
        log("%s: element level done in %.0fs; running the arena component's memory-level half" % (pid, time.time() - t0))
        nv = len(out.violations)
        cov.update(extra(tier, out) or {})
        if len(out.violations) > nv:      # the arena half added violations: print them too
            rc = out.finish()
    write_evidence(pid, tier, "model_checking", cov, time.time() - t0, violations=len(out.violations),
                   assumptions=plan["assumptions"])
    if not os.environ.get("VERIF_KEEP"):
        shutil.rmtree(wd, ignore_errors=True)
    return rc


KINDS = ["B", "F", "V", "M", "R"]
COMMON_ASSUMPTIONS = [
    "lengths <= MaxLen, at most MaxOps operations per behaviour and 3 container slots; beyond the exhaustive depth only random walks",
    "three element shapes (16 bytes / 1 byte / zero sized) instrumented with id, validity token and per-id drop counter; "
    "zero sized elements are counted, not identified",
    "MutBumpVecRev is read through the mirror mapping implemented in harness/coll (indices, ranges, source order, front/back)",
    "reads of moved-out memory that no callback and no recorder observes are invisible",
]


def check_c06(tier):
    th = tier == "thorough"
    ops = ALL_OPS + ["drop_inject"]
    plan = {
        "mc": dict(kinds=KINDS, zst=[False, True], lens=[0, 1, 2, 3] if th else [0, 2], spare=[1], maxlen=4 if th else 3,
                   maxids=10 if th else 8, maxops=2, inject=True, ops=ops),
        "emits": [
            # all behaviours of one operation (every panic point) from every initial length
            (dict(kinds=KINDS, zst=[False], lens=[0, 1, 2, 3] if th else [0, 2, 3], spare=[1], maxlen=4, maxids=10, maxops=1,
                  inject=True, ops=ops + ["early_close"], keymodes=("pair", "same") if th else ("pair",)), None, None),
            (dict(kinds=KINDS, zst=[True], lens=[0, 1, 2, 3] if th else [2], spare=[1], maxlen=4, maxids=10, maxops=1,
                  inject=True, ops=ops + ["early_close"]), None, None),
            (dict(kinds=KINDS, zst=[False, True], lens=[0, 1, 2, 3], spare=[0, 2], maxlen=4, maxids=14, maxops=5 if th else 4,
                  inject=True, ops=ops, keymodes=("pair", "same", "alt")), 20000 if th else 1000, 16),
        ] + ([(dict(kinds=[k], zst=[False], lens=[2], spare=[1], maxlen=3, maxids=9, maxops=2, inject=True,
                    ops=CORE_OPS + ["early_close", "drop_inject"]), None, None) for k in KINDS] if th else []),
        "replay_mode": "shapes" if th else "rotate",
        "explanation": "TLC checks on Vec.tla (one action per public operation, each in the outcomes normal / expected panic / panic "
                       "injected at the k-th Clone, closure, predicate, iterator-next or Drop invocation): no id dropped twice, no id "
                       "with two owners, nothing lost, every created id dropped exactly once when all owners are gone unless it took "
                       "a leak route. The emitted behaviours are replayed on the five real collection types and the contract "
                       "(per-id drop count <= 1 at every step, no callback or recorder ever sees a dead element, nothing lost, "
                       "exactly once at the end of life) is evaluated by TLC (VecObs.tla) on every recorded step.",
        "assumptions": COMMON_ASSUMPTIONS + [
            "after a panic that came out of a Drop implementation values may be lost (never dropped twice): end-of-life "
            "exactly-once is not demanded for those behaviours, as the property states"],
    }
    return _check("C06", tier, "BAD06", plan)


def check_c08(tier):
    th = tier == "thorough"
    plan = {
        "mc": dict(kinds=KINDS, zst=[False, True], lens=[0, 1, 2, 3] if th else [0, 2], spare=[0, 1], maxlen=4 if th else 3,
                   maxids=10 if th else 8, maxops=2, inject=False, ops=ALL_OPS),
        "mc2": dict(kinds=["V", "R"], zst=[False], lens=[2], spare=[1], maxlen=3, maxids=8, maxops=3, inject=False,
                    ops=ALL_OPS) if th else None,
        "emits": [
            (dict(kinds=KINDS, zst=[False], lens=[0, 1, 2, 3], spare=[0, 1], maxlen=4, maxids=10, maxops=1, inject=False,
                  ops=ALL_OPS + ["early_close"], keymodes=("pair", "same") if th else ("pair",)), None, None),
            (dict(kinds=KINDS, zst=[True], lens=[0, 1, 2, 3] if th else [0, 2], spare=[0, 1], maxlen=4, maxids=10, maxops=1,
                  inject=False, ops=ALL_OPS + ["early_close"]), None, None),
            (dict(kinds=KINDS, zst=[False, True], lens=[0, 1, 2, 3], spare=[0, 2], maxlen=4, maxids=16, maxops=6 if th else 5,
                  inject=False, ops=ALL_OPS, keymodes=("pair", "same", "alt")), 20000 if th else 1500, 18),
        ] + ([(dict(kinds=[k], zst=[False], lens=[2], spare=[1], maxlen=4, maxids=10, maxops=2, inject=False,
                    ops=CORE_OPS + ["insert", "pop", "swap_remove", "extend", "reserve", "shrink", "splice", "early_close"]),
               None, None) for k in KINDS] if th else []),
        "replay_mode": "shapes" if th else "rotate",
        "explanation": "Vec.tla is the reference (std Vec meaning of every operation, MutBumpVecRev read through the mirror mapping); "
                       "its fidelity to std is validated by replaying every emitted behaviour on std::vec::Vec. TLC checks on the "
                       "model: capacity >= length and >= promise, no buffer change while the promise suffices, fixed vectors never "
                       "move and fail when full, unlimited capacity for zero sized elements. The behaviours are replayed on the five "
                       "real types and TLC (VecObs.tla) demands on every step: same returned values, same contents and length, panic "
                       "exactly where the reference panics, cap >= len, cap >= promised, buffer unchanged while the promise "
                       "suffices, fixed vector neither moved nor accepting an element when full, usize::MAX capacity for ZST.",
        "assumptions": COMMON_ASSUMPTIONS + ["extend_from_slice_copy / *_copy twins (T: Copy) are not driven: the instrumented "
                                              "element types have destructors"],
    }
    return _check("C08", tier, "BAD08", plan)


def _arena_half(tier, out):
    # memory-level half of C16 (the allocator's is-last logic against split blocks) lives in the arena component
    try:
        import checks_arena
    except ImportError:
        return {"memory_level_half": "not built yet (checks_arena missing)"}
    fn = getattr(checks_arena, "split_parts_clause", None) or getattr(checks_arena, "split_blocks_clause", None)
    if fn is None:
        return {"memory_level_half": "not built yet (checks_arena.split_parts_clause missing)"}
    return {"memory_level_half": fn(tier, out)}


def check_c16(tier):
    th = tier == "thorough"
    sk = ["B", "F", "V"]
    splits = ["split_off", "split_at", "split_ends", "split_at_spare", "partition", "merge", "box_one", "early_close"]
    plan = {
        "mc": dict(kinds=KINDS, zst=[False, True], lens=[0, 1, 2, 3, 4] if th else [0, 3], spare=[0, 2], maxlen=4,
                   maxids=10 if th else 9, maxops=2, inject=False, ops=SPLIT_OPS),
        # thorough: three operations deep on the split kinds from one length
        "mc2": dict(kinds=sk, zst=[False, True], lens=[3], spare=[2], maxlen=4, maxids=9, maxops=3, inject=False,
                    ops=SPLIT_OPS) if th else None,
        "emits": [
            # every split operation with every range on every length and spare capacity
            (dict(kinds=sk, zst=[False, True], lens=[0, 1, 2, 3, 4], spare=[0, 2], maxlen=4, maxids=10, maxops=1, inject=False,
                  ops=splits), None, None),
            # ... followed by a second split / merge / follow-up operation on either part
            (dict(kinds=sk, zst=[False, True] if th else [False], lens=[0, 1, 2, 3, 4] if th else [3], spare=[0, 2] if th else [2],
                  maxlen=4, maxids=10, maxops=2, inject=False,
                  ops=splits + ["push", "pop", "truncate", "remove", "reserve", "shrink", "convert"]), None, None),
            (dict(kinds=KINDS, zst=[False, True], lens=[0, 2, 4], spare=[0, 2], maxlen=4, maxids=16, maxops=6 if th else 5,
                  inject=False, ops=SPLIT_OPS, keymodes=("pair", "alt")), 20000 if th else 1500, 18),
        ],
        "replay_mode": "shapes" if th else "rotate",
        "extra": _arena_half,
        "explanation": "Element level of C16. TLC checks on Vec.tla that every split / merge / flatten / in-place map keeps the multiset "
                       "of ids over the involved owners, drops nothing, makes capacities add up (sized elements) and leaves every "
                       "other owner untouched; merge of non-adjacent parts panics. Behaviours (every range over every length <= 4 "
                       "and spare capacity <= 2 for split_off / split_at / split_first / split_last / split_off_first / "
                       "split_off_last / partition / split_at_spare, followed by follow-up operations on either part) are replayed "
                       "on the real types; TLC (VecObs.tla) evaluates on the observations: partition identity, documented order, "
                       "capacity sum, merge outcome, and independence (an operation never changes contents, length, capacity or "
                       "buffer of a part it does not involve).",
        "assumptions": COMMON_ASSUMPTIONS + ["merge is only generated between parts of one original block (or the dangling empty "
                                              "slice): unrelated allocations can be adjacent by accident",
                                              "the memory-level half (is-last logic vs. split blocks) is added by the arena component"],
    }
    return _check("C16", tier, "BAD16", plan)
