"""MANIFEST claims of the lifetimes component (C04); merged by lib/gen_manifest.py."""

ENGINES = [
    {"name": "lifetimes", "path": "/verif/harness/lifetimes", "serves_properties": ["C04"],
     "kind_free_text": "generator (lib/lifetimes_gen.py + templates in harness/lifetimes): renders the behaviours of spec/Lifetimes.tla "
                       "emitted by TLC as safe Rust functions in a #![forbid(unsafe_code)] cargo workspace under /verif/.work that depends "
                       "on the current /repo tree; rustc (cargo check; cargo build for the const-assertion batch) is the decision procedure, "
                       "its verdicts are evaluated by TLC (spec/LifetimesObs.tla)"},
]

CLAIMS = {
    "C04": dict(
        category="model_checking",
        text="spec/Lifetimes.tla models safe API statements (owners Bump / &Bump / &mut Bump / BumpScope by reference and by value / "
             "scope guards / claim guards / pool guards, 98 producer families written in three ways, closing and invalidating statements, "
             "thread moves, the settings-conversion table) over the arena liveness automaton (which frame a value lands in, which statement "
             "rewinds or frees it) and, as a second layer, the crate's signature table evaluated by a loan checker. TLC enumerates every "
             "behaviour within the bounds, classifies it (hazardous = use after the memory may be reused / non-Send arena crosses a thread / "
             "guarantee-weakening conversion), and computes and re-validates a control program for every hazardous one. Every behaviour is "
             "rendered to a Rust function and compiled against the current tree; TLC (LifetimesObs.tla) evaluates on the verdict records: "
             "hazardous => rejected with a borrow/lifetime/Send/const-assertion error located in that function, control => accepted, "
             "safe => verdict equals the signature table (drift only). The property is universally quantified over programs; a generated, "
             "model-classified corpus decided by the compiler is the strongest binding TLC can give to a static property.",
        design_ref="DESIGN.md section 3.8 and section 4, C04",
        note="Bounds: straight-line programs (closures, blocks), one value per program, <= 1 opener (quick) / <= 2 openers (thorough) before "
             "and <= 2 statements after the producer. Trusted: rustc as decision procedure; the liveness automaton of Lifetimes.tla; the "
             "unsafe code behind the signatures is not examined. TLC -coverage cannot be used on this functional spec; non-vacuity is "
             "enforced on the records (every family / escape route / statement kind in a rejected hazardous program and an accepted control).",
        technique="TLA+ spec (Lifetimes.tla) explored with TLC; TLC-generated programs decided by rustc; verdicts evaluated by TLC (LifetimesObs.tla)",
        engine="lifetimes"),
}
