"""What MANIFEST.json claims; edited by hand, rendered by gen_manifest.py."""

HOOKS = {
    "guard": "bump_scope_verif",
    "enable": "RUSTFLAGS='--cfg bump_scope_verif' (set in /verif/harness/.cargo/config.toml); no hook is compiled into /repo so far",
    "baseline_off_cmd": "cd /repo && cargo nextest run --workspace --no-fail-fast --test-threads 8 --offline || cargo test --workspace --no-fail-fast --offline",
    "source_commits": [],
    "add_only": True,
}

ENGINES = [
    {"name": "purefn", "path": "/verif/harness/purefn", "serves_properties": ["C11", "C12"],
     "kind_free_text": "Rust driver including /repo/src/bumping.rs and /repo/src/chunk/size_config.rs verbatim; emits NDJSON records evaluated by TLC (spec/PureObs.tla, spec/ChunkObs.tla)"},
]

NOTES = ("Every check = TLC model checking of a TLA+ specification in /verif/spec + conformance of the real code with that "
         "specification (TLC-generated behaviours replayed into the implementation and/or implementation records evaluated by TLC). "
         "See DESIGN.md.")

NOT_APPLICABLE = {}

CLAIMS = {
    "C11": dict(
        category="model_checking",
        text="TLC checks, exhaustively for every valid input of a small machine word, that the branch-by-branch transcription of "
             "bump_up/bump_down/bump_prepare_up/bump_prepare_down meets the declarative contract (fit verdict exact, nearest aligned "
             "block, tight new position, hint independence, no overflow); the real 64-bit functions are then run on the images of the "
             "same grid under four embeddings (next to 0, mid, next to 2^64, scaled to the whole word) and TLC evaluates the same "
             "declarative operators on every recorded result. Pure arithmetic over a huge input space: an exhaustive small-word model "
             "plus embedding-based conformance is the strongest thing TLC can give.",
        design_ref="DESIGN.md section 4, C11",
        note="Trusted: the embedding argument (results depend on addresses only through offsets from the anchors), TLC, the harness "
             "include of /repo/src/bumping.rs via #[path].",
        technique="TLA+ spec (Bumping.tla) model-checked with TLC + TLC-evaluated conformance records from the real functions",
        engine="purefn"),
    "C12": dict(
        category="model_checking",
        text="TLC checks SizeOk/GrowthOk/FitsFresh of the transcribed ChunkSizeConfig arithmetic on a 16-bit grid over every header "
             "layout, direction, minimum chunk size, base-address residue and granted size; the real functions are run on inputs "
             "anchored at 0, isize::MAX and usize::MAX and TLC evaluates the contract (and model equality, reported as drift) on every "
             "record through the 29-bit image of the 64-bit word.",
        design_ref="DESIGN.md section 4, C12",
        note="Trusted: header layouts enumerated from repr(C, align(16)) ChunkHeader<A>; base-address residues sampled for alignments > 1024.",
        technique="TLA+ spec (ChunkSize.tla) model-checked with TLC + TLC-evaluated conformance records from the real functions",
        engine="purefn"),
}

