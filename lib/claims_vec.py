"""Claims of the collections component (lib/checks_vec.py): C06, C08 and the element-level half of C16."""
_T = ("TLA+ spec of the vector-like collections at the element level (Vec.tla: ids, owners, drop bag, capacity promise, one action per "
      "public operation in the outcomes normal / expected panic / injected panic) model-checked with TLC; TLC-generated behaviours "
      "(all paths to a small depth + seeded random walks) replayed by harness/coll on the real BumpBox<[T]>, FixedBumpVec, BumpVec, "
      "MutBumpVec, MutBumpVecRev (and on std::vec::Vec to validate the spec); every recorded step evaluated by TLC (VecObs.tla)")
_N = ("Trusted: TLC; harness/coll as interpreter/recorder (instrumented element types with id, validity token, per-id drop counter and "
      "scripted panics; mirror mapping of MutBumpVecRev); std::vec::Vec as the meaning of the reference. Bounds: lengths <= 4, <= 3 "
      "container slots, exhaustive for one operation (two for splits) from every initial length, random walks of <= 5-6 operations beyond; "
      "three element shapes (16 byte / 1 byte / zero sized) x both bump directions x MIN_ALIGN in {1, 8, 16}. Reads of moved-out memory "
      "that no callback or recorder observes are invisible; *_copy twins (T: Copy) and the `try_` twins are not driven.")


def _c(text, ref):
    return dict(category="model_checking", text=text, design_ref=ref, note=_N, technique=_T, engine="coll")


CLAIMS = {
    "C06": _c("Vec.tla defines for every operation and every panic point (k-th Clone / closure / predicate / iterator next / Drop) which ids "
              "are dropped; TLC checks on it: no id dropped twice, no id with two owners, nothing lost, exactly once when all owners are "
              "gone unless a leak route was taken. The behaviours (every operation with a panic at every callback index from every "
              "length <= 3, plus random walks) are replayed on the five real types and TLC evaluates on every recorded step: per-id "
              "drop count <= 1, no callback or recorder ever sees a moved-out / dropped element, no id with two owners, nothing lost, "
              "exactly once at the end of life (except leak routes / a panicking Drop).", "DESIGN.md section 4, C06"),
    "C08": _c("Vec.tla is the reference with std Vec meaning (validated by replaying every behaviour on std::vec::Vec; a disagreement is a "
              "tool error); TLC checks capacity >= length and promise, no buffer change while the promise suffices, fixed vectors never "
              "move and fail when full, unlimited ZST capacity on the model. On the real types TLC demands for every step of every "
              "un-injected behaviour: same returned values, contents, length, clone sources, panic exactly on the same arguments; "
              "cap >= len, cap >= promised, buffer unchanged while the promise suffices, fixed vector neither moved nor re-sized nor "
              "accepting an element when full, capacity usize::MAX for zero sized elements.", "DESIGN.md section 4, C08"),
    "C16": _c("Element-level half: every split operation (split_off with every range, split_at, split_first/last, split_off_first/last, "
              "partition, split_at_spare) on every length <= 4 and spare capacity <= 2, followed by follow-up operations on either part, "
              "merge, into_flattened and in-place map. TLC checks on Vec.tla and on the observations of the real code: the parts hold "
              "exactly the original elements (multiset) in the documented order, nothing is dropped, capacities of sized elements add "
              "up, merge succeeds exactly for parts that are contiguous by their observed addresses and restores the whole, and no "
              "operation changes contents, length, capacity or buffer of a part it does not involve. The memory-level half (is-last "
              "logic against split blocks) is contributed by the arena component through checks_arena.split_parts_clause.",
              "DESIGN.md section 4, C16"),
}

ENGINES = [
    {"name": "coll", "path": "/verif/harness/coll", "serves_properties": ["C06", "C08", "C16"],
     "kind_free_text": "Rust interpreter of Vec.tla behaviours over BumpBox<[T]> / FixedBumpVec / BumpVec / MutBumpVec / MutBumpVecRev "
                       "(and std::vec::Vec) for instrumented element types in 6 bump settings; records one NDJSON observation per "
                       "behaviour and instantiation, evaluated by TLC (spec/VecObs.tla)"},
]
