"""property id -> check function(tier) -> exit code.
Checks are discovered automatically: every function check_cNN in a module lib/checks_*.py serves property CNN."""
import glob, importlib, os, re

CHECKS = {}


def _discover():
    here = os.path.dirname(os.path.abspath(__file__))
    for path in sorted(glob.glob(os.path.join(here, "checks_*.py"))):
        name = os.path.basename(path)[:-3]
        try:
            mod = importlib.import_module(name)
        except Exception as e:  # a broken component must not take the others down
            import sys
            print("registry: cannot import %s: %r" % (name, e), file=sys.stderr)
            continue
        for attr in dir(mod):
            m = re.fullmatch(r"check_c(\d+)", attr)
            if m:
                CHECKS["C" + m.group(1)] = getattr(mod, attr)


_discover()


ARENA_FAMILY = ("C01", "C02", "C03", "C05", "C07", "C10", "C13", "C14", "C15", "C17", "C18")


def replay(pid, path):
    import json
    if pid in ARENA_FAMILY:
        # re-executes the recorded behaviour on the current tree and evaluates the clause again
        import replay_arena
        return replay_arena.replay(pid, path)
    with open(path) as f:
        obj = json.load(f)
    print(json.dumps(obj, indent=1)[:20000])
    print("re-run: bin/check %s   (replay files record the failing input; checks are deterministic for a given VERIF_SEED)" % pid)
    return 0
