"""property id -> check function(tier) -> exit code"""
import checks_pure

CHECKS = {
    "C11": checks_pure.check_c11,
    "C12": checks_pure.check_c12,
}


def replay(pid, path):
    import json
    with open(path) as f:
        obj = json.load(f)
    print(json.dumps(obj, indent=1))
    print("re-run: bin/check %s   (replay files record the failing input; checks are deterministic for a given VERIF_SEED)" % pid)
    return 0
