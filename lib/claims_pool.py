"""Claims of the pool component (lib/checks_pool.py, spec/Pool*.tla, harness/pool)."""

# the only instrumentation compiled into /repo: scheduling / trace hooks in BumpPool, guarded by --cfg bump_scope_verif
HOOKS_SOURCE_COMMITS = ["a8dea7f3455a55729766863e6916558a65c10a45"]
HOOKS_ENABLE = ("RUSTFLAGS='--cfg bump_scope_verif' (set in /verif/harness/pool/.cargo/config.toml): compiles "
                "`bump_scope::verif_hooks` (src/verif_hooks.rs: `set_hook(Option<fn(event, pool, idle)>)`) and the calls in "
                "src/bump_pool.rs -- POOL_LOCK_BEFORE / POOL_LOCK_HELD in `BumpPool::lock`, POOL_GET_AFTER after the `match self.lock().pop()` "
                "statement of every `get*`, POOL_PUT_AFTER after the push in `BumpPoolGuard::drop`. Without the cfg no hook code exists.")

CLAIMS = {
    "C19": dict(
        category="model_checking",
        text="spec/Pool.tla models BumpPool the way the code runs (per-thread program counter over the hook points, pool mutex, idle "
             "stack, arena creation inside get's critical section -- the MutexGuard is a match-scrutinee temporary, so looking for an idle "
             "arena and creating one is a single atomic step; use through the guard; guard drop or mem::forget; PoolReset/PoolResetToStart/PoolDrop). TLC explores every "
             "interleaving of 2-4 threads x 1-3 rounds x 0-2 pool-wide resets and checks: no arena under two owners, idle and held "
             "disjoint, no arena lost or duplicated, arenas created (or being created) <= peak number of simultaneous owners (owner = "
             "from the pop / decision to create in get's critical section to the push in drop's critical section; TLC refutes the "
             "narrower reading), at the instant an arena is created no arena is idle (TLC refutes this, and created <= peak, for the variant "
             "that releases the mutex before creating the arena), blocks stay in their arena across hand-overs until a pool-wide operation, reset/drop cover every "
             "arena, and under weak fairness every get and every drop returns. The same specification generates schedules "
             "(exhaustive under a partial-order reduction for small instances, seeded random walks for larger ones) which a controller "
             "forces on real OS threads at sub-call granularity through cfg(bump_scope_verif) hooks and a park point inside the base "
             "allocator's first allocate of a new arena; PROBE schedules generated from the create-outside-the-lock variant send a thread for "
             "the pool mutex while an arena is being created (conforming: it blocks on the mutex, seen in /proc, and the creator goes first); free-running stress runs are "
             "recorded too. Every recorded execution is validated by TLC: PoolTrace.tla (it is a behaviour of Pool.tla, bound by the "
             "sequence number taken under the pool mutex, arena identity, idle length, statistics; all invariants in every state) "
             "and PoolContract.tla (the C19 clauses as predicates over observed values: identities of live guards, created vs peak, idle arenas at the instant of creation (completed pushes minus pops, read "
             "inside the allocator call), "
             "patterns of all blocks re-read after hand-over, per-arena statistics and base-allocator ledger around "
             "reset/reset_to_start/drop compared with a single-arena twin).",
        design_ref="DESIGN.md section 3.7 and section 4, C19",
        note="Trusted: TLC; the harness as scheduler/recorder (threads are parked only at the hook points, the allocator-clone point and "
             "harness points); the instrumented base allocator (quarantines instead of freeing, so blocks can be re-read). Bounds: "
             "exhaustive model checking up to 4 threads x 2 rounds / 3 threads x 3 rounds; recorded runs up to 8 threads. A get that panics inside the critical section "
             "(get_with_size(usize::MAX) in the create branch, poisoning the pool mutex) is part of the model (GetPanic) and of the forced and "
             "free-running runs. Not covered: reads of freed memory that happen to see the old contents.",
        technique="TLA+ spec (Pool.tla) model-checked with TLC (safety, action properties, liveness) + TLC-generated schedules forced on "
                  "real threads + TLC trace validation (PoolTrace.tla) and contract evaluation (PoolContract.tla) of every recorded execution",
        engine="pool"),
}

ENGINES = [
    {"name": "pool", "path": "/verif/harness/pool", "serves_properties": ["C19"],
     "kind_free_text": "Rust multi-threaded driver: a controller releases real OS threads one hook point at a time following TLC-generated "
                       "schedules (or lets them run freely), on a real BumpPool over an instrumented base allocator; records NDJSON events "
                       "(sequence number under the pool mutex, arena identity, created/popped, idle length, statistics, damaged blocks, "
                       "ledger) validated by TLC (spec/PoolTrace.tla, spec/PoolContract.tla)"},
]
