"""Claims of the arena component (lib/checks_arena.py)."""
_T = ("TLA+ spec of the allocator state machine (Arena.tla) model-checked with TLC against the contract invariants; TLC-generated "
      "behaviours replayed on the real allocator; every recorded step evaluated by TLC against the contract (ArenaObs.tla)")
_N = ("Trusted: TLC; the replay harness as a recorder (public API only, deterministic specified base allocator, byte-diff write monitor); "
      "block liveness is taken from the behaviour; reads are not observed. Bounds: behaviours of <= 30-45 steps, layouts/settings from finite sets.")


def _c(text, ref):
    return dict(category="model_checking", text=text, design_ref=ref, note=_N, technique=_T, engine="replay")


CLAIMS = {
    "C01": _c("Arena.tla (exact-address model of chunks, positions, scopes, checkpoints, reallocations, base allocator) is model-checked "
              "for 'every live block inside an unreleased chunk, aligned, pairwise disjoint' (+ inductive strengthening); thousands of "
              "model behaviours over the settings x base-allocator matrix are replayed on the real code and TLC evaluates validity, "
              "alignment, size and pairwise disjointness of ALL live blocks after EVERY step from the real returned addresses.",
              "DESIGN.md section 4, C01"),
    "C02": _c("Every block is filled with an id-derived pattern and re-read after every later step; a byte-diff of the whole base-allocator "
              "region per step gives the written ranges; TLC checks no live block is damaged, reallocation keeps the surviving prefix, "
              "zeroed memory is zero (on previously dirtied memory) and every written range lies in a chunk header or the returned block.",
              "DESIGN.md section 4, C02"),
    "C03": _c("For every scope exit (closure return, unwind, guard drop, guard reset, reset_to) TLC compares the observed allocated bytes, "
              "current chunk and position with the values observed at entry, requires chunks to be retained and earlier blocks intact; "
              "model-checked on Arena.tla as the frame semantics.",
              "DESIGN.md section 4, C03"),
    "C05": _c("The instrumented base allocator logs every allocate/deallocate; TLC checks on every step that releases match an outstanding "
              "grant (address, alignment, requested <= size <= granted), happen at most once and only in reset/drop, nothing is "
              "outstanding after drop, reset keeps exactly the largest chunk, and no byte outside live grants is written.",
              "DESIGN.md section 4, C05"),
    "C10": _c("After every step all accessors of Stats/Chunk and AnyStats/AnyChunk are read; TLC checks position range/alignment, sizes, "
              "header placement, forward/backward iteration, strictly increasing sizes, allocated+remaining=capacity<=size, count, "
              "typed = type-erased, zeros when unallocated, for three chunk-header sizes (zero-sized, pointer-sized, 64-byte over-aligned "
              "base allocator).", "DESIGN.md section 4, C10"),
    "C13": _c("TLC checks on every step that allocated bytes decrease only when the model's history says the block is the most recent live "
              "allocation (or a frame/reset ends), that opt-outs (settings and WithoutDealloc/WithoutShrink in any nesting) never "
              "reclaim, that dealloc+same request and in-place grow return the same address when the property's antecedent holds.",
              "DESIGN.md section 4, C13"),
}

ENGINES = [
    {"name": "replay", "path": "/verif/harness/replay",
     "serves_properties": ["C01", "C02", "C03", "C05", "C10", "C12", "C13"],
     "kind_free_text": "Rust interpreter of TLC-generated Arena.tla behaviours over the settings x base-allocator matrix; records the "
                       "projected arena state after every step as NDJSON evaluated by TLC (spec/ArenaObs.tla)"},
]
