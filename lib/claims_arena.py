"""Claims of the arena component (lib/checks_arena.py)."""
_T = ("TLA+ spec of the allocator state machine (Arena.tla) model-checked with TLC against the contract invariants; TLC-generated "
      "behaviours replayed on the real allocator; every recorded step evaluated by TLC against the contract (ArenaObs.tla)")
_N = ("Trusted: TLC; the replay harness as a recorder (public API only, deterministic specified base allocator, byte-diff write monitor); "
      "block liveness is taken from the behaviour; reads are not observed. Bounds: random behaviours of <= 30-45 steps plus an exhaustively "
      "enumerated grid of 3-step behaviours at the boundary of the free space; layouts/settings from finite sets.")


def _c(text, ref):
    return dict(category="model_checking", text=text, design_ref=ref, note=_N, technique=_T, engine="replay")


CLAIMS = {
    "C01": _c("Arena.tla (exact-address model of chunks, positions, scopes, checkpoints, reallocations, base allocator) is model-checked "
              "for 'every live block inside an unreleased chunk, aligned, pairwise disjoint' (+ inductive strengthening); thousands of "
              "model behaviours over the settings x base-allocator matrix are replayed on the real code and TLC evaluates validity, "
              "alignment, size and pairwise disjointness of ALL live blocks after EVERY step from the real returned addresses.",
              "DESIGN.md section 4, C01"),
    "C02": _c("Every block is filled with an id-derived pattern and re-read after every later step; a byte-diff of the whole base-allocator "
              "region per step gives the written ranges; TLC checks no live block is damaged, reallocation keeps the surviving prefix, "
              "zeroed memory is zero (on previously dirtied memory) and every written range lies in a chunk header or the returned block; "
              "live growable vectors (BumpVec as a client of the allocator, relocating on growth) are re-read element by element after "
              "every step.",
              "DESIGN.md section 4, C02"),
    "C03": _c("For every scope exit (closure return, unwind, guard drop, guard reset, reset_to) TLC compares the observed allocated bytes, "
              "current chunk and position with the values observed at entry, requires chunks to be retained and earlier blocks intact; "
              "model-checked on Arena.tla as the frame semantics.",
              "DESIGN.md section 4, C03"),
    "C05": _c("The instrumented base allocator logs every allocate/deallocate; TLC checks on every step that releases match an outstanding "
              "grant (address, alignment, requested <= size <= granted), happen at most once and only in reset/drop, nothing is "
              "outstanding after drop, reset keeps exactly the largest chunk, and no byte outside live grants is written.",
              "DESIGN.md section 4, C05"),
    "C10": _c("After every step all accessors of Stats/Chunk and AnyStats/AnyChunk are read; TLC checks position range/alignment, sizes, "
              "header placement, forward/backward iteration, strictly increasing sizes, allocated+remaining=capacity<=size, count, "
              "typed = type-erased, zeros when unallocated, for three chunk-header sizes (zero-sized, pointer-sized, 64-byte over-aligned "
              "base allocator).", "DESIGN.md section 4, C10"),
    "C13": _c("TLC checks on every step that allocated bytes decrease only when the model's history says the block is the most recent live "
              "allocation (or a frame/reset ends), that opt-outs (settings and WithoutDealloc/WithoutShrink in any nesting) never "
              "reclaim, that dealloc+same request and in-place grow return the same address when the property's antecedent holds - for plain "
              "blocks and for growable vectors (drop, shrink_to_fit, into_boxed_slice, amortised growth; also with a wrapped allocator).",
              "DESIGN.md section 4, C13"),
}

CLAIMS.update({
    "C07": _c("The model draws, for every operation that reaches the base allocator, whether the (scripted) base allocator refuses, and "
              "issues requests whose size computation overflows; TLC checks that every such step returns an error (never success, "
              "never a panic of a try_/allocator call), that all C01/C02/C05/C10 clauses hold on every later step of the behaviour "
              "and that later requests the model can serve are served; the failure mix is replayed through the try_ and the panicking "
              "twins (overflow = unwinding panic, same state afterwards). Collection-level clauses: a growable vector or an "
              "exclusive-borrow collection whose growth failed / whose reserve overflowed keeps buffer, length, capacity and elements and "
              "is finalised correctly afterwards.",
              "DESIGN.md section 4, C07"),
    "C14": _c("Claim frames in Arena.tla (nested, on unallocated arenas, with scopes/chunk growth/unwinding inside) with operations "
              "interleaved on the claimed handle and on the guard; TLC checks on every recorded step: requests through the claimed "
              "handle fail, its dealloc/shrink change nothing, its statistics are zero, a second claim panics, the guard takes over and "
              "hands back exactly the same position, and every block stays intact and disjoint.",
              "DESIGN.md section 4, C14"),
    "C15": _c("Prepare/fill/commit frames in Arena.tla (growth policy of MutBumpVec transcribed) replayed on the real MutBumpVec, "
              "MutBumpVecRev, MutBumpString (4 element layouts; created empty / with capacity / by from_elem_in; push, extend, reserve) and "
              "on the raw dyn prepare_allocation/allocate_prepared interface, plus alloc_iter_mut(_rev), alloc_fmt_mut, alloc_cstr_fmt_mut, "
              "with capacities at the boundary of the free space enumerated exhaustively; TLC checks that "
              "positions of the creation chunk and earlier chunks never move while filling/dropping/unwinding, only a later EMPTY chunk "
              "may become current, and that finalising advances the position by len*size plus at most (align-1)+(min_align-1) and yields "
              "exactly the pushed elements (reversed for rev).", "DESIGN.md section 4, C15"),
    "C18": _c("aligned / scoped_aligned frames for every ordered pair of alignments, nested with scopes, claims and chunk switches, left "
              "normally or by unwinding; TLC checks position % N = 0 at entry and after every step inside, position % outer = 0 after "
              "exit, exact restoration for scoped_aligned, and C01/C02 across the boundaries.",
              "DESIGN.md section 4, C18"),
})

CLAIMS["C17"] = _c("Every TLC-generated behaviour is replayed through 7 entry-point variants (Allocator on &BumpScope, &dyn "
                   "BumpAllocatorCore, reference impls, try_allocate_layout, the panicking twins, typed sized/slice fast paths, the Bump "
                   "type itself) from identical initial states with a deterministic base allocator; TLC compares result, address, "
                   "length, allocated bytes, position and content checks pairwise on every step (independent of the model); includes the "
                   "value-level families, alloc_try_with(_mut), alloc_iter / alloc_fmt / alloc_cstr_fmt and their _mut variants, "
                   "vector operations and overflowing requests.",
                   "DESIGN.md section 4, C17")

ENGINES = [
    {"name": "replay", "path": "/verif/harness/replay",
     "serves_properties": ["C01", "C02", "C03", "C05", "C07", "C10", "C12", "C13", "C14", "C15", "C16", "C17", "C18"],
     "kind_free_text": "Rust interpreter of TLC-generated Arena.tla behaviours over the settings x base-allocator matrix; records the "
                       "projected arena state after every step as NDJSON evaluated by TLC (spec/ArenaObs.tla)"},
]
