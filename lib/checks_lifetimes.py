"""C04 -- references into a scope cannot outlive it in safe code.

TLC enumerates the behaviours of spec/Lifetimes.tla (safe Rust programs over the bump-scope API), classifies each as
hazardous / safe by the arena liveness automaton and computes + validates a control program for every hazardous one.
lib/lifetimes_gen.py renders them; rustc (cargo check, cargo build for the const-assertion batch) gives a verdict per
function; spec/LifetimesObs.tla evaluates the contract on the verdict records:
    hazardous => rejected (with a borrow / lifetime / Send / const-assertion error)      -- else VIOLATION
    control   => accepted                                                                  -- else tool error
    safe      => verdict = prediction of the signature table                               -- else MODEL-DRIFT
"""
import os, time, json, shutil, hashlib, random, subprocess, collections
from vlib import *
import lifetimes_gen as G

TEMPL = os.path.join(HARNESS, "lifetimes")
NB = 6                                  # parallel batch crates


def _tlc_programs(cfg_text, name, timeout, workers=6):
    cfg = os.path.join(SPEC, ".gen_%s_%d.cfg" % (name, os.getpid()))
    with open(cfg, "w") as f:
        f.write(cfg_text)
    try:
        r = tlc("MC_Lifetimes", os.path.basename(cfg), workers=workers, timeout=timeout)
    finally:
        os.unlink(cfg)
    if r.error and "HasControl" in r.error:
        raise ToolError("MC_Lifetimes: a hazardous behaviour has no valid control (specification bug):\n" + r.out[-4000:])
    require_ok(r, "MC_Lifetimes " + name)
    return r, G.parse_prog_lines(r.out)


def _cfg(roots, max_open, max_mid, full, rep, full_depth, full_mid, open_ops="AllOpenOps", wide="FALSE", paths="AllPaths"):
    return """SPECIFICATION Spec
CONSTANTS
    Roots <- %s
    MaxOpen = %d
    MaxMid = %d
    FamsFull <- %s
    FamsRep <- %s
    FullDepth = %d
    FullMid = %d
    OpenOps <- %s
    WideOpen = %s
    Paths <- %s
INVARIANT Emit
INVARIANT ReportHoles
CHECK_DEADLOCK FALSE
""" % (roots, max_open, max_mid, full, rep, full_depth, full_mid, open_ops, wide, paths)


def ws_dir(tag):
    h = hashlib.sha1(REPO.encode()).hexdigest()[:8]
    return os.path.join(WORK, "lifetimes-ws-%s-%s" % (tag, h))


def build_workspace(ws, batches, settings_batch):
    """batches: list of lists of (pid, root, prog).  Writes the cargo workspace; returns {crate: spans}."""
    os.makedirs(ws, exist_ok=True)
    names = ["b%02d" % i for i in range(len(batches))] + (["settings"] if settings_batch else [])
    for d in os.listdir(ws):
        if (d.startswith("b") or d == "settings") and d not in names and os.path.isdir(os.path.join(ws, d, "src")):
            shutil.rmtree(os.path.join(ws, d), ignore_errors=True)
    with open(os.path.join(TEMPL, "Cargo.toml.in")) as f:
        t = f.read()
    with open(os.path.join(ws, "Cargo.toml"), "w") as f:
        f.write(t.replace("@REPO@", REPO).replace("@MEMBERS@", ", ".join('"%s"' % n for n in names)))
    os.makedirs(os.path.join(ws, ".cargo"), exist_ok=True)
    shutil.copy(os.path.join(TEMPL, ".cargo", "config.toml"), os.path.join(ws, ".cargo", "config.toml"))
    if os.path.exists(os.path.join(REPO, "Cargo.lock")) and not os.path.exists(os.path.join(ws, "Cargo.lock")):
        pass    # the workspace has no third-party dependency (bump-scope's default features need none): no lock file needed
    with open(os.path.join(TEMPL, "member.Cargo.toml.in")) as f:
        mt = f.read()
    spans = {}
    for name, progs in zip(names, batches + ([settings_batch] if settings_batch else [])):
        d = os.path.join(ws, name)
        os.makedirs(os.path.join(d, "src"), exist_ok=True)
        with open(os.path.join(d, "Cargo.toml"), "w") as f:
            f.write(mt.replace("@NAME@", name))
        spans[name] = G.write_batch(os.path.join(d, "src", "lib.rs"), progs)
    return spans


def cargo_json(ws, args, timeout):
    e = dict(os.environ)
    e["CARGO_NET_OFFLINE"] = "true"
    e.pop("RUSTFLAGS", None)
    t0 = time.time()
    try:
        p = subprocess.run(["cargo"] + args + ["--offline", "--message-format=json", "--keep-going", "-j", str(NB)],
                           cwd=ws, env=e, stdout=subprocess.PIPE, stderr=subprocess.PIPE, text=True, timeout=timeout,
                           errors="replace")
    except subprocess.TimeoutExpired:
        raise ToolError("cargo %s timed out after %ds" % (args[0], timeout))
    msgs = collections.defaultdict(list)
    built = set()
    for line in p.stdout.splitlines():
        if not line.startswith("{"):
            continue
        m = json.loads(line)
        if m.get("reason") == "compiler-message":
            msgs[m["target"]["name"]].append(m["message"])
        elif m.get("reason") == "compiler-artifact":
            built.add(m["target"]["name"])
    log("cargo %s: %.1fs" % (" ".join(args), time.time() - t0))
    return msgs, built, p


def compile_verdicts(ws, spans, timeout=1500):
    """Returns {pid: [(code, msg, rendered)]} (absent = no error) and the set of pids whose crate was compiled."""
    errs = {}
    names = [n for n in spans if n != "settings"]
    if names:
        msgs, built, p = cargo_json(ws, ["check"] + sum([["-p", n] for n in names], []), timeout)
        if "bump_scope" not in built and "bump-scope" not in built and any(
                (d.get("level") == "error") for d in msgs.get("bump_scope", []) + msgs.get("bump-scope", [])):
            raise ToolError("bump-scope itself does not compile:\n" + p.stderr[-3000:])
        for n in names:
            att = G.attribute(msgs.get(n, []), os.path.join(n, "src", "lib.rs"), spans[n])
            if None in att:
                raise ToolError("rustc error not attributable to a generated function in %s: %s" % (n, att[None][0][:2]))
            if n not in built and not att:
                raise ToolError("crate %s was not compiled and reported no error:\n%s" % (n, p.stderr[-3000:]))
            errs.update(att)
    if "settings" in spans:
        # const assertions are post-monomorphization errors: they need a codegen build and are reported against the
        # instantiation `RawBump<.., BumpSettings<.., MCS>>::ensure_..` -- MCS = 512 + 16 * pid identifies the function
        msgs, built, p = cargo_json(ws, ["build", "-p", "settings"], timeout)
        pids = {s[2] for s in spans["settings"]}
        att = G.attribute(msgs.get("settings", []), os.path.join("settings", "src", "lib.rs"), spans["settings"])
        for d in att.pop(None, []):
            code, msg, rendered = d
            import re
            ids = {(int(x) - 512) // 16 for x in re.findall(r"BumpSettings<[^<>]*?, (\d+)>", rendered)}
            ids = {i for i in ids if i in pids}
            if code != "E0080" or len(ids) != 1:
                raise ToolError("settings batch: error not attributable: %s %s" % (code, rendered[:1500]))
            att.setdefault(ids.pop(), []).append(d)
        if "settings" not in built and not att:
            raise ToolError("settings crate was not built and reported no error:\n" + p.stderr[-3000:])
        errs.update(att)
    return errs


# ----------------------------------------------------------------------------------------------------------------
# the check
# ----------------------------------------------------------------------------------------------------------------

def tagged_multi(out, tag):
    """PrintT(<<"TAG", value>>) possibly pretty-printed over several lines -> list of raw value texts."""
    import re
    res, lines, i = [], out.splitlines(), 0
    head = re.compile(r'^<<\s*"%s"\s*(,|>>)' % re.escape(tag))
    while i < len(lines):
        if head.match(lines[i].strip()):
            buf, depth = [], 0
            while i < len(lines):
                t = lines[i].strip()
                buf.append(t)
                depth += t.count("<<") + t.count("{") + t.count("[") - t.count(">>") - t.count("}") - t.count("]")
                i += 1
                if depth <= 0:
                    break
            txt = " ".join(buf).strip()
            assert txt.endswith(">>"), txt[-50:]
            txt = txt[:-2]
            res.append(txt[txt.index(",") + 1:].strip() if "," in txt else "")
        else:
            i += 1
    return res


SELF_TY = {"refmut": "&mut Bump", "ref": "&Bump", "smut": "&mut BumpScope", "sref": "&BumpScope"}


def eff_path(r):
    """same as EffPath in Lifetimes.tla (only used to label violations)"""
    p, fam, hk = r["path"], r["fam"], r["hk"]
    if p != "p3":
        return p
    shr = fam not in G.MUT_FAMS and fam not in G.COLL_MUT
    inh_only = fam in ("alloc_try_with", "try_alloc_try_with")
    hdr = fam in ("stats", "allocator", "stats_chunk", "stats_iter")
    if hk in ("refmut", "smut") and shr and not inh_only and (not hdr or hk == "smut"):
        return "p2"
    return "p1"


def category(r):
    if r["root"] == "settings":
        return "settings"
    if r["why"].startswith("thread_") and r["why"] != "thread_drop":
        return "thread"
    return "borrow"


def norm_codes(errs):
    out = set()
    for (code, msg, _r) in errs:
        if code:
            out.add(code)
        elif "lifetime may not live long enough" in msg:
            out.add("lifetime")
        else:
            out.add("msg:" + msg[:60])
    return sorted(out)


def select(recs, tier, rng):
    """quick: one hazardous behaviour per (family, path, escape route) cell -- and per receiver kind for the
    representative families --, every thread / settings behaviour, and a sample of safe behaviours; thorough: all."""
    if tier == "thorough":      # every hazardous behaviour; a third of the safe ones (they only feed drift detection)
        return [r for r in recs if r["hazard"] or r["fam"] == "" or rng.random() < 0.34]
    rep = {"alloc", "alloc_cstr", "alloc_iter_mut", "alloc_try_with", "stats", "any_stats", "vec_into_slice", "vec_keep",
           "mutvec_into_boxed_slice", "mutvec_keep"}
    cells = collections.OrderedDict()
    for i, r in enumerate(recs):
        if r["root"] in ("settings", "unsend", "unsendpool") or r["fam"] == "":
            cells[("x", i)] = [i]
        elif r["hazard"]:
            k = ("h", r["fam"], r["path"], r["why"], r["hk"] if r["fam"] in rep else "", r["ctlkind"] if r["fam"] in rep else "")
            cells.setdefault(k, []).append(i)
            # every way of opening a receiver x every escape route (statement-kind coverage does not depend on luck)
            pi = next(j for j, s in enumerate(r["prog"]) if s["op"] == "Produce")
            pre = tuple("%s:%s:%d" % (s["op"], s["a"], s["h"]) for s in r["prog"][:pi])
            cells.setdefault(("o", pre, r["prog"][pi]["h"], r["why"], r["ctlkind"]), []).append(i)
        else:
            k = ("s", r["fam"] if r["fam"] in rep else "", r["path"], r["hk"], r["rej"], tuple(s["op"] for s in r["prog"]))
            cells.setdefault(k, []).append(i)
    picked = sorted({rng.choice(v) for v in cells.values()})
    return [recs[i] for i in picked]


def check_c04(tier):
    t0 = time.time()
    out = Outcome("C04")
    thorough = tier == "thorough"
    rng = random.Random(seed())
    wd = workdir("C04")
    # ---- 1. TLC: behaviours of Lifetimes.tla, classified, with validated controls -------------------------------
    # families: every root, every producer family written in every way, one opener;  alias: two-handle interplay (by_value
    # copies, as_scope / as_mut_scope borrows, claim and pool guards; frames opened through any handle, `alloc` through any
    # handle), up to three openers;  depth2 (thorough): two arbitrary openers with the representative families
    runs = [("families", _cfg("AllRoots", 1, 2, "AllFams", "RepFams", 1, 2 if thorough else 1), 1500),
            ("alias", _cfg("ArenaRoots", 3, 1, "NoFams", "AliasFams", 0, 1, "AliasOpenOps", "TRUE", "P1Only"), 1500)]
    if thorough:
        runs.append(("depth2", _cfg("ArenaRoots", 2, 2, "NoFams", "RepFams", 0, 2), 2400))
    recs, states, trans, tlc_wall = [], 0, 0, 0.0
    seen = set()
    from concurrent.futures import ThreadPoolExecutor
    t_tlc = time.time()
    with ThreadPoolExecutor(max_workers=len(runs)) as ex:
        outs = list(ex.map(lambda x: _tlc_programs(x[1], x[0], x[2], workers=5), runs))
    tlc_wall = time.time() - t_tlc
    for (name, cfg_text, to), (r, rs) in zip(runs, outs):
        fams = tagged_multi(r.out, "FAMS")
        if not fams or set(parse_tla_value(fams[0])) != G.ALL_FAMS:
            raise ToolError("producer families of spec/Lifetimes.tla and lib/lifetimes_gen.py differ: %s" %
                            sorted(set(parse_tla_value(fams[0])) ^ G.ALL_FAMS if fams else []))
        states += r.distinct
        trans += r.generated
        for x in rs:
            k = json.dumps([x["root"], x["prog"]])
            if k not in seen:
                seen.add(k)
                recs.append(x)
        log("TLC %s: %d distinct states, %d complete behaviours, %.0fs" % (name, r.distinct, len(rs), r.wall))
    nocontrol = [x for x in recs if x["hazard"] and x["ctlkind"] == "none"]
    if nocontrol:
        raise ToolError("specification bug: hazardous behaviour without a valid control: %s" % json.dumps(nocontrol[0])[:1500])
    n_behaviours = len(recs)
    sel = select(recs, tier, rng)
    # ---- 2. programs: every selected behaviour, plus the control of every hazardous one (deduplicated) ---------
    progs = []            # dict(id, cls, root, prog, rec)
    index = {}
    def add(cls, root, prog, rec):
        k = json.dumps([root, prog])
        if k in index:
            p = progs[index[k]]
            if cls == "control" and p["cls"] == "safe":
                p["cls"] = "control"
            return p
        p = {"id": len(progs) + 1, "cls": cls, "root": root, "prog": prog, "rec": rec}
        index[k] = len(progs)
        progs.append(p)
        return p
    for x in sel:
        if x["hazard"]:
            p = add("hazard", x["root"], x["prog"], x)
            c = add("control", x["ctlroot"], x["ctl"], None)
            p["control"] = c["id"]
        else:
            add("safe", x["root"], x["prog"], x)
    byprog = {json.dumps([x["root"], x["prog"]]): x for x in recs}
    for p in progs:
        if p["rec"] is None:      # a control: its own classification by the model, if TLC emitted it as a behaviour
            p["rec"] = byprog.get(json.dumps([p["root"], p["prog"]]))
    # ---- 3. rustc verdicts -------------------------------------------------------------------------------------
    settings = [(p["id"], p["root"], p["prog"]) for p in progs if p["root"] == "settings"]
    rest = [(p["id"], p["root"], p["prog"]) for p in progs if p["root"] != "settings"]
    nb = NB if len(rest) >= 600 else 1
    batches = [rest[i::nb] for i in range(nb)]
    ws = ws_dir(tier)
    spans = build_workspace(ws, batches, settings)
    t1 = time.time()
    errs = compile_verdicts(ws, spans, timeout=2400)
    cargo_wall = time.time() - t1
    # ---- 4. verdict table evaluated by TLC (LifetimesObs.tla) --------------------------------------------------
    obs = os.path.join(wd, "verdicts.ndjson")
    rows = []
    for p in progs:
        rec = p["rec"]
        e = errs.get(p["id"], [])
        hazardous = bool(rec["hazard"]) if rec else False
        row = {"id": p["id"], "cls": p["cls"], "hazardous": hazardous,
               "pred_rej": bool(rec["rej"]) if rec else False,
               "cat": category(rec) if rec and rec["hazard"] else ("settings" if p["root"] == "settings" else
                                                                  "thread" if any(s["op"] == "Spawn" for s in p["prog"]) else "borrow"),
               "accepted": not e, "codes": norm_codes(e),
               "fam": (rec or {}).get("fam", "") or next((s["a"] for s in p["prog"] if s["op"] == "Produce"), ""),
               "why": (rec or {}).get("why", ""),
               "ops": sorted({s["op"] + (":" + s["a"] if s["op"] in ("Scoped", "Guard", "Reset", "PoolReset", "Spawn", "ExitClosure", "Convert", "AsScope", "AsMutScope") and s["a"] else "")
                              for s in p["prog"]})}
        rows.append(row)
    write_ndjson(obs, rows)
    results, parts, d = tlc_obs("LifetimesObs", "LifetimesObs.cfg", obs, nparts=4 if len(rows) > 4000 else 1, timeout=1200)
    if tagged_int(results, "CHECKED") != len(rows):
        raise ToolError("LifetimesObs did not see every record")

    def idx(tag):
        res = []
        for pi, r in enumerate(results):
            for txt in tagged_multi(r.out, tag):
                for i in parse_tla_value(txt):
                    res.append(progs[parts[pi][1][i - 1] - 1])
        return res

    def union(tag):
        s = set()
        for r in results:
            for txt in tagged_multi(r.out, tag):
                s |= set(parse_tla_value(txt))
        return s
    bad, illtyped, ctlbad, drift, holes = idx("BAD"), idx("ILLTYPED"), idx("CTLBAD"), idx("DRIFT"), idx("SIGHOLES")
    hazok = tagged_int(results, "HAZOK")
    shutil.rmtree(d, ignore_errors=True)

    def source(p):
        return G.render(p["id"], p["root"], p["prog"])
    if illtyped or ctlbad:
        p = (illtyped or ctlbad)[0]
        raise ToolError("generator/model bug: %d programs rejected for a non-borrow reason, %d controls rejected; first:\n%s\n%s"
                        % (len(illtyped), len(ctlbad), source(p), [(c, m) for (c, m, _r) in errs.get(p["id"], [])][:5]))
    # ---- 5. verdicts -------------------------------------------------------------------------------------------
    byid = {p["id"]: p for p in progs}
    # programs the model's own signature table rejects come first: they contradict the model as well as the contract
    bad.sort(key=lambda p: (not p["rec"]["rej"], p["id"]))
    for p in bad:
        rec = p["rec"]
        ep = eff_path(rec) if rec["fam"] else ""
        sig = {"recv": rec["hk"], "via": ("Self=" + SELF_TY.get(rec["hk"], rec["hk"])) if ep == "p2" else ("deref" if ep else ""),
               "written": rec["path"], "fam": rec["fam"], "inval": rec["why"],
               # how the receiver was reached and through which handle the producer was called (two-handle interplay)
               "chain": ">".join("%s%s(e%d)" % (s["op"], ":" + s["a"] if s["a"] else "", s["h"]) for s in p["prog"]
                                 if s["op"] not in ("Use", "End", "ExitClosure", "CloseBlock") and s["op"] != "Produce")
                        + " | produce on e%d" % next((s["h"] for s in p["prog"] if s["op"] == "Produce"), 0)}
        ctl = byid.get(p.get("control"))
        out.violation(sig, {"check": "C04", "what": "a HAZARDOUS safe program is accepted by the compiler",
                            "behaviour": p["prog"], "root": p["root"], "program": source(p),
                            "control_program": source(ctl) if ctl else None,
                            "model": {"hazardous": True, "escape_route": rec["why"], "signature_table_rejects": rec["rej"]},
                            "how": "put the function into a crate with #![forbid(unsafe_code)] depending on bump-scope at %s; cargo check accepts it" % REPO})
    if drift:
        p = drift[0]
        log("MODEL-DRIFT C04: %d safe programs where rustc and the signature table of Lifetimes.tla disagree, e.g.\n%s\n%s"
            % (len(drift), source(p), norm_codes(errs.get(p["id"], []))))
    # ---- 6. non-vacuity ----------------------------------------------------------------------------------------
    famsH, famsC, whyH, opsH, opsC = union("FAMSH") - {""}, union("FAMSC") - {""}, union("WHYH"), union("OPSH"), union("OPSC")
    need_why = {"closure_exit", "closure_return", "drop_guard", "block_end", "guard_reset", "second_scope", "reset",
                "reset_to_start", "replace", "pool_reset", "pool_reset_to_start", "pool_bumps_clear", "drop_bump", "drop_pool", "thread_drop",
                "thread_scoped_move", "thread_static_move", "thread_scoped_refmut", "thread_scoped_share"}
    need_ops = {"RefShr", "RefMut", "AsScope", "AsMutScope", "Scoped:scoped", "Scoped:scoped_aligned", "Scoped:scoped_trait", "AsScope:from", "AsMutScope:from", "Aligned", "Guard",
                "Guard:block", "GScope", "Claim", "ByValue", "PoolGet", "Produce", "Use"}
    missing = {"families without a rejected hazardous program": sorted(G.ALL_FAMS - famsH),
               "families without an accepted control": sorted(G.ALL_FAMS - famsC),
               "escape routes without a rejected hazardous program": sorted(need_why - whyH),
               "statement kinds absent from hazardous programs": sorted(need_ops - opsH),
               "statement kinds absent from accepted controls": sorted(need_ops - opsC)}
    settings_h = {w for w in whyH if w.startswith("settings_")}
    if len(settings_h) < 30:
        missing["settings conversions"] = ["only %d weakening conversions rejected" % len(settings_h)]
    missing = {k: v for k, v in missing.items() if v}
    if missing and not out.violations:
        raise ToolError("vacuous run: " + json.dumps(missing))
    rc = out.finish()
    # ---- 7. evidence -------------------------------------------------------------------------------------------
    ncls = collections.Counter(p["cls"] for p in progs)
    codes = collections.Counter(c for row in rows if row["hazardous"] for c in row["codes"])
    ex = [p for p in progs if p["cls"] == "hazard"]
    samples = []
    for p in (rng.sample(ex, min(3, len(ex))) if ex else []):
        samples.append({"behaviour": p["prog"], "root": p["root"], "class": "hazard", "escape_route": p["rec"]["why"],
                        "rustc": norm_codes(errs.get(p["id"], [])), "rust": source(p),
                        "control_rust": source(byid[p["control"]]) if p.get("control") else None})
    write_evidence("C04", tier, "model_checking", {
        "states": max(states, 1), "transitions": max(trans, 1),
        "traces_validated_against_impl": len(progs),
        "samples": samples,
        "exhaustive": thorough,
        "behaviours_emitted_by_tlc": n_behaviours,
        "programs": len(progs), "hazardous_programs": ncls["hazard"], "control_programs": ncls["control"],
        "safe_programs_for_drift": ncls["safe"],
        "hazardous_properly_rejected": hazok, "hazardous_accepted": len(bad),
        "disagreements_checked": len(bad) + len(drift),
        "model_drift_programs": len(drift), "signature_table_holes": len(holes),
        "families_covered": len(famsH), "families_total": len(G.ALL_FAMS),
        "escape_routes_covered": sorted(whyH - settings_h), "settings_conversions_rejected": len(settings_h),
        "rustc_error_codes_on_hazardous": dict(codes),
        "tlc_wall_s": round(tlc_wall, 1), "cargo_wall_s": round(cargo_wall, 1),
        "repo": REPO,
        "explanation": "TLC enumerates every behaviour (safe Rust program: openers, one producer, invalidating/closing statements, one use) "
                       "of Lifetimes.tla within the bounds (%s), classifies it by the arena liveness automaton, and computes + re-validates "
                       "a control program for each hazardous one; every selected behaviour and control is rendered to a Rust function "
                       "(#![forbid(unsafe_code)]) and compiled against the current tree; LifetimesObs.tla evaluates hazardous => rejected "
                       "with a borrow/lifetime/Send/const-assertion error, control => accepted, safe => verdict equals the signature table. "
                       "TLC -coverage is not usable on this functional specification (cost-model construction does not terminate); "
                       "non-vacuity is enforced on the records instead (every family, escape route and statement kind occurs in a "
                       "rejected hazardous program and in an accepted control)." % ("; ".join(n for n, _, _ in runs)),
    }, time.time() - t0, violations=len(out.violations), assumptions=[
        "rustc's verdict is the implementation's decision procedure for the signatures; the unsafe code behind them is not examined",
        "programs are straight-line (closures, blocks), one value per program, at most %d openers before and 2 statements after the producer"
        % (2 if thorough else 1),
        "hazard = use after the memory's frame was rewound / reset / dropped (arena liveness automaton of Lifetimes.tla); "
        "'second scope() from the same guard' counts as invalidation because the property statement lists it",
    ])
    return rc
