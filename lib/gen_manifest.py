#!/usr/bin/env python3
"""Regenerates MANIFEST.json from the table below (single source of truth for what is claimed)."""
import json, os, sys
VERIF = os.path.dirname(os.path.dirname(os.path.abspath(__file__)))



def main():
    props = [json.loads(l) for l in open(os.path.join(VERIF, "properties.jsonl"))]
    sys.path.insert(0, os.path.join(VERIF, "lib"))
    import manifest_table, glob, importlib
    claims = dict(manifest_table.CLAIMS)
    engines = list(manifest_table.ENGINES)
    na = dict(manifest_table.NOT_APPLICABLE)
    # components may keep their claims in their own lib/claims_<component>.py (CLAIMS, ENGINES, NOT_APPLICABLE)
    for path in sorted(glob.glob(os.path.join(VERIF, "lib", "claims_*.py"))):
        mod = importlib.import_module(os.path.basename(path)[:-3])
        claims.update(getattr(mod, "CLAIMS", {}))
        engines += [e for e in getattr(mod, "ENGINES", []) if e["name"] not in [x["name"] for x in engines]]
        na.update(getattr(mod, "NOT_APPLICABLE", {}))
    hooks = dict(manifest_table.HOOKS)
    commits = list(hooks.get("source_commits", []))
    for path in sorted(glob.glob(os.path.join(VERIF, "lib", "claims_*.py"))):
        mod = importlib.import_module(os.path.basename(path)[:-3])
        for c in getattr(mod, "HOOKS_SOURCE_COMMITS", []):
            if c not in commits:
                commits.append(c)
        if getattr(mod, "HOOKS_ENABLE", None):
            hooks["enable"] = mod.HOOKS_ENABLE
    hooks["source_commits"] = commits
    import registry
    claims = {k: v for k, v in claims.items() if k in registry.CHECKS}
    checks = []
    for p in props:
        pid = p["id"]
        if pid not in claims:
            continue
        c = claims[pid]
        checks.append({
            "property_id": pid,
            "quick_cmd": "bin/check %s --tier quick" % pid,
            "thorough_cmd": "bin/check %s --tier thorough" % pid,
            "evidence_file": "/verif/evidence/%s.json" % pid,
            "replay_cmd_template": "bin/check %s --replay {path}" % pid,
            "engine": c["engine"],
            "level_claimed": {"category": c["category"], "text": c["text"], "design_ref": c["design_ref"]},
            "level_note": c["note"],
            "technique": c["technique"],
        })
    m = {
        "version": 1,
        "setup_cmd": "bin/setup",
        "hooks": hooks,
        "engines": engines,
        "checks": checks,
        "notes": manifest_table.NOTES,
        "not_applicable": [{"property_id": p["id"], "reason": na.get(p["id"], "not yet claimed: machinery for this property is not built yet")}
                           for p in props if p["id"] not in claims],
    }
    with open(os.path.join(VERIF, "MANIFEST.json"), "w") as f:
        json.dump(m, f, indent=1)
    print("claimed:", [c["property_id"] for c in checks])


if __name__ == "__main__":
    main()
