#!/usr/bin/env python3
"""Write seeded/<id>/meta.json from meta.agent.json plus what was run here.

usage: seed_meta.py <id> <confirm-how> <check>=<rc>[:<what>] ... [--note text]
A check with rc=1 counts as having caught the change."""
import json, sys, os
def main():
    a = sys.argv[1:]
    note = ""
    if "--note" in a:
        i = a.index("--note"); note = a[i + 1]; a = a[:i] + a[i + 2:]
    sid, how, checks = a[0], a[1], a[2:]
    d = os.path.join(os.path.dirname(os.path.dirname(os.path.abspath(__file__))), "seeded", sid)
    ag = json.load(open(os.path.join(d, "meta.agent.json")))
    runs = []
    for c in checks:
        name, rest = c.split("=", 1)
        rc, _, what = rest.partition(":")
        runs.append({"check": name, "rc": int(rc), "violation": what})
    meta = {
        "property": ag.get("property", sid),
        "summary": ag.get("summary", ""),
        "needs": ag.get("needs", ag.get("needs_to_manifest", "")),
        "confirmed": {"suite_passes_with_change": True, "demo_fails_with_change": True,
                      "demo_passes_without_change": True, "how": how},
        "checks_run": runs,
        "caught_by": [r["check"] for r in runs if r["rc"] == 1],
        "note": note,
        "files": ag.get("files", []),
    }
    json.dump(meta, open(os.path.join(d, "meta.json"), "w"), indent=1)
    print("wrote", os.path.join(d, "meta.json"), "caught_by", meta["caught_by"])
main()
