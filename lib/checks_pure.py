"""C11 (bump-pointer arithmetic) and C12 (chunk size arithmetic): TLC design check of the transcribed
algorithms + conformance of the real functions (harness/purefn) evaluated by TLC (PureObs / ChunkObs)."""
import os, time, json
from vlib import *


def _mc_cfg(workdir_, base_cfg, repl):
    s = open(os.path.join(SPEC, base_cfg)).read()
    for a, b in repl.items():
        s = s.replace(a, b)
    p = os.path.join(SPEC, ".gen_%s_%d.cfg" % (base_cfg.replace(".cfg", ""), os.getpid()))
    with open(p, "w") as f:
        f.write(s)
    return p


def check_c11(tier):
    t0 = time.time()
    out = Outcome("C11")
    thorough = tier == "thorough"
    wd = workdir("C11")
    bins = cargo_build("purefn")
    # 1. design level: transcribed algorithms meet the declarative contract for every input of a W-bit word
    w_mc = 9 if thorough else 7
    cfg = _mc_cfg(wd, "MC_Bumping.cfg", {"W = 8": "W = %d" % w_mc})
    try:
        r = tlc("MC_Bumping", os.path.basename(cfg), workers=12, timeout=3000 if thorough else 600)
    finally:
        os.unlink(cfg)
    if r.error and "AlgorithmMeetsContract" in (r.error or ""):
        raise ToolError("MC_Bumping: the specification's algorithm layer violates its own contract:\n" + r.out[-3000:])
    require_ok(r, "MC_Bumping")
    mc_inputs = sum(int(x.split(",")[-1]) for x in r.tagged("COUNT"))
    # 2. conformance: real functions on the embedded grids
    obs = os.path.join(wd, "bumping.ndjson")
    total = 0
    runs = [(6, 1000)] if not thorough else [(6, 1000), (7, 1000), (8, 60)]
    bad_recs = []
    fitting = 0
    samples = []
    for (w, pm) in runs:
        p = run([bins["purefn"], "bumping", obs, str(w), str(pm), str(seed())], timeout=1200)
        n = int(p.stdout.strip())
        results, parts, d = tlc_obs("PureObs", "PureObs.cfg", obs, nparts=12, timeout=2400)
        assert tagged_int(results, "CHECKED") == n, "TLC did not see every record"
        total += n
        fitting += tagged_int(results, "FITTING")
        bad = tagged_index_sets(results, parts, "BAD")
        if bad:
            recs = nth_lines(obs, [g for (_, _, g) in bad][:50])
            for g, rec in recs.items():
                bad_recs.append(rec)
        if not samples:
            samples = list(nth_lines(obs, [1, n // 2, n]).values())
        shutil.rmtree(d, ignore_errors=True)
    for rec in bad_recs:
        sig = {"f": rec["f"], "anchor": rec["an"], "al": rec["al"], "ma": rec["mar"],
               "kind": "panic" if any(g["p"] for g in rec["res"]) else
                       ("hint-dependent" if len(rec["res"]) > 1 else "wrong-result")}
        out.violation(sig, {"check": "C11", "record": rec,
                            "how": "harness/purefn calls the real src/bumping.rs function on this input (addresses relative to anchor)"})
    rc = out.finish()
    write_evidence("C11", tier, "model_checking", {
        "states": max(r.distinct, 1), "transitions": max(r.generated, 1),
        "traces_validated_against_impl": total,
        "samples": samples,
        "exhaustive": True,
        "mc_word_bits": w_mc, "mc_inputs_evaluated": mc_inputs,
        "impl_records": total, "impl_records_fitting": fitting,
        "impl_grids": [{"W": w, "per_mille": pm, "anchors": ["lo", "mid", "hi", "scale"]} for (w, pm) in runs],
        "explanation": "TLC evaluates BumpUpAlg/BumpDownAlg/PrepUpAlg/PrepDownAlg (transcription of src/bumping.rs) against the "
                       "declarative contract for every valid input of a %d-bit word (mc_inputs_evaluated inputs inside %d seed states); "
                       "then the real 64-bit functions are run on the image of the W-bit grid under 4 embeddings and every recorded "
                       "result is checked by TLC against the same declarative operators (PureObs.tla)." % (w_mc, r.distinct),
    }, time.time() - t0, violations=len(out.violations), assumptions=[
        "inputs of the real functions are images of small-word inputs (offsets < 2^W from 0, 2^40, 2^64-2^W, or scaled by 2^(64-W)) plus a HUGE size class",
        "harness/purefn includes /repo/src/bumping.rs verbatim via #[path] and runs it with debug assertions and overflow checks on",
    ])
    return rc


def check_c12(tier):
    t0 = time.time()
    out = Outcome("C12")
    thorough = tier == "thorough"
    wd = workdir("C12")
    bins = cargo_build("purefn")
    r = tlc("MC_ChunkSize", "MC_ChunkSize_thorough.cfg" if thorough else "MC_ChunkSize.cfg", workers=12,
            timeout=3600 if thorough else 900)
    if r.error and "ChunkSizeMeetsContract" in (r.error or ""):
        raise ToolError("MC_ChunkSize: the specification's algorithm layer violates its own contract:\n" + r.out[-3000:])
    require_ok(r, "MC_ChunkSize")
    obs = os.path.join(wd, "chunksize.ndjson")
    pm = 1000 if thorough else 250
    p = run([bins["purefn"], "chunksize", obs, str(pm), str(seed())], timeout=600)
    n = int(p.stdout.strip())
    results, parts, d = tlc_obs("ChunkObs", "ChunkObs.cfg", obs, nparts=12, timeout=2400)
    assert tagged_int(results, "CHECKED") == n
    somes = tagged_int(results, "SOMES")
    bad = tagged_index_sets(results, parts, "BAD")
    drift = tagged_index_sets(results, parts, "DRIFT")
    recs = nth_lines(obs, [g for (_, _, g) in bad][:50])
    for g, rec in recs.items():
        sig = {"f": rec["f"], "up": rec["up"], "hs": rec["hs"], "ha": rec["ha"],
               "kind": "panic" if rec.get("panicked") else "contract"}
        out.violation(sig, {"check": "C12", "record": rec,
                            "how": "harness/purefn calls the real ChunkSizeConfig functions on this input (values relative to anchors lo/half/top)"})
    if drift:
        log("MODEL-DRIFT C12: %d records differ from the transcribed algorithm but satisfy the contract, e.g. %s"
            % (len(drift), json.dumps(list(nth_lines(obs, [drift[0][2]]).values())[0])[:300]))
    samples = list(nth_lines(obs, [1, n // 3, n]).values())
    shutil.rmtree(d, ignore_errors=True)
    # arena level: the chunk created for a request fits it (count grows by at most one) is checked by C01's
    # replay machinery when available
    arena = None
    try:
        import checks_arena
        arena = checks_arena.fresh_chunk_clause(tier, out)
    except ImportError:
        pass
    rc = out.finish()
    cov = {
        "states": max(r.distinct, 1), "transitions": max(r.generated, 1),
        "traces_validated_against_impl": n + (arena or {}).get("behaviours", 0),
        "samples": samples,
        "impl_records": n, "impl_records_some": somes, "model_drift_records": len(drift),
        "explanation": "TLC checks SizeOk/GrowthOk/FitsFresh of the transcribed ChunkSizeConfig on a 16-bit grid (every header layout, "
                       "direction, minimum chunk size, base-address residue, granted size); then the real functions run on lo/half/top anchored "
                       "inputs and every record is checked by TLC (ChunkObs.tla, 29-bit image of the 64-bit word).",
    }
    if arena:
        cov["arena"] = arena
    write_evidence("C12", tier, "model_checking", cov, time.time() - t0, violations=len(out.violations), assumptions=[
        "header layouts are those of repr(C, align(16)) ChunkHeader<A> for allocator values of size 0..256, align 1..256",
        "FitsFresh enumerates every base-address residue for alignments <= 1024 and extreme residues above",
    ])
    return rc
