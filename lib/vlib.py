"""Shared plumbing for /verif/bin/check: TLC runs, cargo builds, evidence, violations, known findings.

Exit codes of a check: 0 = property held on everything explored; 1 = VIOLATION line printed;
2 = tool error / timeout (never a verdict about the property).
"""
import json, os, re, shutil, subprocess, sys, time, hashlib

VERIF = os.path.dirname(os.path.dirname(os.path.abspath(__file__)))
REPO = os.environ.get("VERIF_REPO", "/repo")
WORK = os.path.join(VERIF, ".work")
SPEC = os.path.join(VERIF, "spec")
HARNESS = os.path.join(VERIF, "harness")
EVID = os.path.join(VERIF, "evidence")
if os.environ.get("VERIF_REPO"):
    # a run against a scratch copy of the repository (mutant testing): its evidence must not replace the evidence of /repo
    EVID = os.path.join(VERIF, ".work", "evidence-shadow")
REPLAYS = os.path.join(WORK, "replays")
JAR_CP = "/opt/veriftools/tla/tla2tools.jar:/opt/veriftools/tla/CommunityModules-deps.jar"
GUARD = "bump_scope_verif"


class ToolError(Exception):
    pass


def seed():
    try:
        return int(os.environ.get("VERIF_SEED", "1"))
    except ValueError:
        return 1


def log(*a):
    print(*a, file=sys.stderr, flush=True)


def workdir(name, clean=True):
    d = os.path.join(WORK, name)
    if clean and os.path.isdir(d):
        shutil.rmtree(d, ignore_errors=True)
    os.makedirs(d, exist_ok=True)
    return d


# ----------------------------------------------------------------------------------------------
# TLC
# ----------------------------------------------------------------------------------------------

class TlcResult:
    def __init__(self, out, rc, wall):
        self.out = out
        self.rc = rc
        self.wall = wall
        self.generated = 0
        self.distinct = 0
        self.depth = 0
        self.prints = []      # parsed PrintT tuples/strings (raw text lines)
        self.error = None
        self.coverage = {}    # action -> (distinct, total)
        self._parse()

    def _parse(self):
        m = None
        for m in re.finditer(r"(\d+) states generated, (\d+) distinct states found", self.out):
            pass
        if m:
            self.generated, self.distinct = int(m.group(1)), int(m.group(2))
        m = re.search(r"The depth of the complete state graph search is (\d+)", self.out)
        if m:
            self.depth = int(m.group(1))
        if re.search(r"Error:|Invariant .* is violated|Temporal properties were violated|"
                     r"TLC threw an unexpected exception|Parsing or semantic analysis failed|"
                     r"The first argument of Assert evaluated to FALSE|Deadlock reached|"
                     r"java\.lang\.\w+(Error|Exception)", self.out):
            m = re.search(r"(Error:.*|Invariant .* is violated.*|Temporal properties were violated.*|"
                          r"Deadlock reached.*)", self.out)
            self.error = m.group(1) if m else "TLC error"
        for m in re.finditer(r"^<(\w+) line \d+, col \d+ to line \d+, col \d+ of module (\w+)>: (\d+):(\d+)",
                             self.out, re.M):
            self.coverage[m.group(1)] = (int(m.group(3)), int(m.group(4)))

    def tagged(self, tag):
        """Values printed by PrintT(<<"TAG", ...>>) -> list of raw inner text after the tag.
        TLC pretty-prints long values over several lines: accumulate until << >> balance."""
        res = []
        lines = self.out.splitlines()
        pat = re.compile(r'^<<\s*"' + re.escape(tag) + r'"\s*(,|>>)')
        i = 0
        while i < len(lines):
            line = lines[i].strip()
            m = pat.match(line)
            if m:
                buf = line
                depth = buf.count("<<") - buf.count(">>")
                while depth > 0 and i + 1 < len(lines):
                    i += 1
                    nxt = lines[i].strip()
                    buf += " " + nxt
                    depth += nxt.count("<<") - nxt.count(">>")
                inner = buf[m.end(1) if m.group(1) == "," else m.start(1):]
                inner = inner.strip()
                inner = inner[:-2] if inner.endswith(">>") else inner
                res.append(inner.strip())
            i += 1
        return res

    def ok(self):
        return self.error is None and self.rc == 0


def tlc(module, cfg=None, cwd=SPEC, workers=8, timeout=600, env=None, args=(), xmx="8g", simulate=None,
        depth=None, seed_=None, metadir=None, deadlock=False, dfs=False, xss=None, coverage=False):
    """Run TLC on spec/<module>.tla with spec/<cfg>. Returns TlcResult. Raises ToolError on timeout."""
    md = metadir or workdir("tlc-" + (cfg or module).replace("/", "_").replace(".cfg", "") + "-" + str(os.getpid()))
    jtmp = md.rstrip("/") + ".jtmp"      # TLC leaves a tlc-<n> directory per run in java.io.tmpdir: keep it out of /tmp
    os.makedirs(jtmp, exist_ok=True)
    jopts = ["-XX:+UseParallelGC", "-Xmx" + xmx, "-Djava.io.tmpdir=" + jtmp]
    if xss:
        jopts.append("-Xss" + xss)
    if dfs:
        jopts.append("-Dtlc2.tool.queue.IStateQueue=StateDeque")
    cmd = ["java"] + jopts + ["-cp", JAR_CP, "tlc2.TLC", "-workers", str(workers), "-metadir", md,
                              "-cleanup", "-noGenerateSpecTE"]
    if cfg:
        cmd += ["-config", cfg]
    if not deadlock:
        cmd += ["-deadlock"]
    if coverage:
        cmd += ["-coverage", "1"]
    if simulate:
        cmd += ["-simulate", "num=%d" % simulate]
        if depth:
            cmd += ["-depth", str(depth)]
        cmd += ["-seed", str(seed_ if seed_ is not None else seed())]
    cmd += list(args)
    cmd += [module]
    e = dict(os.environ)
    e.pop("JAVA_TOOL_OPTIONS", None)
    if env:
        e.update({k: str(v) for k, v in env.items()})
    t0 = time.time()
    try:
        p = subprocess.run(cmd, cwd=cwd, env=e, stdout=subprocess.PIPE, stderr=subprocess.STDOUT,
                           timeout=timeout, text=True, errors="replace")
    except subprocess.TimeoutExpired as ex:
        shutil.rmtree(md, ignore_errors=True)
        shutil.rmtree(jtmp, ignore_errors=True)
        raise ToolError("TLC timeout after %ds: %s" % (timeout, " ".join(cmd[-4:])))
    finally:
        pass
    shutil.rmtree(md, ignore_errors=True)
    shutil.rmtree(jtmp, ignore_errors=True)
    return TlcResult(p.stdout, p.returncode, time.time() - t0)


def require_ok(r, what):
    if not r.ok():
        tail = "\n".join(r.out.splitlines()[-60:])
        raise ToolError("%s: TLC failed (rc=%s, %s)\n%s" % (what, r.rc, r.error, tail))


# ----------------------------------------------------------------------------------------------
# cargo
# ----------------------------------------------------------------------------------------------

def cargo_build(crate, bins=None, features=None, timeout=2400, jobs=None, env=None):
    """Build harness crate /verif/harness/<crate> (its own workspace, path dependency on /repo) against the CURRENT
    /repo tree, release profile.  Returns dict bin -> path (bins defaults to [crate])."""
    crate_dir = os.path.join(HARNESS, crate)
    bins = bins or [crate]
    if os.path.realpath(REPO) != "/repo":
        crate_dir = shadow_crate(crate)
    lock = os.path.join(crate_dir, "Cargo.lock")
    if not os.path.exists(lock) and os.path.exists(os.path.join(REPO, "Cargo.lock")):
        shutil.copy(os.path.join(REPO, "Cargo.lock"), lock)
    e = dict(os.environ)
    e["CARGO_NET_OFFLINE"] = "true"
    if env:
        e.update(env)
    cmd = ["cargo", "build", "--offline", "--release"]
    for b in bins:
        cmd += ["--bin", b]
    if features:
        cmd += ["--features", ",".join(features)]
    if jobs:
        cmd += ["-j", str(jobs)]
    t0 = time.time()
    p = subprocess.run(cmd, cwd=crate_dir, env=e, stdout=subprocess.PIPE, stderr=subprocess.STDOUT, text=True,
                       timeout=timeout)
    if p.returncode != 0:
        raise ToolError("cargo build failed in %s:\n%s" % (crate_dir, "\n".join(p.stdout.splitlines()[-80:])))
    log("cargo build %s: %.1fs" % (crate, time.time() - t0))
    res = {b: os.path.join(crate_dir, "target", "release", b) for b in bins}
    missing = [b for b, pth in res.items() if not os.path.exists(pth)]
    if missing:
        # (seen once when the sources changed while cargo was running): build again
        p = subprocess.run(cmd, cwd=crate_dir, env=e, stdout=subprocess.PIPE, stderr=subprocess.STDOUT, text=True, timeout=timeout)
        missing = [b for b, pth in res.items() if not os.path.exists(pth)]
        if p.returncode != 0 or missing:
            raise ToolError("cargo build did not produce %s in %s:\n%s" % (missing, crate_dir, "\n".join(p.stdout.splitlines()[-40:])))
    return res


def shadow_crate(crate):
    """VERIF_REPO=<scratch worktree> : build a shadow copy of the harness crate (under .work/shadow) whose path
    dependency and #[path] includes point at that tree instead of /repo.  Used to test the checks against
    mutated copies of bump-scope without touching /repo itself."""
    tag = hashlib.sha1(os.path.realpath(REPO).encode()).hexdigest()[:8]
    dst = os.path.join(WORK, "shadow", tag, crate)
    os.makedirs(dst, exist_ok=True)
    src = os.path.join(HARNESS, crate)
    subprocess.run(["rsync", "-a", "--delete", "--exclude", "target", src + "/", dst + "/"], check=True)
    for root, dirs, files in os.walk(dst):
        if "target" in dirs:
            dirs.remove("target")
        for fn in files:
            if fn.endswith((".toml", ".rs")):
                fp = os.path.join(root, fn)
                txt = open(fp).read()
                new = txt.replace('"/repo"', '"%s"' % REPO).replace('"/repo/', '"%s/' % REPO)
                if new != txt:
                    # keep mtime stable when the content is unchanged so cargo's incremental build stays warm
                    open(fp, "w").write(new)
    return dst


def run(cmd, timeout=600, cwd=None, env=None, input_=None, check=True):
    e = dict(os.environ)
    if env:
        e.update({k: str(v) for k, v in env.items()})
    try:
        p = subprocess.run(cmd, cwd=cwd, env=e, stdout=subprocess.PIPE, stderr=subprocess.PIPE, text=True,
                           timeout=timeout, input=input_, errors="replace")
    except subprocess.TimeoutExpired:
        raise ToolError("timeout after %ds: %s" % (timeout, " ".join(map(str, cmd[:4]))))
    if check and p.returncode != 0:
        raise ToolError("command failed rc=%d: %s\n%s" % (p.returncode, " ".join(map(str, cmd[:6])),
                                                           (p.stderr or p.stdout)[-3000:]))
    return p


# ----------------------------------------------------------------------------------------------
# known findings, violations, evidence
# ----------------------------------------------------------------------------------------------

def known_findings(pid):
    """Open findings for property pid: list of dicts with 'signature' (dict) and 'what'."""
    path = os.path.join(VERIF, "known_findings.json")
    if not os.path.exists(path):
        return []
    with open(path) as f:
        data = json.load(f)
    return [x for x in data.get("findings", []) if x.get("property") == pid and x.get("status") == "open"]


def matches_finding(finding, sig):
    """A violation signature (dict) matches a finding if every key of the finding's signature is equal."""
    fs = finding.get("signature", {})
    return all(sig.get(k) == v for k, v in fs.items())


class Outcome:
    """Collects violations for one check run; prints VIOLATION / KNOWN-FINDING lines; decides exit code."""

    def __init__(self, pid):
        self.pid = pid
        self.violations = []   # (sig, replay_obj)
        self.known_hits = {}
        self.findings = known_findings(pid)

    def violation(self, sig, replay_obj):
        for f in self.findings:
            if matches_finding(f, sig):
                self.known_hits.setdefault(f["what"], 0)
                self.known_hits[f["what"]] += 1
                return
        self.violations.append((sig, replay_obj))

    def finish(self):
        for what, n in self.known_hits.items():
            print("KNOWN-FINDING: property=%s %s (%d occurrences this run)" % (self.pid, what, n), flush=True)
        if not self.violations:
            return 0
        os.makedirs(REPLAYS, exist_ok=True)
        seen = set()
        n = 0
        for sig, obj in self.violations:
            key = json.dumps(sig, sort_keys=True)
            if key in seen:
                continue
            seen.add(key)
            h = hashlib.sha1((key + json.dumps(obj, sort_keys=True, default=str)).encode()).hexdigest()[:10]
            path = os.path.join(REPLAYS, "%s-%s.json" % (self.pid, h))
            with open(path, "w") as f:
                json.dump({"property": self.pid, "signature": sig, "replay": obj}, f, indent=1, default=str)
            print("VIOLATION property=%s replay=%s" % (self.pid, path), flush=True)
            log("  signature: " + key[:400])
            n += 1
            if n >= 5:
                break
        return 1


def write_evidence(pid, tier, level, coverage, wall, violations=0, assumptions=()):
    os.makedirs(EVID, exist_ok=True)
    ev = {
        "property_id": pid,
        "tier": tier,
        "seed": seed(),
        "level": level,
        "coverage": coverage,
        "assumptions": list(assumptions),
        "wall_s": round(wall, 2),
        "violations": violations,
    }
    tmp = os.path.join(EVID, pid + ".json.tmp")
    with open(tmp, "w") as f:
        json.dump(ev, f, indent=1, default=str)
    os.replace(tmp, os.path.join(EVID, pid + ".json"))


def read_ndjson(path):
    out = []
    with open(path) as f:
        for line in f:
            line = line.strip()
            if line:
                out.append(json.loads(line))
    return out


def write_ndjson(path, recs):
    with open(path, "w") as f:
        for r in recs:
            f.write(json.dumps(r, separators=(",", ":")))
            f.write("\n")


_TLA_TOK = re.compile(r'\s*(<<|>>|\[|\]|\{|\}|\|->|,|"(?:[^"\\]|\\.)*"|-?\d+|TRUE|FALSE|[A-Za-z_][A-Za-z0-9_]*)')


def parse_tla_value(s):
    """Parse a TLA+ value printed by TLC (tuples, records, sets, strings, ints, booleans) into Python."""
    toks = _TLA_TOK.findall(s)
    pos = [0]

    def peek():
        return toks[pos[0]] if pos[0] < len(toks) else None

    def nxt():
        t = toks[pos[0]]
        pos[0] += 1
        return t

    def val():
        t = nxt()
        if t == "<<":
            items = []
            while peek() != ">>":
                items.append(val())
                if peek() == ",":
                    nxt()
            nxt()
            return items
        if t == "{":
            items = []
            while peek() != "}":
                items.append(val())
                if peek() == ",":
                    nxt()
            nxt()
            return items
        if t == "[":
            rec = {}
            while peek() != "]":
                k = nxt()
                assert nxt() == "|->", "record expected"
                rec[k] = val()
                if peek() == ",":
                    nxt()
            nxt()
            return rec
        if t == "TRUE":
            return True
        if t == "FALSE":
            return False
        if t.startswith('"'):
            return bytes(t[1:-1], "utf-8").decode("unicode_escape")
        if re.fullmatch(r"-?\d+", t):
            return int(t)
        return t

    return val()


# ----------------------------------------------------------------------------------------------
# batch observation checking: split an NDJSON file into parts and evaluate each part with TLC in parallel
# ----------------------------------------------------------------------------------------------

def split_ndjson(path, nparts, outdir, prefix="part"):
    """Round-robin split; returns list of (part_path, [original line numbers (1-based)])."""
    files = []
    idx = []
    for i in range(nparts):
        p = os.path.join(outdir, "%s%02d.ndjson" % (prefix, i))
        files.append(open(p, "w"))
        idx.append([])
    n = 0
    with open(path) as f:
        for line in f:
            if not line.strip():
                continue
            k = n % nparts
            files[k].write(line)
            n += 1
            idx[k].append(n)
    for f in files:
        f.close()
    return [(os.path.join(outdir, "%s%02d.ndjson" % (prefix, i)), idx[i]) for i in range(nparts) if idx[i]]


def tlc_obs(module, cfg, obs_path, nparts=8, timeout=1200, xmx="4g", envname="OBS", extra_env=None):
    """Evaluate an observation-checking module (single initial state that PrintT's tagged tuples) over the
    records of obs_path, in nparts parallel TLC processes.  Returns (results, parts) where results is a list of
    TlcResult and parts the (path, line-number-map) list, so that record indices printed by TLC can be mapped back."""
    from concurrent.futures import ThreadPoolExecutor
    d = workdir("obs-%s-%d" % (module, os.getpid()))
    parts = split_ndjson(obs_path, nparts, d)

    def one(i):
        env = {envname: parts[i][0]}
        if extra_env:
            env.update(extra_env)
        return tlc(module, cfg, workers=1, timeout=timeout, env=env, xmx=xmx, xss="512m",
                   metadir=os.path.join(d, "md%02d" % i))
    with ThreadPoolExecutor(max_workers=len(parts)) as ex:
        results = list(ex.map(one, range(len(parts))))
    for r in results:
        require_ok(r, module + " observation check")
    return results, parts, d


def tagged_int(results, tag):
    return sum(int(x) for r in results for x in r.tagged(tag))


def tagged_index_sets(results, parts, tag):
    """PrintT(<<"TAG", {i, j, ...}>>) per part -> list of (part_no, local_index, global_line_no)."""
    out = []
    for pi, r in enumerate(results):
        for x in r.tagged(tag):
            for i in parse_tla_value(x):
                out.append((pi, i, parts[pi][1][i - 1]))
    return out


def nth_lines(path, wanted):
    """Return {lineno: parsed json} for 1-based line numbers in `wanted` (non-empty lines only counted)."""
    wanted = set(wanted)
    res = {}
    n = 0
    with open(path) as f:
        for line in f:
            if not line.strip():
                continue
            n += 1
            if n in wanted:
                res[n] = json.loads(line)
    return res
