"""Claims of the string component (lib/checks_str.py, spec/Str*.tla, spec/MC_Str.*, harness/strs)."""

CLAIMS = {
    "C09": dict(
        category="model_checking",
        text="spec/StrOps.tla + spec/Str.tla specify a string as a sequence of code points drawn from an alphabet with every UTF-8 "
             "width (a, NUL, U+E9, U+20AC, U+1F600, plus U+FFFD from lossy decoding); byte indices are derived (an index is a character "
             "boundary iff it is a prefix sum of widths). Every public operation of C09 (push, push_str, insert, insert_str, remove, "
             "pop, truncate, clear, retain with a predicate that panics at the k-th call, drain consumed from both ends and dropped or "
             "leaked, replace_range, extend_from_within, split_off, write_fmt / alloc_fmt(_mut) with run-time pieces and with the "
             "literal fast path, extend_zeroed, reserve, from_utf8 / from_utf8_lossy over byte segment classes, from_utf16(_lossy) over "
             "unit classes, into_cstr and the four alloc_cstr* constructors) is an action addressed by BYTE index/range with outcomes "
             "ok / expected panic / fixed capacity exceeded. TLC model-checks it (MC_Str): on every transition it asserts that the "
             "string is a sequence of whole characters whose byte image -- computed by a UTF-8 encoder and strict decoder written in "
             "TLA+ -- is valid UTF-8, also after a panicked step; that a panic occurs exactly when a byte-level is_char_boundary "
             "formulation says the index/range is bad; that split_off partitions exactly; that C strings end in exactly one NUL; that "
             "strict decoding succeeds iff lossy decoding introduces no replacement character; `-coverage 1` shows no action dead. "
             "A second TLC run (MC_StrBytes) checks that bump-scope's byte-level algorithms, transcribed in StrBytes.tla (insert_bytes, "
             "remove, pop, retain with its SetLenOnDrop guard under a panicking predicate, Drain::drop, replace_range, "
             "extend_from_within, the four cases of split_off, into_cstr), produce exactly the UTF-8 encoding of what the "
             "character-level operators say, for every string of <= 3 characters and every boundary argument. "
             "The same specification emits behaviours (every operation instance from every short string, every decoding/formatting "
             "constructor instance, exhaustive two-operation paths over a small alphabet in the thorough tier, seeded random walks); "
             "harness/strs executes them on BumpBox<str>, FixedBumpString, BumpString, MutBumpString in four bump configurations "
             "(UP/DOWN x MIN_ALIGN 1/8) and on std::string::String, recording after every step -- panicked ones included -- the raw "
             "bytes of the buffer, capacity, returned values, outcome and C-string bytes. TLC (StrObs.tla) then recomputes the expected "
             "result of every recorded step from the OBSERVED pre-state with the model-checked operators and evaluates the contract "
             "clauses: raw bytes valid UTF-8 (decided by the TLA+ decoder), panic / error exactly when specified, bytes equal the "
             "encoding of the expected string, returned values equal, C string = text up to the first NUL + one NUL, len <= capacity. "
             "std String is replayed through the same pipeline; any disagreement of std with the specification aborts the check as a "
             "specification bug.",
        design_ref="DESIGN.md section 3.6 and section 4, C09",
        note="Trusted: TLC and its JSON module; the harness as interpreter/recorder (it decides nothing; deliberately corrupted copies "
             "of real records are appended to every run and must be rejected by StrObs). Bounds: strings <= 4 characters over a "
             "5-character alphabet, argument texts from a small fixed set, malformed inputs limited to segment/unit classes with an "
             "unambiguous replacement count. Contents after a panicking retain predicate or a leaked drain are only required to be "
             "valid UTF-8 (std's exact result is compared as model drift). Not covered: allocation failure (C07), Extend/Add/From "
             "impls, serde, strings longer than the bounds (e.g. chunk-crossing growth of large strings belongs to C13/C15).",
        technique="TLA+ spec (StrOps.tla/Str.tla, byte-level refinement StrBytes.tla) model-checked with TLC + TLC-generated behaviours replayed on the real string types and "
                  "on std String + TLC evaluation (StrObs.tla) of the contract on every recorded step",
        engine="strs"),
}

ENGINES = [
    {"name": "strs", "path": "/verif/harness/strs", "serves_properties": ["C09"],
     "kind_free_text": "Rust interpreter/recorder: replays TLC-emitted Str.tla behaviours (JSON lines) on BumpBox<str>, FixedBumpString, "
                       "BumpString, MutBumpString (UP/DOWN x MIN_ALIGN 1/8) and std String with catch_unwind around every step, and writes "
                       "one NDJSON observation per distinct step (raw buffer bytes, capacity, returned values, outcome, C-string bytes) "
                       "for TLC (spec/StrObs.tla)"},
]
