"""Replays the behaviour stored in a violation file of an arena-family check on the CURRENT /repo tree and evaluates the
contract clause of the property again: exit 1 + VIOLATION line if it still fails, exit 0 if it does not reproduce."""
import json, os, shutil
from vlib import *
import checks_arena as ca


def _c17_compare(obs, wd):
    """the same merge as checks_arena.check_c17: one record per step with the observations of every variant side by side"""
    merged = os.path.join(wd, "c17.ndjson")
    groups, order = {}, []
    with open(obs) as f:
        for line in f:
            r = json.loads(line)
            if r["a"] == "final":
                continue
            key = (r["b"], r["i"])
            if key not in groups:
                groups[key] = {"b": r["b"], "i": r["i"], "a": r["a"], "args": r["args"], "cfg": r["cfg"], "vs": []}
                order.append(key)
            o = r["o"]
            content = [o.get("prefix_ok"), o.get("zero_ok"), o.get("content_ok"), o.get("damaged")]
            groups[key]["vs"].append({"v": r["v"], "via": o.get("via", ""), "res": o["res"], "addr": o.get("addr", 0) or 0,
                                      "len": o.get("len", 0) or 0, "allocated": o["stats"][3], "count": o["stats"][0],
                                      "cur": o["cur"], "pos": o["chunks"][o["cur"] - 1][4] if o["cur"] else 0,
                                      "content": json.dumps(content)})
    with open(merged, "w") as f:
        for key in order:
            f.write(json.dumps(groups[key], separators=(",", ":")) + "\n")
    results, parts, d = tlc_obs("C17Obs", "C17Obs.cfg", merged, nparts=1, timeout=600, xmx="2g")
    bad = tagged_index_sets(results, parts, "BAD_C17")
    shutil.rmtree(d, ignore_errors=True)
    return bad


def replay(pid, path):
    with open(path) as f:
        obj = json.load(f)
    rp = obj.get("replay", obj)
    beh = rp.get("behaviour")
    if not beh:
        print(json.dumps(obj, indent=1)[:20000])
        print("no behaviour recorded in this file (a crash or a comparison record): re-run bin/check %s" % pid)
        return 0
    step = rp.get("step") or {}
    wd = workdir("replay-%s-%d" % (pid, os.getpid()))
    bpath = os.path.join(wd, "beh.ndjson")
    beh = dict(beh)
    beh["id"] = 1
    with open(bpath, "w") as f:
        f.write(json.dumps(beh, separators=(",", ":")) + "\n")
    bins = cargo_build("replay")
    obs = os.path.join(wd, "obs.ndjson")
    variants = ca.C17_VARIANTS if pid == "C17" else (step.get("v") or "trait")
    stats, crashes = ca.replay(bins["replay"], bpath, obs, variants)
    if stats.get("skipped"):
        # the configuration is only compiled into the thorough binary
        bins = cargo_build("replay", features=["full"])
        stats, crashes = ca.replay(bins["replay"], bpath, obs, variants)
    if crashes:
        print("the replayer process was killed while executing the behaviour (rc=%s)" % crashes[0][1])
        print("VIOLATION property=%s replay=%s" % (pid, path))
        return 1
    if pid == "C17":
        bad = _c17_compare(obs, wd)
    else:
        results, parts, d = tlc_obs("ArenaObs", "ArenaObs.cfg", obs, nparts=1, timeout=600, xmx="2g")
        bad = tagged_index_sets(results, parts, "BAD_" + pid)
        shutil.rmtree(d, ignore_errors=True)
    if bad:
        recs = nth_lines(obs, [g for (_, _, g) in bad][:5]) if pid != "C17" else {}
        for g, rec in sorted(recs.items()):
            print("step %d (%s): %s" % (rec["i"], rec["a"], json.dumps(rec["o"])[:800]))
        print("reproduced on the current tree: %d recorded step(s) violate the %s clause" % (len(bad), pid))
        print("VIOLATION property=%s replay=%s" % (pid, path))
        return 1
    print("not reproduced on the current tree: the behaviour (%d steps) was replayed and every %s clause holds" % (len(beh["steps"]), pid))
    shutil.rmtree(wd, ignore_errors=True)
    return 0
