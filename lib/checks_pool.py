"""C19 (BumpPool hands every arena to one user at a time).

(Probe schedules: besides the schedules of the model as the code is -- arena created inside get's critical section -- TLC also
emits schedules of the variant that creates outside it; the controller then really sends a thread for the pool mutex while
another thread is parked inside the base allocator's first `allocate` of a new arena.  On the real pool that thread falls
asleep on the mutex -- detected from its scheduler state in /proc, no clock -- and the creator is let through first; if it
gets the mutex instead, a guard drop can complete inside the window and the creation is observed with an idle arena.)

1. TLC model-checks spec/Pool.tla (MC_Pool*.cfg): exclusivity, idle/held disjointness, conservation of arenas,
   reuse-before-create (created <= peak number of simultaneous owners), data intact, reset/drop semantics, liveness
   under weak fairness; -coverage 1 makes sure no action is dead.
2. TLC emits schedules from the same specification (MC_PoolSched.tla: exhaustive interleavings of small instances
   under a partial-order reduction, and seeded random walks); harness/pool forces them on real OS threads on a real
   BumpPool (cfg(bump_scope_verif) hooks in /repo/src/bump_pool.rs) and also runs free-running stress phases.
3. Every recorded execution is validated by TLC: spec/PoolTrace.tla (is it a behaviour of Pool.tla, all invariants in
   every state) and spec/PoolContract.tla (the C19 clauses as explicit predicates over the observed values).
   Contract clause fails => VIOLATION; only the model rejects => MODEL-DRIFT (exit 0).
"""
import json, os, random, re, shutil, time
from concurrent.futures import ThreadPoolExecutor
from vlib import *

PID = "C19"
ACTIONS = ["GetCall", "GetLock", "GetPop", "GetCreateBegin", "GetCreateEnd", "GetCreateFail", "GetPanic", "GetReturn", "Use",
           "DropCall", "DropLock", "DropPush", "DropReturn", "Forget", "PoolReset", "PoolResetToStart", "PoolDrop"]

# (cfg, workers); every cfg is a complete (exhaustive) exploration of its instance
MC = {
    "quick": [("MC_Pool.cfg", 4), ("MC_Pool_reset.cfg", 2), ("MC_Pool_forget.cfg", 1), ("MC_Pool_poison.cfg", 2)],
    "thorough": [("MC_Pool_thorough.cfg", 6), ("MC_Pool_thorough4.cfg", 3), ("MC_Pool_reset_thorough.cfg", 3),
                 ("MC_Pool_forget_thorough.cfg", 3), ("MC_Pool_forget_thorough3.cfg", 2),
                 ("MC_Pool.cfg", 2), ("MC_Pool_reset.cfg", 1), ("MC_Pool_forget.cfg", 1), ("MC_Pool_poison.cfg", 2)],
}
# TLC's coverage statistics cost a factor of several on big models: they are collected on the quick configurations only
# (which the thorough tier runs as well and which together take every action)
COVERAGE_CFGS = {"MC_Pool.cfg", "MC_Pool_reset.cfg", "MC_Pool_forget.cfg", "MC_Pool_poison.cfg"}
# configurations that TLC must REFUTE (cfg -> the property / invariant whose violation is expected): they document what the
# property needs -- the naive reading of "peak", and the variant of the pool that creates arenas outside the critical section
EXPECTED_REFUTATIONS = {"MC_Pool_naive.cfg": "NaiveReuse", "MC_Pool_outside.cfg": "CreatedOnlyWhenIdleEmpty",
                        "MC_Pool_outside_peak.cfg": "ReuseOK"}
# schedule emission: (spec, threads, rounds, poolops, mayfail, mayforget, simulate-num or None)
EMIT = {
    "quick": [("PSpec", "{1, 2}", 2, 0, "TRUE", "FALSE", None), ("PSpec", "{1, 2, 3}", 1, 0, "TRUE", "TRUE", None),
              ("PSpec", "{1, 2}", 1, 1, "TRUE", "FALSE", None), ("SSpec", "{1, 2, 3}", 3, 2, "TRUE", "TRUE", 120),
              # PROBE schedules: generated from the variant that creates outside the critical section (CreateUnderLock = FALSE)
              ("PSpec", "{1, 2}", 2, 0, "FALSE", "FALSE", None, "FALSE"), ("SSpec", "{1, 2, 3}", 2, 1, "TRUE", "FALSE", 60, "FALSE"),
              # POISON schedules: a get panics inside its critical section (create branch), the pool mutex is poisoned from then on
              ("PSpec", "{1, 2}", 2, 0, "FALSE", "FALSE", None, "TRUE", "TRUE"), ("SSpec", "{1, 2, 3}", 2, 1, "FALSE", "TRUE", 60, "TRUE", "TRUE")],
    "thorough": [("PSpec", "{1, 2}", 2, 0, "TRUE", "TRUE", None), ("PSpec", "{1, 2, 3}", 1, 0, "TRUE", "TRUE", None),
                 ("PSpec", "{1, 2}", 1, 1, "TRUE", "TRUE", None), ("PSpec", "{1, 2}", 3, 0, "FALSE", "FALSE", None),
                 ("PSpec", "{1, 2}", 1, 2, "TRUE", "FALSE", None),
                 ("SSpec", "{1, 2, 3}", 3, 2, "TRUE", "TRUE", 1500), ("SSpec", "{1, 2, 3, 4}", 2, 1, "TRUE", "TRUE", 800),
                 ("SSpec", "{1, 2}", 4, 3, "TRUE", "TRUE", 500),
                 ("PSpec", "{1, 2}", 2, 0, "FALSE", "FALSE", None, "FALSE"), ("SSpec", "{1, 2, 3}", 3, 2, "TRUE", "TRUE", 600, "FALSE"),
                 ("PSpec", "{1, 2}", 2, 0, "FALSE", "FALSE", None, "TRUE", "TRUE"), ("SSpec", "{1, 2, 3}", 3, 2, "TRUE", "TRUE", 600, "TRUE", "TRUE")],
}
FREE_RUNS = {"quick": 40, "thorough": 400}

EXPECT_POINT = {"GetCall": ("get_want",), "GetLock": ("get_cs",), "GetPop": ("get_post",), "GetCreateBegin": ("get_create",),
                "GetCreateEnd": ("get_post",), "GetCreateFail": ("idle", "done"), "GetPanic": ("idle", "done"),
                "GetReturn": ("holding",),
                "Use": ("used",), "DropCall": ("drop_want",), "DropLock": ("drop_cs",), "DropPush": ("drop_post",),
                "DropReturn": ("idle", "done"), "Forget": ("idle", "done")}
MAIN_OPS = {"PoolReset": "reset", "PoolResetToStart": "reset_to_start", "PoolDrop": "drop"}

_vlib_tlc = tlc


def tlc(*a, **kw):
    """vlib.tlc with a small JVM footprint: this check runs a dozen TLC processes at a time (model checking, schedule
    emission, trace validation parts), each of which would otherwise start one GC and JIT thread per core."""
    env = dict(kw.pop("env", None) or {})
    env.setdefault("JAVA_TOOL_OPTIONS", "-XX:ParallelGCThreads=2 -XX:CICompilerCount=2")
    return _vlib_tlc(*a, env=env, **kw)


_COV = re.compile(r"^<(\w+) line \d+, col \d+ to line \d+, col \d+ of module Pool(?: \([\d ]+\))?>: (\d+):(\d+)", re.M)


# ------------------------------------------------------------------------------------------------
# 1. model checking
# ------------------------------------------------------------------------------------------------

def _mc_one(args):
    cfg, workers, thorough = args
    r = tlc("MC_Pool", cfg, workers=workers, timeout=2700 if thorough else 900, coverage=cfg in COVERAGE_CFGS,
            xmx="10g" if thorough else "6g")
    cov = {}
    for m in _COV.finditer(r.out):
        d, t = cov.get(m.group(1), (0, 0))
        cov[m.group(1)] = (d + int(m.group(2)), t + int(m.group(3)))
    return cfg, r, cov


def model_check(tier, ex):
    """Returns (futures) -- submitted to executor ex so that it overlaps with the cargo build and the emission."""
    thorough = tier == "thorough"
    futs = [ex.submit(_mc_one, (cfg, w, thorough)) for (cfg, w) in MC[tier]]
    futs.append(ex.submit(lambda: ("MC_Pool_live.cfg", tlc("MC_Pool", "MC_Pool_live.cfg", workers=1, timeout=900), {})))
    for cfg in EXPECTED_REFUTATIONS:
        futs.append(ex.submit(lambda cfg=cfg: (cfg, tlc("MC_Pool", cfg, workers=1, timeout=600), {})))
    return futs


def collect_mc(futs):
    res = {"configs": [], "states": 0, "transitions": 0, "coverage": {a: 0 for a in ACTIONS}}
    for f in futs:
        cfg, r, cov = f.result()
        if cfg in EXPECTED_REFUTATIONS:
            if not (r.error and EXPECTED_REFUTATIONS[cfg] in r.error and "violated" in r.error):
                raise ToolError("%s: TLC did not refute %s:\n%s" % (cfg, EXPECTED_REFUTATIONS[cfg], r.out[-2000:]))
            res.setdefault("expected_refutations", {})[cfg] = EXPECTED_REFUTATIONS[cfg] + " refuted by TLC"
            continue
        require_ok(r, cfg)
        res["configs"].append({"cfg": cfg, "distinct": r.distinct, "generated": r.generated, "depth": r.depth,
                               "wall_s": round(r.wall, 1)})
        res["states"] += r.distinct
        res["transitions"] += r.generated
        if cfg == "MC_Pool_live.cfg":
            res["liveness_checked"] = "GetReturns, DropReturns under WF per thread (MC_Pool_live.cfg)"
        for a, (d, t) in cov.items():
            if a in res["coverage"]:
                res["coverage"][a] += t
    dead = [a for a, n in res["coverage"].items() if n == 0]
    if dead:
        raise ToolError("Pool.tla: dead actions (never taken in any model-checking configuration): %s" % dead)
    return res


# ------------------------------------------------------------------------------------------------
# 2. schedules: emission by TLC, conversion to harness input
# ------------------------------------------------------------------------------------------------

def _emit_one(args):
    k, e, sd, thorough = args
    spec, threads, rounds, poolops, mayfail, mayforget, sim = e[:7]
    cul = e[7] if len(e) > 7 else "TRUE"
    maypanic = e[8] if len(e) > 8 else "FALSE"
    cfg = ".gen_pool_emit_%d_%d.cfg" % (os.getpid(), k)
    with open(os.path.join(SPEC, cfg), "w") as f:
        f.write("SPECIFICATION %s\nCONSTANTS\n    Threads = %s\n    MaxRounds = %d\n    MaxChunks = 100\n"
                "    MaxPoolOps = %d\n    CreateUnderLock = %s\n    MayFail = %s\n    MayForget = %s\n    MayPanic = %s\nINVARIANT Emit\n"
                % (spec, threads, rounds, poolops, cul, mayfail, mayforget, maypanic))
    try:
        if sim:
            r = tlc("MC_PoolSched", cfg, workers=1, timeout=2400 if thorough else 600, simulate=sim, depth=1500,
                    seed_=sd + k, xmx="4g", metadir=workdir("tlc-poolemit-%d-%d" % (os.getpid(), k)))
        else:
            r = tlc("MC_PoolSched", cfg, workers=2 if thorough else 1, timeout=2400 if thorough else 600, xmx="6g",
                    metadir=workdir("tlc-poolemit-%d-%d" % (os.getpid(), k)))
    finally:
        os.unlink(os.path.join(SPEC, cfg))
    require_ok(r, "schedule emission %s %s" % (spec, threads))
    hists = []
    for x in r.tagged("REPLAY"):
        hists.append(json.loads(parse_tla_value(x)))
    if not hists:
        raise ToolError("schedule emission %s %s produced nothing" % (spec, threads))
    nthreads = threads.count(",") + 1
    return {"spec": spec, "threads": nthreads, "rounds": rounds, "poolops": poolops, "mayfail": mayfail == "TRUE",
            "mayforget": mayforget == "TRUE", "probe": cul == "FALSE", "maypanic": maypanic == "TRUE",
            "simulate": sim, "exhaustive": sim is None, "schedules": len(hists), "distinct_states": r.distinct,
            "wall_s": round(r.wall, 1)}, hists


def schedule_to_input(run, nthreads, hist, settings, mode="forced"):
    """TLC behaviour (list of [thread, label, arg]) -> harness input lines + expected points per phase."""
    lines = ["R %d %d %s %d" % (run, nthreads, mode, settings)]
    phase = 0
    steps, vias, expect = [], {}, []
    cur_round = {}

    def flush(op):
        nonlocal steps, vias, expect, cur_round
        if steps:
            for t in sorted(vias):
                lines.append("P %d %s" % (t, " ".join(str(v) for v in vias[t])))
            lines.append("S " + " ".join(steps))
        lines.append("M " + op)
        steps, vias, cur_round = [], {}, {}

    for (t, label, x) in hist:
        if t == 0:
            flush(MAIN_OPS[label])
            if label != "PoolDrop":
                phase += 1
            continue
        if label == "GetCall":
            r = len(vias.setdefault(t, []))
            vias[t].append((t + r + phase + run) % 6)   # rotate through get / try_get / get_with_size / ... over the runs
            cur_round[t] = r
        tok = str(t)
        if label == "GetCreateFail":
            tok += "F"
            vias[t][cur_round[t]] |= 1          # only the try_ variants return Err; the others would abort the process
        elif label == "GetPanic":
            vias[t][cur_round[t]] = 6           # catch_unwind(|| pool.get_with_size(usize::MAX)): panics in the create branch
        elif label == "Use" and x == 1:
            tok += "B"
        elif label == "Forget":
            tok += "L"                          # mem::forget(guard) instead of dropping it
        steps.append(tok)
        expect.append((phase, t, label))
    if steps:   # behaviour not closed by PoolDrop (cannot happen for emitted schedules)
        flush("drop")
    return lines, expect


def free_run_input(run, rng):
    n = rng.choice([2, 3, 3, 4, 4, 6, 8])
    lines = ["R %d %d free %d" % (run, n, run % 2)]
    for ph in range(rng.choice([1, 2, 2, 3])):
        for t in range(1, n + 1):
            k = rng.randint(0, 8)
            if k:
                # via 6 = the poisoning get (panics inside the critical section unless an arena is idle)
                lines.append("P %d %s" % (t, " ".join(str(6 if rng.random() < 0.06 else rng.randint(0, 5)) for _ in range(k))))
        if not any(l.startswith("P") for l in lines[-n:]):
            lines.append("P 1 0 1")
        lines.append("G %d" % rng.randint(1, 2 ** 31 - 1))
        lines.append("M " + rng.choice(["reset", "reset_to_start", "reset", "check"]))
    lines.append("M drop")
    return lines


# ------------------------------------------------------------------------------------------------
# 3. executing runs, linearising the logs
# ------------------------------------------------------------------------------------------------

def merge_run(events):
    """Recorded events of one run (file order: per phase the workers' logs thread by thread, then the owner's events)
    -> one linear sequence.  Forced phases: the order in which the controller executed the steps (event j of thread t
    is the j-th step of t).  Otherwise: critical-section events by the sequence number taken under the pool mutex,
    every other event of a thread right after the thread's previous event."""
    out, workers, sched = [], [], [None]
    info = {"sched_order": 0, "seq_order": 0}

    def flush():
        if not workers:
            sched[0] = None
            return
        by = {}
        for e in workers:
            by.setdefault(e["t"], []).append(e)
        for t in by:
            by[t].sort(key=lambda e: e["k"])
        done = False
        if sched[0] is not None:
            cnt = {}
            for s in sched[0]["steps"]:
                cnt[s[0]] = cnt.get(s[0], 0) + 1
            if set(cnt) == set(by) and all(cnt[t] == len(by[t]) for t in by):
                idx = {t: 0 for t in by}
                for s in sched[0]["steps"]:
                    out.append(by[s[0]][idx[s[0]]])
                    idx[s[0]] += 1
                done = True
                info["sched_order"] += 1
        if not done:
            info["seq_order"] += 1
            idx = {t: 0 for t in by}
            ts = sorted(by)

            def locals_of(t):
                while idx[t] < len(by[t]) and "seq" not in by[t][idx[t]]:
                    out.append(by[t][idx[t]])
                    idx[t] += 1
            for t in ts:
                locals_of(t)
            while True:
                heads = [(by[t][idx[t]]["seq"], t) for t in ts if idx[t] < len(by[t])]
                if not heads:
                    break
                _, t = min(heads)
                out.append(by[t][idx[t]])
                idx[t] += 1
                locals_of(t)
        del workers[:]
        sched[0] = None

    for e in events:
        if e["t"] != 0:
            workers.append(e)
        elif e["ev"] == "sched":
            sched[0] = e
        else:
            flush()
            out.append(e)
    flush()
    return out, info


def run_harness(binp, wd, name, input_lines):
    inp = os.path.join(wd, name + ".in")
    outp = os.path.join(wd, name + ".ndjson")
    with open(inp, "w") as f:
        f.write("\n".join(input_lines) + "\n")
    p = run([binp, inp, outp], timeout=1800, check=False)
    return p, inp, outp


def execute(binp, wd, runs, nproc=4):
    """runs: list of dict(run, lines, ...). Executes them in batches (one harness process per batch, several batches in
    parallel).  Returns (events_by_run, crashes) where crashes is a list of dict(run, rc, stderr, lines)."""
    if not runs:
        return {}, []
    nb = max(1, min(len(runs), max(nproc, len(runs) // 400)))
    batches = [runs[i::nb] for i in range(nb)]
    events, crashes = {}, []

    def load(outp):
        cur = None
        if not os.path.exists(outp):
            return
        for e in read_ndjson(outp):
            if e["ev"] == "run_start":
                cur = e["run"]
                events[cur] = []
            events[cur].append(e)

    def one(bi):
        lines = [l for r in batches[bi] for l in r["lines"]]
        return run_harness(binp, wd, "batch%02d" % bi, lines)

    with ThreadPoolExecutor(max_workers=nproc) as ex:
        results = list(ex.map(one, range(nb)))
    for bi, (p, inp, outp) in enumerate(results):
        if p.returncode == 0 and p.stdout.strip() == str(len(batches[bi])):
            load(outp)
            continue
        # the code under test panicked / aborted / did not make progress somewhere in this batch: that is data.
        # Re-run the batch one run per process to find out where (bounded).
        log("harness batch %d ended with rc=%s (%s); isolating" % (bi, p.returncode, (p.stdout + p.stderr)[-300:].strip()))
        for k, r in enumerate(batches[bi][:150]):
            p1, inp1, outp1 = run_harness(binp, wd, "single%02d_%d" % (bi, k), r["lines"])
            if p1.returncode == 0:
                load(outp1)
            else:
                crashes.append({"run": r["run"], "rc": p1.returncode, "stdout": p1.stdout[-500:], "stderr": p1.stderr[-1500:],
                                "lines": r["lines"]})
    return events, crashes


# ------------------------------------------------------------------------------------------------
# 4. validation by TLC
# ------------------------------------------------------------------------------------------------

def _write_part(path, seq):
    with open(path, "w") as f:
        for (_, evs) in seq:
            for e in evs:
                f.write(json.dumps(e, separators=(",", ":")))
                f.write("\n")


def _locate(seq, index):
    """1-based event index in the concatenation -> position of its run in seq"""
    n = 0
    for k, (_, evs) in enumerate(seq):
        n += len(evs)
        if index <= n:
            return k
    return len(seq) - 1


def _strict_part(args):
    """Validate a list of (run, events) against PoolTrace.tla; on a rejection note the run and continue behind it."""
    pi, seq, wd, budget = args
    accepted, rejected = [], []
    restarts = 0
    while seq:
        path = os.path.join(wd, "strict%03d_%d.ndjson" % (pi, restarts))
        _write_part(path, seq)
        total = sum(len(evs) for _, evs in seq)
        r = tlc("PoolTrace", "PoolTrace.cfg", workers=1, timeout=1800, env={"TRACE": path}, xmx="3g", xss="64m",
                metadir=os.path.join(wd, "md_strict%03d_%d" % (pi, restarts)))
        cons = r.tagged("CONSUMED")
        inv = re.search(r"Invariant (\w+) is violated", r.out)
        if r.ok() and cons and parse_tla_value("<<" + cons[-1] + ">>") == [total, total]:
            accepted += [run for run, _ in seq]
            break
        if inv:
            idx = [int(x) for x in re.findall(r"^/\\ i = (\d+)$", r.out, re.M)]
            at = (idx[-1] - 1) if idx else 1          # the state after consuming event i-1 violates the invariant
            why = "invariant " + inv.group(1)
        elif cons:
            at = parse_tla_value("<<" + cons[-1] + ">>")[0] + 1   # first event that no action of the model matches
            why = "no matching action"
        else:
            raise ToolError("PoolTrace: unexpected TLC outcome\n" + r.out[-3000:])
        k = _locate(seq, at)
        first = sum(len(evs) for _, evs in seq[:k])
        accepted += [run for run, _ in seq[:k]]
        rejected.append({"run": seq[k][0], "why": why, "event_in_run": at - first, "event": seq[k][1][min(at - first, len(seq[k][1])) - 1]})
        seq = seq[k + 1:]
        restarts += 1
        if restarts >= budget:
            for run, _ in seq:
                rejected.append({"run": run, "why": "not examined (restart budget of this part exhausted)", "event_in_run": 0, "event": None})
            break
    return accepted, rejected


def _contract_part(args):
    pi, seq, wd = args
    path = os.path.join(wd, "contract%03d.ndjson" % pi)
    _write_part(path, seq)
    total = sum(len(evs) for _, evs in seq)
    r = tlc("PoolContract", "PoolContract.cfg", workers=1, timeout=1800, env={"TRACE": path}, xmx="3g", xss="64m",
            metadir=os.path.join(wd, "md_contract%03d" % pi))
    require_ok(r, "PoolContract")
    cons = r.tagged("CONSUMED")
    if not cons or parse_tla_value("<<" + cons[-1] + ">>") != [total, total]:
        raise ToolError("PoolContract did not consume every event:\n" + r.out[-2000:])
    viols = []
    for x in r.tagged("VIOLATION"):
        clauses, at = parse_tla_value("<<" + x + ">>")
        k = _locate(seq, at)
        first = sum(len(evs) for _, evs in seq[:k])
        viols.append({"run": seq[k][0], "clauses": sorted(clauses), "event_in_run": at - first, "event": seq[k][1][at - first - 1]})
    return viols


def validate(wd, traces, nproc=6, part_events=4000):
    """traces: list of (run, merged events). Returns (accepted runs, rejected list, contract violations list)."""
    parts, cur, n = [], [], 0
    for run, evs in traces:
        cur.append((run, evs))
        n += len(evs)
        if n >= part_events:
            parts.append(cur)
            cur, n = [], 0
    if cur:
        parts.append(cur)
    with ThreadPoolExecutor(max_workers=nproc) as ex:
        fs = [ex.submit(_strict_part, (pi, seq, wd, 6)) for pi, seq in enumerate(parts)]
        fc = [ex.submit(_contract_part, (pi, seq, wd)) for pi, seq in enumerate(parts)]
        accepted, rejected, viols = [], [], []
        for f in fs:
            a, rj = f.result()
            accepted += a
            rejected += rj
        for f in fc:
            viols += f.result()
    return accepted, rejected, viols


def negative_controls(wd, traces):
    """The binding must not be vacuous: corrupted copies of an accepted execution have to be rejected."""
    cand = None
    for run, evs in traces:
        owners, where = {}, None
        for j, e in enumerate(evs):
            if e["ev"] == "get_done":
                if any(a for t, a in owners.items() if t != e["t"]) and where is None:
                    where = j
                owners[e["t"]] = e["arena"]
            elif e["ev"] == "drop_cs":
                owners.pop(e["t"], None)
        if where is not None and any(e["ev"] == "drop_cs" for e in evs):
            cand = (run, evs, where)
            break
    if cand is None:
        return None
    run, evs, where = cand
    results = {}

    def variant(name, f):
        c = json.loads(json.dumps(evs))
        f(c)
        return name, c

    def dup_arena(c):
        owners = {}
        for j, e in enumerate(c):
            if j == where:
                other = [a for t, a in owners.items() if t != e["t"] and a][0]
                e["arena"] = other
                e["obs"]["a"] = other
                break
            if e["ev"] == "get_done":
                owners[e["t"]] = e["arena"]
            elif e["ev"] == "drop_cs":
                owners.pop(e["t"], None)

    def drop_event(c):
        j = [k for k, e in enumerate(c) if e["ev"] == "drop_cs"][0]
        del c[j]

    def damage(c):
        j = [k for k, e in enumerate(c) if e["ev"] == "use"][-1]
        c[j]["damaged"] = [c[j]["tag"]]

    def seq_swap(c):
        js = [k for k, e in enumerate(c) if "seq" in e]
        c[js[0]]["seq"], c[js[1]]["seq"] = c[js[1]]["seq"], c[js[0]]["seq"]

    variants = [variant("arena_of_live_guard_duplicated", dup_arena), variant("drop_cs_event_removed", drop_event),
                variant("block_reported_damaged", damage), variant("sequence_numbers_swapped", seq_swap)]
    nd = os.path.join(wd, "neg")
    os.makedirs(nd, exist_ok=True)
    with ThreadPoolExecutor(max_workers=8) as ex:
        fs = [ex.submit(_strict_part, (900 + k, [(run, c)], nd, 1)) for k, (name, c) in enumerate(variants)]
        fc = [ex.submit(_contract_part, (900 + k, [(run, c)], nd)) for k, (name, c) in enumerate(variants)]
        for k, (name, c) in enumerate(variants):
            acc, rej = fs[k].result()
            vio = fc[k].result()
            results[name] = {"trace_spec_rejects": bool(rej), "contract_clauses": sorted({x for v in vio for x in v["clauses"]})}
    if not all(v["trace_spec_rejects"] for v in results.values()):
        raise ToolError("negative controls: PoolTrace accepted a corrupted trace: %s" % results)
    if "exclusive" not in results["arena_of_live_guard_duplicated"]["contract_clauses"] or \
            "intact" not in results["block_reported_damaged"]["contract_clauses"]:
        raise ToolError("negative controls: PoolContract missed a corrupted trace: %s" % results)
    return results


# ------------------------------------------------------------------------------------------------
# the check
# ------------------------------------------------------------------------------------------------

def check_c19(tier):
    t0 = time.time()
    out = Outcome(PID)
    thorough = tier == "thorough"
    wd = workdir("%s-%d" % (PID, os.getpid()))
    sd = seed()
    rng = random.Random(sd)
    with ThreadPoolExecutor(max_workers=9) as ex:
        mc_futs = model_check(tier, ex)
        emit_futs = [ex.submit(_emit_one, (k, e, sd * 1000, thorough)) for k, e in enumerate(EMIT[tier])]
        bins = cargo_build("pool", jobs=6)
        emitted = [f.result() for f in emit_futs]
        log("[C19] schedules emitted: %s  (%.0fs)" % ([i["schedules"] for i, _ in emitted], time.time() - t0))
        # ---- runs
        runs, rid = [], 0
        for info, hists in emitted:
            for h in hists:
                rid += 1
                mode = "probe" if info["probe"] else "forced"
                lines, expect = schedule_to_input(rid, info["threads"], h, (rid // 6) % 2, mode)
                runs.append({"run": rid, "mode": mode, "lines": lines, "expect": expect, "hist": h})
        nforced = len(runs)
        for _ in range(FREE_RUNS[tier]):
            rid += 1
            runs.append({"run": rid, "mode": "free", "lines": free_run_input(rid, rng)})
        by_run = {r["run"]: r for r in runs}
        events, crashes = execute(bins["pool"], wd, runs, nproc=6)
        log("[C19] %d runs executed (%.0fs)" % (len(events), time.time() - t0))
        mc = collect_mc(mc_futs)
        log("[C19] model checking done: %d distinct states (%.0fs)" % (mc["states"], time.time() - t0))
    # ---- linearise
    traces, nev, sched_mismatch, seq_merged = [], 0, [], 0
    nprobes = nprobes_blocked = 0
    for r in runs:
        evs = events.get(r["run"])
        if evs is None:
            continue
        merged, info = merge_run(evs)
        traces.append((r["run"], merged))
        nev += len(merged)
        if r["mode"] == "probe":
            # the schedule comes from the variant of the model in which the mutex is free while an arena is being created;
            # on the real pool the probing thread must find the mutex taken (blocked) every time
            nprobes += sum(x["probes"] for x in evs if x["ev"] == "sched")
            nprobes_blocked += sum(x["blocked"] for x in evs if x["ev"] == "sched")
        elif r["mode"] == "forced":
            seq_merged += 1 if info["seq_order"] else 0
            executed = [(s["ph"], st[0], st[1]) for s in evs if s["ev"] == "sched" for st in s["steps"]]
            bad = any(s["skipped"] or s["blocked"] or s["extra"] for s in evs if s["ev"] == "sched") or \
                len(executed) != len(r["expect"]) or \
                any(e[0] != x[0] or e[1] != x[1] or x[2] not in EXPECT_POINT[e[2]] for e, x in zip(r["expect"], executed))
            if bad:
                sched_mismatch.append(r["run"])
    # instrumentation integrity: if the critical-section hook never fired although guards were handed out, the crate was
    # built without (or with broken) hooks -- that is a tool problem, not an observation about the pool
    n_cs = sum(1 for _, evs in traces for e in evs if e["ev"] == "get_cs")
    n_done = sum(1 for _, evs in traces for e in evs if e["ev"] == "get_done")
    if n_done and not n_cs:
        raise ToolError("the POOL_LOCK_HELD hook never fired in %d runs (%d guards handed out): bump-scope was built without "
                        "working cfg(bump_scope_verif) hooks" % (len(traces), n_done))
    accepted, rejected, viols = validate(wd, traces, nproc=10 if thorough else 6, part_events=max(4000, min(nev // 6 + 1, 20000)))
    log("[C19] %d events validated: %d runs accepted, %d rejected, %d contract violations (%.0fs)"
        % (nev, len(accepted), len(rejected), len(viols), time.time() - t0))
    acc_set = set(accepted)
    neg = negative_controls(wd, [t for t in traces if t[0] in acc_set][:300]) if accepted else None
    if neg is None and not viols and not rejected and not crashes:
        raise ToolError("negative controls: no accepted recorded run with two simultaneous owners to corrupt")
    log("[C19] negative controls done (%.0fs)" % (time.time() - t0))
    trace_of = dict(traces)
    # ---- classify
    viol_runs = {}
    for v in viols:
        viol_runs.setdefault(v["run"], []).append(v)
    for run, vs in sorted(viol_runs.items()):
        r = by_run[run]
        clauses = sorted({c for v in vs for c in v["clauses"]})
        out.violation({"clauses": "+".join(clauses), "mode": r["mode"]},
                      {"check": PID, "run": run, "mode": r["mode"], "clauses": clauses, "first_failing_events": vs[:5],
                       "harness_input": r["lines"], "tlc_schedule": r.get("hist"),
                       "how": "harness/pool/target/release/pool <file with harness_input> out.ndjson re-executes the run "
                              "(forced runs deterministically); spec/PoolContract.tla evaluates the clauses on the log",
                       "events": trace_of[run][:600]})
    for c in crashes:
        kind = "no-progress" if c["rc"] == 3 else "crash"
        out.violation({"clauses": kind, "mode": by_run[c["run"]]["mode"]},
                      {"check": PID, "run": c["run"], "what": "the process running the pool %s (rc=%s): a get/drop did not return"
                       % ("made no progress" if kind == "no-progress" else "panicked or aborted", c["rc"]),
                       "stdout": c["stdout"], "stderr": c["stderr"], "harness_input": c["lines"],
                       "tlc_schedule": by_run[c["run"]].get("hist")})
    unexamined = [x["run"] for x in rejected if x["event"] is None]
    drift = [x for x in rejected if x["run"] not in viol_runs and x["event"] is not None]
    drift_runs = sorted({x["run"] for x in drift} | (set(sched_mismatch) - set(viol_runs) - set(unexamined)))
    if drift_runs:
        log("MODEL-DRIFT %s: %d recorded executions satisfy every C19 clause but are not behaviours of spec/Pool.tla "
            "(or did not follow the forced schedule), e.g. %s" % (PID, len(drift_runs), json.dumps(drift[:2], default=str)[:1200]))
    rc = out.finish()
    samples = []
    if runs:
        samples.append({"tlc_schedule": runs[0]["hist"][:60], "harness_input": runs[0]["lines"]})
        mid = runs[nforced // 2]
        samples.append({"tlc_schedule": mid["hist"], "harness_input": mid["lines"],
                        "recorded_events_linearised": trace_of.get(mid["run"], [])[:40]})
        if len(runs) > nforced:
            samples.append({"free_running_input": runs[nforced]["lines"]})
    cov = {
        "states": max(mc["states"], 1), "transitions": max(mc["transitions"], 1),
        "traces_validated_against_impl": len(accepted),
        "samples": samples,
        "exhaustive": True,
        "model_checking": mc,
        "schedule_emission": [i for i, _ in emitted],
        "forced_schedules_executed": nforced, "free_running_runs": len(runs) - nforced,
        "probe_schedules_executed": sum(1 for r in runs if r["mode"] == "probe"),
        "gets_that_panicked_inside_the_critical_section_poisoning_the_mutex": sum(1 for _, evs in traces for e in evs if e["ev"] == "get_panic"),
        "runs_with_a_poisoned_pool_mutex": sum(1 for _, evs in traces if any(e["ev"] == "get_panic" for e in evs)),
        "lock_probes_while_an_arena_was_being_created": nprobes, "lock_probes_that_found_the_mutex_held": nprobes_blocked,
        "runs_recorded": len(traces), "events_recorded": nev,
        "forced_runs_validated_in_execution_order": sum(1 for r in runs if r["mode"] == "forced") - seq_merged,
        "accepted_by_trace_spec": len(accepted), "rejected_by_trace_spec": len(rejected),
        "contract_violations": len(viol_runs), "model_drift_runs": len(drift_runs),
        "not_examined_by_trace_spec_after_rejections": len(unexamined),
        "schedule_not_followed_runs": len(sched_mismatch), "crashes_or_no_progress": len(crashes),
        "negative_controls": neg,
        "explanation": "TLC explores every interleaving of Pool.tla for the instances listed under model_checking (invariants: exclusivity, "
                       "idle/held disjointness, conservation, created <= peak owners, data intact; action properties for reset/drop; "
                       "liveness under WF; at the instant an arena is created no arena is idle; the naive reading of 'peak' and the "
                       "variant that creates arenas outside the critical section are refuted). The same specification generates schedules that are "
                       "forced on real threads through the cfg(bump_scope_verif) hooks; every recorded execution (forced and free-running) "
                       "is validated by TLC against PoolTrace.tla (behaviour of the model, all invariants in every state) and "
                       "PoolContract.tla (C19 clauses as predicates over observed values).",
    }
    write_evidence(PID, tier, "model_checking", cov, time.time() - t0, violations=len(out.violations), assumptions=[
        "schedules are forced only at the hook points (before lock, lock held, after unlock), inside the base allocator's first "
        "allocate of a new arena, and at harness points",
        "idle arenas at the instant of creation are bounded from below by (completed pushes) - (gets that entered their critical "
        "section with a non-empty idle vector), both counters read inside that allocate call",
        "arena identity = id carried by the base-allocator handle cloned for the arena + interned address of its first chunk",
        "the order of critical sections is the sequence number taken inside the POOL_LOCK_HELD hook (pool mutex held); no clock is used",
        "'exactly as the single-arena operations do' is observed against a standalone Bump (twin) fed the same allocations, "
        "plus an instrumented base allocator (grants, frees, double frees, leaks)",
        "at most 8 threads per recorded run (PoolTrace.cfg)",
    ])
    if rc == 0:
        shutil.rmtree(wd, ignore_errors=True)
    return rc
