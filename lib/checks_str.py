"""C09 (string types behave like std String and always hold valid UTF-8).

1. TLC model-checks spec/Str.tla (MC_Str): every public string operation as an action over strings of abstract
   characters addressed by byte index; the design-level step properties (whole characters / valid UTF-8 after every
   step including panicked ones, panic exactly on a bad index, split_off partitions, C strings, decoders) are asserted
   on every transition; `-coverage 1` proves no action is dead.  MC_StrBytes: bump-scope's byte-level algorithms
   (transcribed in StrBytes.tla) refine the character-level operators for every short string.
2. TLC emits behaviours of the same specification (exhaustive short paths + seeded random walks) as JSON.
3. harness/strs replays them on BumpBox<str>, FixedBumpString, BumpString, MutBumpString (UP/DOWN x MIN_ALIGN 1/8) and
   on std::string::String and records one observation per step.
4. TLC (spec/StrObs.tla) recomputes the expected result of every recorded step from the observed pre-state with the
   operators of StrOps.tla and evaluates the C09 contract; Python only routes the verdicts.
"""
import os, re, time, json, collections
from vlib import *

PID = "C09"
CONTRACT = ["utf8", "out", "contents", "ret", "cstr", "cap"]      # priority order for the signature
DRIFT = ["d_retain", "d_forget", "d_cap"]
TOOLING = ["t_spec", "t_harness"]

BASE = {
    "Alphabet": "AlphabetDef", "MaxChars": 3, "MaxOps": 3, "Texts": "TextsDef", "CTexts": "CTextsDef", "Lits": "LitsDef",
    "Kinds": "AllKinds", "FixedCaps": "CapsDef", "StartTexts": "AllStrings", "CtorNames": "AllCtors",
    "OpNames": "AllOps", "MaxSegs": 2, "MaxPieces": 2, "InclSet": "BothIncl", "Apis": "BothApis",
    "DrainF": 2, "DrainB": 1, "OutFilter": "AllOuts", "CheckProps": "TRUE", "SampleK": 0,
}
MC_INVARIANTS = ["TypeOK", "WholeChars", "CapOk", "BoundaryAgree"]


def _cfg(path, consts, invariants, view):
    c = dict(BASE)
    c.update(consts)
    lines = ["INIT Init", "NEXT Next", "CHECK_DEADLOCK FALSE"]
    if view:
        lines.append("VIEW view")
    lines.append("CONSTANTS")
    for k, v in c.items():
        lines.append("    %s %s %s" % (k, "=" if isinstance(v, int) or v in ("TRUE", "FALSE") else "<-", v))
    lines.append("INVARIANTS")
    lines += ["    " + i for i in invariants]
    with open(path, "w") as f:
        f.write("\n".join(lines) + "\n")
    return path


def _actions():
    """names of the disjuncts of Str!Next"""
    src = open(os.path.join(SPEC, "Str.tla")).read()
    m = re.search(r"^Next ==\n(.*?)\n\n", src, re.S | re.M)
    return re.findall(r"\\/ (\w+)", m.group(1))


# ----------------------------------------------------------------------------------------------------------------
# 1. model checking

def model_check(thorough, wd):
    if thorough:
        cfg = _cfg(os.path.join(wd, "mc.cfg"), {"MaxChars": 4, "MaxOps": 5, "MaxSegs": 3, "Texts": "TextsSmall",
                                                "InclSet": "NoIncl"}, MC_INVARIANTS, True)
    else:
        cfg = os.path.join(SPEC, "MC_Str.cfg")
    r = tlc("MC_Str", cfg, workers=8, timeout=2400 if thorough else 900, coverage=True,
            xmx="12g" if thorough else "8g", metadir=os.path.join(wd, "md-mc"))
    if r.error and "StepProps violated" in r.out:
        raise ToolError("MC_Str: the specification violates its own step properties:\n" + r.out[-4000:])
    require_ok(r, "MC_Str")
    dead = [a for a in _actions() if r.coverage.get(a, (0, 0))[1] == 0]
    if dead:
        raise ToolError("MC_Str: dead actions (never taken within the bounds): %s" % dead)
    # the implementation-shaped byte-level algorithms (StrBytes.tla) refine the character-level operators
    b = tlc("MC_StrBytes", "MC_StrBytes.cfg", workers=1, timeout=1800, xmx="4g", xss="64m",
            metadir=os.path.join(wd, "md-bytes"))
    require_ok(b, "MC_StrBytes")
    checked = sum(int(x) for x in b.tagged("REFINE_CHECKED"))
    bad = sum(int(x) for x in b.tagged("REFINE_BAD"))
    if bad or not checked:
        raise ToolError("MC_StrBytes: the byte-level layer does not refine StrOps (%d of %d strings), e.g. %s"
                        % (bad, checked, b.tagged("REFINE_EXAMPLE")))
    r.refinement_checked = checked
    return r


# ----------------------------------------------------------------------------------------------------------------
# 2. behaviour emission

def _emission_sets(thorough):
    """(name, constants, None | (walks per process, depth, processes))"""
    emitc = {"CheckProps": "FALSE"}
    one_op = dict(emitc, MaxOps=2, CtorNames="FromStrOnly", Apis="BothApis")
    walk = dict(emitc, MaxChars=4, StartTexts="SomeStrings", MaxSegs=3, Texts="TextsSmall", CTexts="CTextsWalk", MaxPieces=1,
                DrainF=1, DrainB=1, SampleK=4)
    if not thorough:
        return [
            # every string of <= 2 characters x every operation instance (one step after the constructor)
            ("every-op", dict(one_op, MaxChars=2, Texts="TextsSmall", InclSet="NoIncl", DrainF=1, DrainB=1, MaxPieces=1,
                              FixedCaps="CapsSmall"), None),
            # 3-character strings over {a, U+E9, U+1F600} (head / range / tail all non-empty: the rotation branches of
            # split_off, tail moves with multi-byte characters on both sides): every operation instance that succeeds,
            # and every retain mask with every panic point
            ("ok-3", dict(one_op, MaxChars=3, Alphabet="AlphabetSmall", Kinds="BoxGrow", Texts="TextsSmall", InclSet="NoIncl",
                          Apis="OnlyP", DrainF=1, DrainB=1, MaxPieces=1, OutFilter="OkInject"), None),
            # every instance of the decoding / formatting constructors
            ("every-ctor", dict(emitc, MaxOps=1, MaxChars=4, StartTexts="SomeStrings", CtorNames="DecodeCtors", MaxSegs=2,
                                MaxPieces=2), None),
            # seeded random walks
            ("walks", dict(walk, MaxOps=8), (250, 12, 4)),
        ]
    sets = []
    # every string of <= 3 characters x every operation instance, split by kind to bound the size of one TLC run
    every3 = dict(one_op, MaxChars=3, Texts="TextsSmall", DrainF=2, DrainB=1, MaxPieces=2)
    sets.append(("every-op-box", dict(every3, Kinds="KindBox", InclSet="BothIncl"), None))
    sets.append(("every-op-fixed", dict(every3, Kinds="KindFixed", InclSet="NoIncl", FixedCaps="CapsMid"), None))
    sets.append(("every-op-grow", dict(every3, Kinds="KindGrow", InclSet="NoIncl"), None))
    sets.append(("every-ctor", dict(emitc, MaxOps=1, MaxChars=4, StartTexts="SomeStrings", CtorNames="DecodeCtors", MaxSegs=3,
                                    MaxPieces=2), None))
    # every behaviour of constructor + 2 operations over a 3-character alphabet (widths 1, 2, 4)
    sets.append(("every-path-2", dict(emitc, MaxOps=3, MaxChars=2, Alphabet="AlphabetSmall", StartTexts="TwoStrings",
                                      CtorNames="FromStrOnly", Texts="TextsSmall", InclSet="NoIncl", Apis="OnlyP",
                                      DrainF=1, DrainB=0, MaxPieces=1, FixedCaps="CapsSmall"), None))
    sets.append(("walks", dict(walk, MaxOps=10), (700, 14, 8)))
    return sets


def _collect(user_file, name, out, n0):
    """PrintT lines <<"REPLAY", "json">> of one TLC run (written by -userFile) -> behaviour lines"""
    k = 0
    prefix = '<<"REPLAY", '
    with open(user_file) as f:
        for line in f:
            line = line.strip()
            if not line.startswith(prefix):
                continue
            steps = json.loads(json.loads(line[len(prefix):-2]))
            k += 1
            out.write(json.dumps({"id": n0 + k, "set": name, "steps": steps}, separators=(",", ":")))
            out.write("\n")
    os.unlink(user_file)
    return k


def _run_set(name, consts, sim, wd, workers):
    """one emission set -> (list of files with TLC's PrintT output, seconds)"""
    from concurrent.futures import ThreadPoolExecutor
    cfg = _cfg(os.path.join(wd, "emit-%s.cfg" % name), consts, ["Emit"], False)
    t1 = time.time()
    if sim:
        num, depth, procs = sim

        def one(i):
            uf = os.path.join(wd, "emit-%s-%d.out" % (name, i))
            r = tlc("MC_Str", cfg, workers=1, timeout=2400, simulate=num, depth=depth, xmx="3g",
                    seed_=seed() * 64 + i, args=("-userFile", uf), metadir=os.path.join(wd, "md-%s-%d" % (name, i)))
            require_ok(r, "random walks %d" % i)
            return uf
        with ThreadPoolExecutor(max_workers=procs) as ex:
            ufs = list(ex.map(one, range(procs)))
    else:
        uf = os.path.join(wd, "emit-%s.out" % name)
        r = tlc("MC_Str", cfg, workers=workers, timeout=2400, xmx="10g", args=("-userFile", uf),
                metadir=os.path.join(wd, "md-" + name))
        require_ok(r, "behaviour emission " + name)
        ufs = [uf]
    return ufs, time.time() - t1


def emit(thorough, wd):
    """Runs TLC once per emission set (random walks: several seeded single-worker processes), the sets concurrently;
    writes wd/behaviours.ndjson; returns (path, {set: count}, seconds)."""
    from concurrent.futures import ThreadPoolExecutor
    path = os.path.join(wd, "behaviours.ndjson")
    counts = collections.OrderedDict()
    n = 0
    t0 = time.time()
    sets = _emission_sets(thorough)
    with ThreadPoolExecutor(max_workers=2 if thorough else len(sets)) as ex:
        futs = [(name, ex.submit(_run_set, name, consts, sim, wd, 5 if thorough else 3)) for name, consts, sim in sets]
        with open(path, "w") as out:
            for name, fut in futs:
                ufs, secs = fut.result()
                k = 0
                for uf in ufs:
                    k += _collect(uf, name, out, n + k)
                n += k
                if k == 0:
                    raise ToolError("behaviour emission %s produced nothing" % name)
                counts[name] = k
                log("emitted %-22s %8d behaviours (%.0fs)" % (name, k, secs))
    return path, counts, time.time() - t0


# ----------------------------------------------------------------------------------------------------------------
# 3./4. replay + observation check

def _canaries(obs_path):
    """Deliberately corrupted copies of real records, appended to the observation file: StrObs must reject each of
    them with the expected clause, otherwise the oracle is not bound to the observations (tool error)."""
    want = {"utf8": None, "out": None, "contents": None, "ret": None, "cstr": None, "cap": None}
    with open(obs_path) as f:
        for line in f:
            if all(v is not None for v in want.values()):
                break
            r = json.loads(line)
            o, name = r["o"], r["m"]["op"]["name"]
            if r["ty"] == "std" or o["out"] != "ok" or not r["pre"]["utf8"]:
                continue
            if want["utf8"] is None and len(o["bytes"]) >= 2 and o["bytes"][-1] >= 128:
                c = json.loads(line); c["o"]["bytes"] = o["bytes"][:-1]; c["o"]["len"] -= 1      # cut a character in two
                want["utf8"] = c
            elif want["out"] is None and name == "insert":
                c = json.loads(line); c["o"]["out"] = "panic"
                want["out"] = c
            elif want["contents"] is None and name == "push" and o["bytes"]:
                c = json.loads(line); c["o"]["bytes"] = [97] + o["bytes"]; c["o"]["chars"] = [97] + o["chars"]
                c["o"]["len"] += 1; c["o"]["cap"] += 1
                want["contents"] = c
            elif want["ret"] is None and name == "pop" and o["ret"]:
                c = json.loads(line); c["o"]["ret"] = [o["ret"][0] + 1]
                want["ret"] = c
            elif want["cstr"] is None and name == "alloc_cstr_from_str" and o["cok"]:
                c = json.loads(line); c["o"]["cbytes"] = o["cbytes"] + [0]                          # two terminators
                want["cstr"] = c
            elif want["cap"] is None and r["ty"] == "bstr" and o["len"] > 0 and name == "push":
                c = json.loads(line); c["o"]["cap"] = o["len"] - 1
                want["cap"] = c
    recs = []
    for clause, c in want.items():
        if c is not None:
            c["beh"] = -1
            c["canary"] = clause
            recs.append(c)
    return recs


class Crashed(Exception):
    """the harness process was killed by a signal while executing the code under test"""
    def __init__(self, where):
        self.where = where


def _last_beh_id(obs):
    """id of the behaviour of the last complete record of a (possibly truncated) observation file"""
    last = 0
    try:
        with open(obs, "rb") as f:
            f.seek(0, 2)
            size = f.tell()
            f.seek(max(0, size - 200000))
            for line in f.read().decode("utf-8", "replace").splitlines():
                m = re.match(r'\{"beh":(\d+),', line)
                if m and line.endswith("}"):
                    last = max(last, int(m.group(1)))
    except OSError:
        pass
    return last


def observe(bin_, beh_path, wd, thorough):
    obs = os.path.join(wd, "obs.ndjson")
    p = run([bin_, beh_path, obs, "all"], timeout=3000, check=False)
    if p.returncode > 0:
        raise ToolError("harness/strs failed (rc=%d): %s" % (p.returncode, p.stderr[-2000:]))
    if p.returncode < 0:
        # killed by a signal (abort / segfault inside the code under test): that is data.  Locate the step by
        # re-running from the last behaviour that was recorded, announcing every step on stderr.
        start = max(1, _last_beh_id(obs) - 50)
        q = run([bin_, beh_path, os.path.join(wd, "obs-trace.ndjson"), "all", str(start)], timeout=3000, check=False,
                env={"STRS_TRACE": "1"})
        at = [l for l in q.stderr.splitlines() if l.startswith("AT ")]
        where = at[-1].split() if at else ["AT", "0", "0", "?", "?"]
        raise Crashed({"signal": -p.returncode, "rerun_rc": q.returncode, "beh": int(where[1]), "step": int(where[2]),
                       "ty": where[3], "cfg": where[4]})
    nbeh, nsteps, nlines = (int(x) for x in p.stdout.split())
    escaped = [json.loads(l) for l in open(obs + ".escaped") if l.strip()]
    canaries = _canaries(obs)
    if len(canaries) < 4:
        raise ToolError("too few canary records could be built (%d): the observation file lacks basic operations" % len(canaries))
    with open(obs, "a") as f:
        for c in canaries:
            f.write(json.dumps(c, separators=(",", ":")) + "\n")
    return obs, nbeh, nsteps, nlines, canaries, escaped


def evaluate(obs, total_lines):
    """TLC evaluates StrObs over the records, in chunks of parallel batches.  Returns (fails, counters) with
    fails = [(global line number, [clauses])]."""
    chunk = 480000
    fails = []
    counters = collections.Counter()
    checked = 0
    start = 0
    wd = os.path.dirname(obs)
    while start < total_lines:
        end = min(start + chunk, total_lines)
        if start == 0 and end == total_lines:
            part_path = obs
        else:
            part_path = os.path.join(wd, "obs-chunk.ndjson")
            with open(obs) as f, open(part_path, "w") as g:
                for i, line in enumerate(f):
                    if i >= end:
                        break
                    if i >= start:
                        g.write(line)
        nparts = max(1, min(12, (end - start + 9999) // 10000))
        results, parts, d = tlc_obs("StrObs", "StrObs.cfg", part_path, nparts=nparts, timeout=2400, xmx="5g",
                                    extra_env={"_JAVA_OPTIONS": "-XX:ParallelGCThreads=2"})
        checked += tagged_int(results, "CHECKED")
        for pi, r in enumerate(results):
            for x in r.tagged("FAIL"):
                v = parse_tla_value("<<" + x + ">>")
                fails.append((start + parts[pi][1][v[0] - 1], sorted(v[1])))
            for x in r.tagged("COUNT"):
                v = parse_tla_value("<<" + x + ">>")
                counters["op:" + v[0]] += v[1]
            for x in r.tagged("OUT"):
                v = parse_tla_value("<<" + x + ">>")
                counters["out:" + v[0]] += v[1]
        shutil.rmtree(d, ignore_errors=True)
        start = end
    if checked != total_lines:
        raise ToolError("StrObs saw %d of %d records" % (checked, total_lines))
    return fails, counters


def _case(op, pre_len):
    r = op.get("r")
    if not isinstance(r, dict):
        return "-"
    lo = 0 if r["lo"] < 0 else r["lo"]
    hi = pre_len if r["hi"] < 0 else (r["hi"] + 1 if r["inc"] else r["hi"])
    return "empty-range" if lo == hi else "range"


def check_c09(tier):
    t0 = time.time()
    thorough = tier == "thorough"
    out = Outcome(PID)
    wd = workdir("%s-%d" % (PID, os.getpid()))
    try:
        return _check(tier, t0, thorough, out, wd)
    finally:
        if not os.environ.get("VERIF_KEEP"):
            shutil.rmtree(wd, ignore_errors=True)


def _check(tier, t0, thorough, out, wd):
    from concurrent.futures import ThreadPoolExecutor
    bins = cargo_build("strs", jobs=8)

    # model checking runs concurrently with behaviour emission / replay / observation checking
    pool = ThreadPoolExecutor(max_workers=1)
    if os.environ.get("VERIF_C09_SKIP_MC"):
        # self-test mode (mutants of /repo): the model-checking half does not depend on /repo; no evidence is written
        mc_future = pool.submit(lambda: None)
    else:
        mc_future = pool.submit(model_check, thorough, wd)
    try:
        return _conformance(tier, t0, thorough, out, wd, bins, mc_future)
    finally:
        pool.shutdown(wait=True)


def _conformance(tier, t0, thorough, out, wd, bins, mc_future):
    beh_path, sets, emit_s = emit(thorough, wd)
    try:
        obs, nbeh, nsteps, nlines, canaries, escaped = observe(bins["strs"], beh_path, wd, thorough)
    except Crashed as c:
        w = c.where
        b = {}
        with open(beh_path) as f:
            for line in f:
                if line.startswith('{"id":%d,' % w["beh"]):
                    b = json.loads(line)
        ops = [s_["op"] for s_ in b.get("steps", [])]
        name = ops[w["step"]]["name"] if w["step"] < len(ops) else "?"
        out.violation({"clause": "crash", "op": name, "ty": w["ty"], "exp": "-", "obs": "signal %d" % w["signal"], "case": "-"},
                      {"check": PID, "what": "the process executing the string operations was killed by a signal",
                       "where": w, "behaviour": ops[: w["step"] + 1], "emission_set": b.get("set")})
        mc = mc_future.result()
        rc = out.finish()
        if mc is not None:
            write_evidence(PID, tier, "model_checking", {
                "states": max(mc.distinct, 1), "transitions": max(mc.generated, 1), "traces_validated_against_impl": 0,
                "samples": [{"crashed_at": w, "ops": ops[: w["step"] + 1]}], "behaviour_sets": sets,
                "explanation": "the harness process was killed by a signal while executing the code under test; "
                               "reported as a violation, no observation could be evaluated",
            }, time.time() - t0, violations=len(out.violations))
        return rc
    log("replayed %d behaviours: %d steps executed, %d distinct records" % (nbeh, nsteps, nlines))
    total = nlines + len(canaries)
    t1 = time.time()
    fails, counters = evaluate(obs, total)
    log("StrObs: %d records evaluated in %.0fs, %d flagged" % (total, time.time() - t1, len(fails)))

    recs = nth_lines(obs, [g for g, _ in fails][:5000])
    flagged = dict(fails)
    # canaries must be rejected with the clause they were built for
    for g in range(nlines + 1, total + 1):
        c = nth_lines(obs, [g])[g]
        if c["canary"] not in flagged.get(g, []):
            raise ToolError("StrObs accepted a corrupted record (canary %s): %s" % (c["canary"], json.dumps(c)[:600]))
    for e in escaped:
        out.violation({"clause": "escaped-panic", "op": "constructor", "ty": "?", "exp": "-", "obs": "panic", "case": "-"},
                      {"check": PID, "what": "a panic escaped from a constructor of the code under test", "record": e})
    behaviours = {}
    drift = collections.Counter()
    skipped = 0
    tool = []
    spec_bug = []
    viol = []
    for g, clauses in fails:
        if g > nlines:
            continue
        rec = recs.get(g)
        if rec is None:
            continue
        if any(c in TOOLING for c in clauses):
            tool.append((clauses, rec))
            continue
        if "skipped" in clauses:
            skipped += 1
        contract = [c for c in CONTRACT if c in clauses]
        if rec["ty"] == "std" and (contract or any(c in DRIFT for c in clauses)):
            spec_bug.append((clauses, rec))
            continue
        if contract:
            viol.append((contract, clauses, rec))
        else:
            for c in clauses:
                if c in DRIFT:
                    drift[c] += 1
    if tool:
        raise ToolError("the tooling disagrees with itself on %d records, e.g. %s %s"
                        % (len(tool), tool[0][0], json.dumps(tool[0][1])[:1500]))
    if spec_bug:
        raise ToolError("SPECIFICATION BUG: std::string::String disagrees with Str.tla on %d records, e.g. %s %s"
                        % (len(spec_bug), spec_bug[0][0], json.dumps(spec_bug[0][1])[:1500]))
    if viol:
        want = set(rec["beh"] for _, _, rec in viol)
        with open(beh_path) as f:
            for line in f:
                b = json.loads(line)
                if b["id"] in want:
                    behaviours[b["id"]] = b
    for contract, clauses, rec in viol:
        op = rec["m"]["op"]
        sig = {"clause": contract[0], "op": op["name"], "ty": rec["ty"], "exp": rec["m"]["exp"]["out"],
               "obs": rec["o"]["out"], "case": _case(op, rec["pre"]["len"])}
        b = behaviours.get(rec["beh"], {})
        out.violation(sig, {
            "check": PID, "clauses": clauses, "type": rec["ty"], "bump_config": rec["cfg"], "step": rec["k"],
            "behaviour": [s["op"] for s in b.get("steps", [])][: rec["k"] + 1], "emission_set": b.get("set"),
            "record": rec,
            "how": "harness/strs replays the behaviour (operations 0..step) on the given string type; `record.pre` is the "
                   "observed string before the failing step, `record.o` the observation after it; StrObs.tla recomputes "
                   "the expected result from record.pre and record.m.op",
        })
    if drift:
        log("MODEL-DRIFT C09: %s records differ from the implementation-shaped model but satisfy the contract" % dict(drift))
    mc = mc_future.result()
    rc = out.finish()
    if mc is None:
        log("VERIF_C09_SKIP_MC set: model checking skipped, evidence file not written")
        return rc
    log("MC_Str: %d distinct states, %d transitions, %.0fs" % (mc.distinct, mc.generated, mc.wall))

    samples = []
    with open(beh_path) as f:
        for i, line in enumerate(f):
            if i in (0, nbeh // 3, nbeh // 2, nbeh - 1):
                b = json.loads(line)
                samples.append({"set": b["set"], "ops": [s["op"] for s in b["steps"]],
                                "expected": [{"out": s["exp"]["out"], "chars": s["exp"]["chars"]} for s in b["steps"]]})
    ops = {k[3:]: v for k, v in counters.items() if k.startswith("op:")}
    write_evidence(PID, tier, "model_checking", {
        "states": max(mc.distinct, 1), "transitions": max(mc.generated, 1),
        "traces_validated_against_impl": nbeh,
        "samples": samples,
        "exhaustive": False,
        "mc_bounds": "alphabet {a, NUL, U+E9, U+20AC, U+1F600}, <= %d characters, <= %d steps; byte-level refinement: <= 3 characters"
                     % ((4, 5) if thorough else (3, 3)),
        "mc_actions_taken": {a: mc.coverage[a][1] for a in _actions() if a in mc.coverage},
        "byte_level_refinement_strings_checked": getattr(mc, "refinement_checked", 0),
        "behaviour_sets": sets,
        "steps_executed": nsteps,
        "distinct_records_checked_by_tlc": nlines,
        "records_per_operation": ops,
        "records_per_outcome": {k[4:]: v for k, v in counters.items() if k.startswith("out:")},
        "string_types": ["BumpBox<str>", "FixedBumpString", "BumpString", "MutBumpString", "std::string::String"],
        "bump_configs": ["UP/1", "DOWN/1", "UP/8", "DOWN/8"],
        "canaries_rejected": len(canaries),
        "model_drift_records": sum(drift.values()),
        "records_skipped_after_invalid_utf8": skipped,
        "contract_violations": len(viol),
        "explanation": "TLC model-checks Str.tla (step properties asserted on every transition, no dead action); TLC emits "
                       "behaviours (exhaustive one-operation behaviours from every short string, every decoding/formatting "
                       "constructor instance, exhaustive two-operation paths over a small alphabet in the thorough tier, seeded "
                       "random walks); harness/strs executes them on the four bump string types in four bump configurations and "
                       "on std String; TLC (StrObs.tla) recomputes the expected result of every distinct recorded step from the "
                       "observed pre-state and evaluates the contract clauses utf8/out/contents/ret/cstr/cap.",
    }, time.time() - t0, violations=len(out.violations), assumptions=[
        "strings are drawn from a 5-character alphabet covering every UTF-8 width and NUL (plus U+FFFD from lossy decoding); "
        "lengths <= 4 characters; argument texts from a fixed small set",
        "malformed UTF-8 / UTF-16 inputs are limited to segment classes with an unambiguous replacement count "
        "(valid char, stray continuation, invalid lead byte, truncated sequence; BMP unit, lone high / low surrogate)",
        "std::string::String is replayed too; any disagreement between std and Str.tla aborts the check as a specification bug",
        "a record identical (type, operation, observed pre-state, observation) to an earlier one is executed but evaluated once",
        "allocation failure is out of scope (C07); capacity of growable strings is only required to be >= len",
    ])
    return rc
