"""C04: turns behaviours of spec/Lifetimes.tla (lists of statements) into safe Rust functions and collects the
compiler's verdict for each function.  No oracle here: hazard classification and the contract live in TLA+
(Lifetimes.tla / LifetimesObs.tla); this file only renders text and attributes rustc diagnostics to functions."""
import json, os, re, bisect

T = "bump_scope::traits::"

# ------------------------------------------------------------------------------------------------------------
# producer families (same keys as AllFams in spec/Lifetimes.tla; check_c04 refuses to run if the key sets differ)
#   method families: (trait, method + turbofish, args, post)
#   p1: {R}.method(args)post            inherent method, receiver explicitly dereferenced, no trait in scope
#   p2: <trait>::method({V}, args)post  Self = type of the handle variable
#   p3: {{ use traits::*; {M}.method(args)post }}
# ------------------------------------------------------------------------------------------------------------
TS, MTS = "BumpAllocatorTypedScope", "MutBumpAllocatorTypedScope"
FMT = 'format_args!("{}", 1)'
METHOD_FAMS = {
    "alloc": (TS, "alloc", "1u32", ""),
    "try_alloc": (TS, "try_alloc", "1u32", ".unwrap()"),
    "alloc_with": (TS, "alloc_with", "|| 1u32", ""),
    "try_alloc_with": (TS, "try_alloc_with", "|| 1u32", ".unwrap()"),
    "alloc_default": (TS, "alloc_default::<u32>", "", ""),
    "try_alloc_default": (TS, "try_alloc_default::<u32>", "", ".unwrap()"),
    "alloc_slice_move": (TS, "alloc_slice_move", "[1u8, 2]", ""),
    "try_alloc_slice_move": (TS, "try_alloc_slice_move", "[1u8, 2]", ".unwrap()"),
    "alloc_slice_copy": (TS, "alloc_slice_copy", "&[1u8, 2]", ""),
    "try_alloc_slice_copy": (TS, "try_alloc_slice_copy", "&[1u8, 2]", ".unwrap()"),
    "alloc_slice_clone": (TS, "alloc_slice_clone", "&[1u8, 2]", ""),
    "try_alloc_slice_clone": (TS, "try_alloc_slice_clone", "&[1u8, 2]", ".unwrap()"),
    "alloc_slice_fill": (TS, "alloc_slice_fill", "2, 1u8", ""),
    "try_alloc_slice_fill": (TS, "try_alloc_slice_fill", "2, 1u8", ".unwrap()"),
    "alloc_slice_fill_with": (TS, "alloc_slice_fill_with", "2, || 1u8", ""),
    "try_alloc_slice_fill_with": (TS, "try_alloc_slice_fill_with", "2, || 1u8", ".unwrap()"),
    "alloc_str": (TS, "alloc_str", '"x"', ""),
    "try_alloc_str": (TS, "try_alloc_str", '"x"', ".unwrap()"),
    "alloc_fmt": (TS, "alloc_fmt", FMT, ""),
    "try_alloc_fmt": (TS, "try_alloc_fmt", FMT, ".unwrap()"),
    "alloc_iter": (TS, "alloc_iter", "[1u8, 2]", ""),
    "try_alloc_iter": (TS, "try_alloc_iter", "[1u8, 2]", ".unwrap()"),
    "alloc_iter_exact": (TS, "alloc_iter_exact", "[1u8, 2]", ""),
    "try_alloc_iter_exact": (TS, "try_alloc_iter_exact", "[1u8, 2]", ".unwrap()"),
    "alloc_uninit": (TS, "alloc_uninit::<u32>", "", ""),
    "try_alloc_uninit": (TS, "try_alloc_uninit::<u32>", "", ".unwrap()"),
    "alloc_uninit_slice": (TS, "alloc_uninit_slice::<u32>", "2", ""),
    "try_alloc_uninit_slice": (TS, "try_alloc_uninit_slice::<u32>", "2", ".unwrap()"),
    "alloc_uninit_slice_for": (TS, "alloc_uninit_slice_for", "&[1u32, 2]", ""),
    "try_alloc_uninit_slice_for": (TS, "try_alloc_uninit_slice_for", "&[1u32, 2]", ".unwrap()"),
    "alloc_cstr": (TS, "alloc_cstr", 'c"x"', ""),
    "try_alloc_cstr": (TS, "try_alloc_cstr", 'c"x"', ".unwrap()"),
    "alloc_cstr_from_str": (TS, "alloc_cstr_from_str", '"x"', ""),
    "try_alloc_cstr_from_str": (TS, "try_alloc_cstr_from_str", '"x"', ".unwrap()"),
    "alloc_cstr_fmt": (TS, "alloc_cstr_fmt", FMT, ""),
    "try_alloc_cstr_fmt": (TS, "try_alloc_cstr_fmt", FMT, ".unwrap()"),
    "alloc_into_ref": (TS, "alloc", "1u32", ".into_ref()"),
    "alloc_into_mut": (TS, "alloc", "1u32", ".into_mut()"),
    "alloc_leak": (TS, "alloc", "1u32", "@leak"),
    "alloc_str_into_mut": (TS, "alloc_str", '"x"', ".into_mut()"),
    "alloc_into_boxed_slice": (TS, "alloc", "1u32", ".into_boxed_slice()"),
    "alloc_uninit_init": (TS, "alloc_uninit::<u32>", "", ".init(1)"),
    "alloc_slice_split": (TS, "alloc_slice_copy", "&[1u8, 2, 3]", ".split_off(1..)"),
    "alloc_iter_into_iter": (TS, "alloc_iter", "[1u8, 2]", ".into_iter()"),
    "alloc_fmt_mut": (MTS, "alloc_fmt_mut", FMT, ""),
    "try_alloc_fmt_mut": (MTS, "try_alloc_fmt_mut", FMT, ".unwrap()"),
    "alloc_iter_mut": (MTS, "alloc_iter_mut", "[1u8, 2]", ""),
    "try_alloc_iter_mut": (MTS, "try_alloc_iter_mut", "[1u8, 2]", ".unwrap()"),
    "alloc_iter_mut_rev": (MTS, "alloc_iter_mut_rev", "[1u8, 2]", ""),
    "try_alloc_iter_mut_rev": (MTS, "try_alloc_iter_mut_rev", "[1u8, 2]", ".unwrap()"),
    "alloc_cstr_fmt_mut": (MTS, "alloc_cstr_fmt_mut", FMT, ""),
    "try_alloc_cstr_fmt_mut": (MTS, "try_alloc_cstr_fmt_mut", FMT, ".unwrap()"),
    "alloc_try_with": (None, "alloc_try_with", "|| Ok::<u32, ()>(1)", ".unwrap()"),
    "try_alloc_try_with": (None, "try_alloc_try_with", "|| Ok::<u32, ()>(1)", ".unwrap().unwrap()"),
    "alloc_try_with_mut": (None, "alloc_try_with_mut", "|| Ok::<u32, ()>(1)", ".unwrap()"),
    "try_alloc_try_with_mut": (None, "try_alloc_try_with_mut", "|| Ok::<u32, ()>(1)", ".unwrap().unwrap()"),
    "stats": ("BumpAllocatorScope", "stats", "", ""),
    "allocator": ("BumpAllocatorScope", "allocator", "", ""),
    "stats_chunk": ("BumpAllocatorScope", "stats", "", ".current_chunk()"),
    "stats_iter": ("BumpAllocatorScope", "stats", "", ".small_to_big()"),
    "any_stats": ("BumpAllocatorCore", "any_stats", "", "@core"),
    "typed_stats": ("BumpAllocatorTyped", "typed_stats", "", "@core"),
}
MUT_FAMS = {"alloc_fmt_mut", "try_alloc_fmt_mut", "alloc_iter_mut", "try_alloc_iter_mut", "alloc_iter_mut_rev",
            "try_alloc_iter_mut_rev", "alloc_cstr_fmt_mut", "try_alloc_cstr_fmt_mut", "alloc_try_with_mut",
            "try_alloc_try_with_mut"}
B = "bump_scope::"
V12 = "[1u8, 2]"
# collection families: expression with {A} = allocator argument
COLL_FAMS = {
    "vec_into_slice": B + "BumpVec::from_iter_in(" + V12 + ", {A}).into_slice()",
    "vec_into_boxed_slice": B + "BumpVec::from_iter_in(" + V12 + ", {A}).into_boxed_slice()",
    "vec_into_fixed_vec": B + "BumpVec::from_iter_in(" + V12 + ", {A}).into_fixed_vec()",
    "vec_macro_into_slice": B + "bump_vec![in {A}; 1u8, 2].into_slice()",
    "vec_into_parts": B + "BumpVec::from_iter_in(" + V12 + ", {A}).into_parts().0",
    "vec_into_flattened_slice": B + "BumpVec::from_iter_in([[1u8, 2]], {A}).into_flattened().into_slice()",
    "vec_map_into_slice": B + "BumpVec::from_iter_in(" + V12 + ", {A}).map(|x| x as u16).into_slice()",
    "string_into_str": B + 'BumpString::from_str_in("x", {A}).into_str()',
    "string_into_boxed_str": B + 'BumpString::from_str_in("x", {A}).into_boxed_str()',
    "string_into_fixed_string": B + 'BumpString::from_str_in("x", {A}).into_fixed_string()',
    "string_into_cstr": B + 'BumpString::from_str_in("x", {A}).into_cstr()',
    "format_into_str": B + 'bump_format!(in {A}, "{{}}", 1).into_str()',
    "fixedvec_new": B + "FixedBumpVec::<u8>::with_capacity_in(2, {A})",
    "fixedvec_into_slice": B + "FixedBumpVec::from_iter_in(" + V12 + ", {A}).into_slice()",
    "fixedvec_from_iter": B + "FixedBumpVec::from_iter_in(" + V12 + ", {A})",
    "fixedstring_new": B + "FixedBumpString::with_capacity_in(2, {A})",
    "fixedstring_into_str": "{{ let mut fs = " + B + "FixedBumpString::with_capacity_in(2, {A}); fs.push('x'); fs.into_str() }}",
    "wd_vec_into_slice": B + "BumpVec::from_iter_in(" + V12 + ", " + B + "WithoutDealloc({A})).into_slice()",
    "ws_vec_into_boxed_slice": B + "BumpVec::from_iter_in(" + V12 + ", " + B + "WithoutShrink({A})).into_boxed_slice()",
    "vec_keep": B + "BumpVec::from_iter_in(" + V12 + ", {A})",
    "vec_macro_keep": B + "bump_vec![in {A}; 1u8, 2]",
    "string_keep": B + 'BumpString::from_str_in("x", {A})',
    "format_keep": B + 'bump_format!(in {A}, "{{}}", 1)',
    "wd_vec_keep": B + "BumpVec::from_iter_in(" + V12 + ", " + B + "WithoutDealloc({A}))",
    "mutvec_into_slice": B + "MutBumpVec::from_iter_in(" + V12 + ", {A}).into_slice()",
    "mutvec_into_boxed_slice": B + "MutBumpVec::from_iter_in(" + V12 + ", {A}).into_boxed_slice()",
    "mutvecrev_into_slice": B + "MutBumpVecRev::from_iter_in(" + V12 + ", {A}).into_slice()",
    "mutvecrev_into_boxed_slice": B + "MutBumpVecRev::from_iter_in(" + V12 + ", {A}).into_boxed_slice()",
    "mutstring_into_str": B + 'MutBumpString::from_str_in("x", {A}).into_str()',
    "mutstring_into_boxed_str": B + 'MutBumpString::from_str_in("x", {A}).into_boxed_str()',
    "mutstring_into_cstr": B + 'MutBumpString::from_str_in("x", {A}).into_cstr()',
    "mutformat_into_str": B + 'mut_bump_format!(in {A}, "{{}}", 1).into_str()',
    "mutvec_macro_into_slice": B + "mut_bump_vec![in {A}; 1u8, 2].into_slice()",
    "mutvec_keep": B + "MutBumpVec::from_iter_in(" + V12 + ", {A})",
    "mutvecrev_keep": B + "MutBumpVecRev::from_iter_in(" + V12 + ", {A})",
    "mutstring_keep": B + 'MutBumpString::from_str_in("x", {A})',
}
COLL_MUT = {k for k in COLL_FAMS if k.startswith("mut")}
ALL_FAMS = set(METHOD_FAMS) | set(COLL_FAMS)

OWNED = {"bump", "sval"}                  # variables that hold the allocator by value
CREATES = {"RefShr": "ref", "RefMut": "refmut", "AsScope": "sref", "AsMutScope": "smut", "Guard": "guard",
           "GScope": "smut", "Claim": "claim", "ByValue": "sval", "PoolGet": "pguard"}


class Line:
    def __init__(self, text):
        self.text = text


class Block:
    def __init__(self, header, footer, parent, kind):
        self.header, self.footer, self.parent, self.kind = header, footer, parent, kind
        self.items = []
        self.tail = None

    def path(self):
        p, b = [], self
        while b is not None:
            p.append(b)
            b = b.parent
        return p[::-1]


def producer_expr(fam, path, h, kind):
    e = "e%d" % h
    owned = kind in OWNED
    D = ("&" + e) if owned else ("&*" + e)
    DM = ("&mut " + e) if owned else ("&mut *" + e)
    Vv, VM = "&" + e, "&mut " + e
    R = e if owned else "(*%s)" % e
    if fam in COLL_FAMS:
        mut = fam in COLL_MUT
        a = (DM if mut else D) if path == "p1" else (VM if mut else Vv)
        return COLL_FAMS[fam].format(A=a)
    trait, meth, args, post = METHOD_FAMS[fam]
    mut = fam in MUT_FAMS
    if post == "@core":         # trait-only methods: p1 = on the Bump / BumpScope itself, p2 = on the variable
        arg = D if path == "p1" else Vv
        return "%s%s::%s(%s)" % (T, trait, meth, arg)
    wrap = None
    if post == "@leak":
        wrap, post = B + "BumpBox::leak(%s)", ""
    if path == "p1":
        x = "%s.%s(%s)%s" % (R, meth, args, post)
    elif path == "p2":
        recv = VM if mut else Vv
        x = "%s%s::%s(%s)%s" % (T, trait, meth, recv + (", " + args if args else ""), post)
    else:
        x = "{ use %s*; %s.%s(%s)%s }" % (T, e, meth, args, post)
        if wrap:
            return "{ use %s*; %s }" % (T, wrap % ("%s.%s(%s)" % (e, meth, args)))
    return wrap % x if wrap else x


def settings_ty(s, mcs):
    return "bump_scope::settings::BumpSettings<%d, %s, %s, %s, true, true, %d>" % (
        s["ma"], str(s["up"]).lower(), str(s["ga"]).lower(), str(s["cl"]).lower(), mcs)


def settings_of(change):
    base = {"ma": 2, "up": True, "ga": True, "cl": True}
    d = lambda **kw: dict(base, **kw)
    return {"identity": (base, base), "ma_up": (base, d(ma=4)), "ma_down": (base, d(ma=1)),
            "up_to_false": (base, d(up=False)), "up_to_true": (d(up=False), base),
            "ga_up": (d(ga=False), base), "ga_down": (base, d(ga=False)),
            "cl_up": (d(cl=False), base), "cl_down": (base, d(cl=False))}[change]


def render_settings(pid, stmt):
    """settings conversion program; the pair of settings types is made unique by MINIMUM_CHUNK_SIZE = 512 + 16 * pid,
    because the const-assertion error (E0080) names the instantiation, not the calling function."""
    mcs = 512 + 16 * pid
    owner = "Bump" if stmt["h"] == 1 else "BumpScope"
    s, t = settings_of(stmt["b"])
    S, Tt = settings_ty(s, mcs), settings_ty(t, mcs)
    G = "bump_scope::alloc::Global"
    m = stmt["a"]
    lines = ["pub fn p%d() {" % pid, "    let mut e1: bump_scope::Bump<%s, %s> = bump_scope::Bump::new();" % (G, S)]
    if owner == "Bump":
        if m == "with":
            lines.append("    let b: bump_scope::Bump<%s, %s> = e1.with_settings();" % (G, Tt))
        elif m == "borrow":
            lines.append("    let b: &bump_scope::Bump<%s, %s> = e1.borrow_with_settings();" % (G, Tt))
        else:
            lines.append("    let b: &mut bump_scope::Bump<%s, %s> = e1.borrow_mut_with_settings();" % (G, Tt))
        lines.append("    touch(&b);")
    else:
        lines.append("    e1.scoped(|e3| {")
        if m == "with":
            lines.append("        let b: bump_scope::BumpScope<%s, %s> = e3.by_value().with_settings();" % (G, Tt))
        elif m == "borrow":
            lines.append("        let b: &bump_scope::BumpScope<%s, %s> = e3.borrow_with_settings();" % (G, Tt))
        else:
            lines.append("        let b: &mut bump_scope::BumpScope<%s, %s> = e3.borrow_mut_with_settings();" % (G, Tt))
        lines.append("        touch(&b);")
        lines.append("    });")
    lines.append("}")
    return "\n".join(lines)


def render(pid, root, prog):
    """One behaviour -> one Rust function `pub fn p<pid>()`."""
    if root == "settings":
        return render_settings(pid, prog[0])
    fn = Block("pub fn p%d() {" % pid, "}", None, "fn")
    static = any(s["op"] == "Spawn" and s["a"] == "static_move" for s in prog)
    if root == "bump":
        fn.items.append(Line("let mut e1: bump_scope::Bump = bump_scope::Bump::new();"))
        kinds = {1: "bump"}
    elif root == "pool":
        fn.items.append(Line("let mut e1: bump_scope::BumpPool = bump_scope::BumpPool::new();"))
        kinds = {1: "pool"}
    elif root == "unsend":
        if static:
            fn.items.append(Line("let base: &'static bump_scope::Bump = Box::leak(Box::new(bump_scope::Bump::new()));"))
            fn.items.append(Line("let mut e1: bump_scope::Bump<&'static bump_scope::Bump> = bump_scope::Bump::new_in(base);"))
        else:
            fn.items.append(Line("let base: bump_scope::Bump = bump_scope::Bump::new();"))
            fn.items.append(Line("let mut e1: bump_scope::Bump<&bump_scope::Bump> = bump_scope::Bump::new_in(&base);"))
        kinds = {1: "bump"}
    elif root == "unsendpool":
        fn.items.append(Line("let base: bump_scope::Bump = bump_scope::Bump::new();"))
        fn.items.append(Line("let mut e1: bump_scope::BumpPool<&bump_scope::Bump> = bump_scope::BumpPool::new_in(&base);"))
        kinds = {1: "pool"}
    else:
        raise ValueError(root)
    cur = fn
    n = 1                       # number of entities so far (same numbering as Lifetimes.tla)
    val = None                  # dict(line, block(prod), home)
    for s in prog:
        op, h = s["op"], s["h"]
        if op in CREATES:
            n += 1
            kinds[n] = CREATES[op]
            e, x = "e%d" % n, "e%d" % h
            if op == "Guard" and s["a"] == "block":
                b = Block("{", "}", cur, "block")
                cur.items.append(b)
                cur = b
            if op in ("AsScope", "AsMutScope") and s["a"] == "from":
                cur.items.append(Line("let mut %s: %s = (%s).into();" % (
                    e, "&bump_scope::BumpScope" if op == "AsScope" else "&mut bump_scope::BumpScope",
                    ("&" if op == "AsScope" else "&mut ") + x)))
                continue
            rhs = {"RefShr": "&" + x, "RefMut": "&mut " + x, "AsScope": x + ".as_scope()",
                   "AsMutScope": x + ".as_mut_scope()", "Guard": x + ".scope_guard()", "GScope": x + ".scope()",
                   "Claim": x + ".claim()", "ByValue": x + ".by_value()", "PoolGet": x + ".get()"}[op]
            cur.items.append(Line("let mut %s = %s;" % (e, rhs)))
        elif op in ("Scoped", "Aligned"):
            n += 2
            kinds[n - 1], kinds[n] = "closure", "smut"
            call = {"scoped": "scoped", "scoped_aligned": "scoped_aligned::<8, _>", "scoped_trait": "scoped", "": "aligned::<8, _>"}[s["a"] if op == "Scoped" else ""]
            if op == "Scoped" and s["a"] == "scoped_trait":
                recv = ("&mut e%d" if kinds[h] in OWNED else "&mut *e%d") % h
                b = Block("%sBumpAllocator::scoped(%s, |mut e%d| {" % (T, recv, n), "});", cur, "closure")
            else:
                b = Block("e%d.%s(|mut e%d| {" % (h, call, n), "});", cur, "closure")
            cur.items.append(b)
            cur = b
        elif op == "Produce":
            n += 1
            kinds[n] = "value"
            ln = Line(None)
            cur.items.append(ln)
            val = {"line": ln, "expr": producer_expr(s["a"], s["b"], h, kinds[h]), "prod": cur, "home": cur,
                   "hoisted": False}
        elif op in ("Reset", "PoolReset"):
            if s["a"] == "replace":
                cur.items.append(Line("%se%d = bump_scope::Bump::new();" % ("" if kinds[h] == "bump" else "*", h)))
            elif s["a"] == "bumps_clear":
                cur.items.append(Line("e%d.bumps().clear();" % h))
            else:
                cur.items.append(Line("e%d.%s();" % (h, s["a"])))
        elif op == "GReset":
            cur.items.append(Line("e%d.reset();" % h))
        elif op == "Drop":
            cur.items.append(Line("drop(e%d);" % h))
        elif op == "Spawn":
            a = s["a"]
            if a == "scoped_move":
                cur.items.append(Line("std::thread::scope(|t| { t.spawn(move || { drop(e1); }); });"))
            elif a == "static_move":
                cur.items.append(Line("std::thread::spawn(move || { drop(e1); });"))
            elif a == "scoped_refmut":
                cur.items.append(Line("let r = &mut e1;"))
                cur.items.append(Line("std::thread::scope(|t| { t.spawn(move || { r.reset(); }); });"))
            elif a == "scoped_share":
                cur.items.append(Line("std::thread::scope(|t| { t.spawn(|| { let g = e1.get(); touch(&g); }); });"))
            else:
                raise ValueError(a)
        elif op == "ExitClosure":
            assert cur.kind == "closure", "ExitClosure outside closure"
            if s["a"] == "ret":
                assert val and val["home"] is cur
                cur.tail = "v"
                cur.header = "let v = " + cur.header
                val["home"] = cur.parent
            elif val and val["home"] is cur:
                val["home"] = None
            cur = cur.parent
        elif op == "CloseBlock":
            assert cur.kind == "block"
            if val and val["home"] is cur:
                val["home"] = None
            cur = cur.parent
        elif op == "Use":
            if val["home"] is None:
                # the block the value lived in is closed: the value must have been stored in an outer variable.
                # declare `let mut v = None;` in the innermost block that contains both the producer and this use
                pp, up = val["prod"].path(), cur.path()
                k = 0
                while k < len(pp) and k < len(up) and pp[k] is up[k]:
                    k += 1
                lca = pp[k - 1]
                child = pp[k]              # item of lca that contains the producer
                lca.items.insert(lca.items.index(child), Line("let mut v = None;"))
                val["hoisted"] = True
            cur.items.append(Line("touch(&v);"))
            cur.items.append(Line("drop(v);"))
        elif op == "End":
            assert cur is fn, "End inside a block"
        else:
            raise ValueError(op)
    if val:
        val["line"].text = ("v = Some(%s);" if val["hoisted"] else "let v = %s;") % val["expr"]
    out = []

    def emit(b, ind):
        out.append("    " * ind + b.header)
        for it in b.items:
            if isinstance(it, Line):
                out.append("    " * (ind + 1) + it.text)
            else:
                emit(it, ind + 1)
        if b.tail:
            out.append("    " * (ind + 1) + b.tail)
        out.append("    " * ind + b.footer)
    emit(fn, 0)
    return "\n".join(out)


PRELUDE = """// generated by /verif/lib/lifetimes_gen.py from behaviours of /verif/spec/Lifetimes.tla -- do not edit
#![forbid(unsafe_code)]
#![allow(unused, clippy::all)]
fn touch<T: ?Sized>(_: &T) {}
"""


def write_batch(path, programs):
    """programs: list of (pid, root, prog).  Returns sorted list of (first_line, last_line, pid) (1-based)."""
    lines = PRELUDE.rstrip("\n").split("\n")
    spans = []
    for pid, root, prog in programs:
        src = render(pid, root, prog).split("\n")
        spans.append((len(lines) + 1, len(lines) + len(src), pid))
        lines += src
    with open(path, "w") as f:
        f.write("\n".join(lines) + "\n")
    return spans


def parse_prog_lines(tlc_out):
    recs = []
    pat = re.compile(r'^<<"PROG", "(.*)">>$')
    for l in tlc_out.splitlines():
        if l.startswith('<<"PROG"'):
            m = pat.match(l.strip())
            recs.append(json.loads(m.group(1).encode("utf-8").decode("unicode_escape")))
    return recs


def attribute(messages, file_suffix, spans):
    """cargo JSON messages -> {pid: [(code, message)]} for error diagnostics whose primary span lies in file_suffix.
    Errors without a span in that file are returned under key None."""
    starts = [s[0] for s in spans]
    res = {}
    for d in messages:
        if d.get("level") != "error":
            continue
        code = (d.get("code") or {}).get("code")
        msg = d.get("message", "")
        if msg.startswith("aborting due to") or msg.startswith("could not compile"):
            continue
        sp = [x for x in d.get("spans", []) if x["file_name"].endswith(file_suffix)]
        prim = [x for x in sp if x.get("is_primary")] or sp
        pid = None
        if prim:
            ln = prim[0]["line_start"]
            i = bisect.bisect_right(starts, ln) - 1
            if i >= 0 and spans[i][0] <= ln <= spans[i][1]:
                pid = spans[i][2]
        res.setdefault(pid, []).append((code, msg, d.get("rendered", "")))
    return res
