"""Arena family (C01 C02 C03 C05 C07 C10 C12-arena C13 C14 C15 C16-memory C17 C18):
   1. TLC model-checks spec/Arena.tla (MC_Arena) against the contract invariants,
   2. TLC emits behaviours (random walks, RandomElement-driven; exhaustive short paths),
   3. harness/replay executes them on the real allocator and records every step,
   4. TLC (ArenaObs.tla) evaluates the contract clauses of every property on every recorded step.
A check for property X reports the records in BAD_X; all checks share this pipeline."""
import os, time, json, subprocess, shutil, hashlib
from vlib import *

FOCUSED = ("prep", "claim", "aligned", "realloc", "fail", "scope")
# the focused action mix that raises the density of the situations a property is about (in addition to the general mix)
FOCUS_OF = {"C15": "prep", "C14": "claim", "C18": "aligned", "C13": "realloc", "C02": "realloc", "C16": "realloc", "C07": "fail",
            "C03": "scope", "C05": "scope"}
ARENA_PROPS = ["C01", "C02", "C03", "C05", "C07", "C10", "C12", "C13", "C14", "C15", "C16", "C18"]


def extract_behaviours(tlc_out, path, start_id=1):
    n = 0
    with open(path, "w") as out:
        for line in tlc_out.splitlines():
            if line.startswith('<<"REPLAY", '):
                s = line.strip()[len('<<"REPLAY", '):-2]
                obj = json.loads(json.loads(s))
                obj["id"] = start_id + n
                n += 1
                out.write(json.dumps(obj, separators=(",", ":")) + "\n")
    return n


def simulate(cfg, num, depth, out_path, workers=4, timeout=900, start_id=1, seed_=None, focus="general"):
    if focus not in ("general", "c17", "c12"):
        # a focused action mix: same configuration file with the Focus constant replaced
        txt = open(os.path.join(SPEC, cfg)).read().replace('Focus = "general"', 'Focus = "%s"' % focus)
        gen = ".gen_%s_%s_%d.cfg" % (cfg.replace(".cfg", ""), focus, os.getpid())
        with open(os.path.join(SPEC, gen), "w") as f:
            f.write(txt)
        try:
            return simulate(gen, num, depth, out_path, workers, timeout, start_id, seed_, "general")
        finally:
            os.unlink(os.path.join(SPEC, gen))
    r = tlc("MC_Arena", cfg, workers=workers, timeout=timeout, simulate=num, depth=depth, xmx="4g",
            seed_=seed_ if seed_ is not None else seed())
    if r.error:
        raise ToolError("simulation %s failed: %s\n%s" % (cfg, r.error, r.out[-3000:]))
    n = extract_behaviours(r.out, out_path, start_id)
    if n == 0:
        raise ToolError("simulation %s produced no behaviours\n%s" % (cfg, r.out[-2000:]))
    return n, r


def replay(bin_path, beh_path, obs_path, variants="trait", timeout=1200):
    """Runs the replayer; if the code under test kills the process, records the crash and resumes after the
    behaviour that crashed.  Returns (stats, crashes) where crashes = [(behaviour id, last recorded line)]."""
    crashes = []
    frm = 0
    parts = []
    total = {"behaviours": 0, "lines": 0, "skipped": 0}
    k = 0
    while True:
        part = "%s.part%d" % (obs_path, k)
        k += 1
        cmd = [bin_path, beh_path, part, variants, "--from", str(frm)]
        p = subprocess.run(cmd, stdout=subprocess.PIPE, stderr=subprocess.PIPE, text=True, timeout=timeout)
        parts.append(part)
        if p.returncode == 0:
            st = json.loads(p.stdout.strip().splitlines()[-1])
            for key in total:
                total[key] += st[key]
            if os.path.exists(part + ".stats"):
                os.unlink(part + ".stats")
            break
        sp = part + ".stats"
        if os.path.exists(sp):
            st = json.loads(open(sp).read())
            for key in total:
                total[key] += st[key]
            os.unlink(sp)
        prog = part + ".progress"
        if not os.path.exists(prog):
            raise ToolError("replayer failed rc=%d without progress marker: %s" % (p.returncode, p.stderr[-2000:]))
        bid = int(open(prog).read().strip())
        os.unlink(prog)
        last = None
        with open(part) as f:
            for line in f:
                last = line
        crashes.append((bid, p.returncode, last))
        frm = bid + 1
        if len(crashes) >= 40:
            # the code under test keeps killing the process: enough evidence; the remaining behaviours are not replayed
            total["truncated_after_crashes"] = True
            break
    with open(obs_path, "w") as out:
        for part in parts:
            with open(part) as f:
                for line in f:
                    if line.endswith("\n"):
                        out.write(line)
            os.unlink(part)
    return total, crashes


def step_signature(rec, clause):
    a = rec.get("a")
    args = rec.get("args", {})
    cfg = rec.get("cfg", {})
    sig = {"clause": clause, "a": a}
    if a in ("grow", "shrink", "dealloc"):
        sig["wrap"] = args.get("wrap", "none")
    if a == "shrink":
        sig["unaligned"] = None
    if clause == "C10" and not rec["o"].get("anyeq", True) or (clause == "C10" and rec["o"].get("any") != rec["o"].get("stats")):
        sig["any_stats_mismatch"] = True
        sig["hs"] = cfg.get("hs")
    return sig


def _tree_hash(paths, exts):
    import hashlib
    h = hashlib.sha1()
    for root in paths:
        if os.path.isfile(root):
            files = [root]
        else:
            files = []
            for d, dirs, fs in os.walk(root):
                dirs[:] = [x for x in dirs if x not in ("target", ".git", ".work")]
                files += [os.path.join(d, f) for f in fs if f.endswith(exts)]
        for f in sorted(files):
            h.update(f.encode())
            with open(f, "rb") as fh:
                h.update(fh.read())
    return h.hexdigest()


def arena_pipeline(tier, focus="general", variants="trait"):
    """All arena-family checks share one pipeline run per (tier, focus, seed, source trees): the result is cached under
    .work/cache keyed by the CONTENT of /repo's sources, the specifications and the harness, so that running the checks of
    several properties one after the other does not repeat identical deterministic work.  Any edit to /repo (or to /verif)
    changes the key."""
    import fcntl, pickle
    own = [os.path.join(SPEC, f) for f in sorted(os.listdir(SPEC))
           if f.startswith(("Arena", "MC_Arena", "Sim_Arena", "Bumping", "ChunkSize"))]
    own += [os.path.join(VERIF, "lib", "checks_arena.py"), os.path.join(VERIF, "lib", "vlib.py")]
    key = _tree_hash([os.path.join(REPO, "src"), os.path.join(REPO, "Cargo.toml"), os.path.join(HARNESS, "replay", "src"),
                      os.path.join(HARNESS, "replay", "Cargo.toml")] + own, (".rs", ".toml", ".tla", ".cfg", ".py"))
    key = hashlib.sha1(("%s|%s|%s|%s|%d" % (key, tier, focus, variants, seed())).encode()).hexdigest()[:16]
    cdir = os.path.join(WORK, "cache")
    os.makedirs(cdir, exist_ok=True)
    cpath = os.path.join(cdir, "arena-%s.pkl" % key)
    with open(os.path.join(cdir, "arena-%s.lock" % key), "w") as lk:
        fcntl.flock(lk, fcntl.LOCK_EX)
        if os.path.exists(cpath) and time.time() - os.path.getmtime(cpath) < 6 * 3600:
            with open(cpath, "rb") as f:
                P = pickle.load(f)
            if os.path.exists(P["obs"]) and os.path.exists(P["beh"]):
                P["cached"] = True
                return P
        P = _arena_pipeline(tier, focus, variants, key)
        P["cached"] = False
        with open(cpath, "wb") as f:
            pickle.dump(P, f)
        # drop old cache entries: keep the 24 newest and everything younger than 3 hours (one run of all arena checks uses 8
        # pipelines whose results must stay readable until the last check of the run has reported)
        ents = sorted([os.path.join(cdir, x) for x in os.listdir(cdir) if x.endswith(".pkl")], key=os.path.getmtime)
        for old in [e for e in ents[:-24] if time.time() - os.path.getmtime(e) > 3 * 3600]:
            try:
                with open(old, "rb") as f:
                    o = pickle.load(f)
                shutil.rmtree(o.get("wd", ""), ignore_errors=True)
            except Exception:
                pass
            os.unlink(old)
        return P


def _arena_pipeline(tier, focus, variants, key):
    t0 = time.time()
    thorough = tier == "thorough"
    wd = workdir("arena-%s-%s" % (focus, key))
    bins = cargo_build("replay", features=["full"] if thorough else None)
    # 1. model checking of the specification against the contract invariants (shared by all focused mixes: done once,
    #    in the pipeline with the general mix)
    if focus in FOCUSED:
        g = arena_pipeline(tier, "general", variants)
        mc = g["mc"]
        return _arena_pipeline_rest(tier, focus, variants, key, t0, thorough, wd, bins, mc, None)
    # (thorough: 114 M states generated, 1.9 M distinct: one hour with 8 workers on a busy 16-core machine)
    mc = tlc("MC_Arena", "MC_Arena_thorough.cfg" if thorough else "MC_Arena.cfg", workers=14 if thorough else 10,
             timeout=5 * 3600 if thorough else 1500, xmx="12g")
    require_ok(mc, "MC_Arena")
    # focused configuration: exclusive-borrow collections whose growth fails while several chunks exist (7 steps deep;
    # this is the configuration on which TLC found the defect fixed by /repo 5e73d20)
    mc2 = tlc("MC_Arena", "MC_Arena_prepfail.cfg", workers=6, timeout=900, xmx="6g")
    require_ok(mc2, "MC_Arena_prepfail")
    # focused configuration: growable vectors (BumpVec as a client of allocate / grow / shrink_slice / deallocate) interleaved
    # with plain allocations and scopes, deeper than the general relation
    if thorough:
        txt = open(os.path.join(SPEC, "MC_Arena_vec.cfg")).read().replace("MaxOps = 5", "MaxOps = 6")
        gen = ".gen_MC_Arena_vec_%d.cfg" % os.getpid()
        with open(os.path.join(SPEC, gen), "w") as f:
            f.write(txt)
        try:
            mc3 = tlc("MC_Arena", gen, workers=10, timeout=3000, xmx="12g")
        finally:
            os.unlink(os.path.join(SPEC, gen))
    else:
        mc3 = tlc("MC_Arena", "MC_Arena_vec.cfg", workers=8, timeout=900, xmx="8g")
    require_ok(mc3, "MC_Arena_vec")
    mc2.distinct += mc3.distinct
    mc2.generated += mc3.generated
    return _arena_pipeline_rest(tier, focus, variants, key, t0, thorough, wd, bins, mc, mc2)


def _arena_pipeline_rest(tier, focus, variants, key, t0, thorough, wd, bins, mc, mc2):
    # 2. behaviours
    beh = os.path.join(wd, "beh.ndjson")
    nnum = (5000 if thorough else 500) if focus != "c17" else (1200 if thorough else 150)
    if focus in FOCUSED:
        nnum = 3000 if thorough else 300
    nsim, sim = simulate("Sim_Arena_full.cfg" if thorough else "Sim_Arena.cfg", nnum, 45, beh, workers=6, timeout=2400, focus=focus)
    ngrid = 0
    if focus == "general":
        # boundary grid: EVERY behaviour "constructor ; one allocation leaving a residue ; one request sized to the free space of
        # the current chunk exactly / one less / one more ; finalise" (MC_Arena GridSpec), emitted by exhaustive model checking
        gr = tlc("MC_Arena", "MC_Arena_grid.cfg", workers=6, timeout=1500, xmx="8g")
        if gr.error:
            raise ToolError("MC_Arena_grid failed: %s\n%s" % (gr.error, gr.out[-3000:]))
        gpath = os.path.join(wd, "grid.ndjson")
        ngrid = extract_behaviours(gr.out, gpath, start_id=nsim + 1)
        if ngrid == 0:
            raise ToolError("MC_Arena_grid produced no behaviours")
        with open(beh, "a") as out, open(gpath) as g:
            shutil.copyfileobj(g, out)
        os.unlink(gpath)
        del gr
        # capacity grid: with_capacity constructors around the rounding boundaries of the chunk size computation
        gr = tlc("MC_Arena", "MC_Arena_capgrid.cfg", workers=4, timeout=900, xmx="4g")
        if gr.error:
            raise ToolError("MC_Arena_capgrid failed: %s\n%s" % (gr.error, gr.out[-3000:]))
        ncap = extract_behaviours(gr.out, gpath, start_id=nsim + ngrid + 1)
        if ncap == 0:
            raise ToolError("MC_Arena_capgrid produced no behaviours")
        with open(beh, "a") as out, open(gpath) as g:
            shutil.copyfileobj(g, out)
        os.unlink(gpath)
        ngrid += ncap
        del gr
    # 3. replay
    obs = os.path.join(wd, "obs.ndjson")
    if focus == "fail" and variants == "trait":
        # failure handling is also evaluated on the panicking twins (capacity overflow is an unwinding panic there)
        variants = "trait,panicking"
    stats, crashes = replay(bins["replay"], beh, obs, variants)
    # 4. contract evaluation by TLC
    results, parts, d = tlc_obs("ArenaObs", "ArenaObs.cfg", obs, nparts=12, timeout=3000, xmx="6g")
    checked = tagged_int(results, "CHECKED")
    stats.setdefault("truncated_after_crashes", False)
    if checked != stats["lines"] and not crashes:
        raise ToolError("TLC saw %d records, replayer wrote %d" % (checked, stats["lines"]))
    bad = {p: tagged_index_sets(results, parts, "BAD_" + p) for p in ARENA_PROPS}
    drift = tagged_index_sets(results, parts, "DRIFT")
    aborted = tagged_index_sets(results, parts, "ABORTED")
    counters = {k: tagged_int(results, k) for k in ("N_EXIT", "N_REALLOC", "N_NEWCHUNK", "N_RECLAIM", "N_FAIL", "N_CLAIMED_OP", "N_ALIGNED", "N_REUSE", "N_PREP", "N_COMMIT", "N_PARTS", "N_AGAIN", "N_TRYWITH_ERR", "N_VALUE", "N_ITERMUT", "N_VEC", "N_VEC_RELOC", "N_VEC_REFUSED", "N_TRYWITH_PANIC", "N_GROWHELPER")}
    shutil.rmtree(d, ignore_errors=True)
    mc.out = mc.out[-4000:]
    if mc2 is not None:
        mc.distinct += mc2.distinct
        mc.generated += mc2.generated
    return {"wd": wd, "beh": beh, "obs": obs, "mc": mc, "nsim": nsim + ngrid, "ngrid": ngrid, "stats": stats, "crashes": crashes, "bad": bad,
            "drift": drift, "aborted": aborted, "checked": checked, "counters": counters, "wall": time.time() - t0, "variants": variants}


def behaviour_by_id(beh_path, ids):
    ids = set(ids)
    res = {}
    with open(beh_path) as f:
        for line in f:
            o = json.loads(line)
            if o["id"] in ids:
                res[o["id"]] = o
    return res


def check_arena_property(pid, tier, focus="general"):
    t0 = time.time()
    out = Outcome(pid)
    P = arena_pipeline(tier, focus)
    pipes = [P]
    if focus == "general" and pid in FOCUS_OF:
        pipes.append(arena_pipeline(tier, FOCUS_OF[pid]))
    for Q in pipes:
        bad = Q["bad"][pid]
        recs = nth_lines(Q["obs"], [g for (_, _, g) in bad][:300])
        behs = behaviour_by_id(Q["beh"], [r["b"] for r in recs.values()][:40])
        for g, rec in sorted(recs.items()):
            sig = violation_signature(pid, rec)
            out.violation(sig, {"check": pid, "step": rec, "behaviour": behs.get(rec["b"]),
                                "how": "harness/replay replays `behaviour` (a TLC-generated behaviour of spec/Arena.tla) on the real "
                                       "allocator; `step` is the recorded observation on which the contract clause of ArenaObs.tla fails"})
    if len(pipes) > 1:
        F = pipes[1]
        P = dict(P)
        P["crashes"] = P["crashes"] + F["crashes"]
        P["drift"] = P["drift"] + F["drift"]
        P["aborted"] = P.get("aborted", []) + F.get("aborted", [])
        P["stats"] = {k: P["stats"][k] + F["stats"][k] for k in ("behaviours", "lines", "skipped")}
        P["checked"] += F["checked"]
        P["nsim"] += F["nsim"]
        P["counters"] = {k: P["counters"][k] + F["counters"].get(k, 0) for k in P["counters"]}
        P["wall"] += F["wall"]
        P["focus_mix"] = FOCUS_OF[pid]
    # a crash of the process while replaying is an observation: memory safety (C01/C02) is gone
    if pid in ("C01", "C02", "C05"):
        for (bid, rc, last) in P["crashes"]:
            b = behaviour_by_id(P["beh"], [bid]).get(bid)
            lastrec = json.loads(last) if last else None
            k = lastrec["i"] if lastrec and lastrec.get("b") == bid else 0
            nxt = b["steps"][k] if b and k < len(b["steps"]) else None
            if pid == "C05" and nxt is not None and nxt["a"] not in ("drop", "reset"):
                continue    # C05 takes crashes while releasing chunks (drop / reset / end of the behaviour)
            sig = {"clause": "crash", "a": nxt["a"] if nxt else None}
            if nxt and nxt["a"] in ("grow", "shrink", "dealloc"):
                sig["wrap"] = nxt["args"].get("wrap")
            out.violation(sig, {"check": pid, "crash_rc": rc, "behaviour": b, "crashed_at_step": k + 1,
                                "how": "the replayer process was killed while executing this step of the behaviour"})
    elif P["crashes"]:
        log("note: %d behaviours crashed the replayer (reported by the C01/C02 checks)" % len(P["crashes"]))
    extra_cov = {}
    if pid == "C03":
        # liveness clause: a fixed workload in a reset() loop eventually stops requesting chunks (weak fairness, no constraint)
        lv = tlc("MC_ResetLoop", "MC_ResetLoop.cfg", workers=8, timeout=1500, xmx="4g")
        if lv.error and "Temporal properties were violated" in lv.out:
            raise ToolError("MC_ResetLoop: the model violates <>[]quiet:\n" + lv.out[-3000:])
        require_ok(lv, "MC_ResetLoop")
        extra_cov = {"reset_loop_liveness": {"property": "<>[]quiet under WF(Round)", "states": lv.distinct, "transitions": lv.generated,
                                             "depth": lv.depth}}
    if P["drift"]:
        dr = nth_lines(P["obs"], [P["drift"][0][2]])
        log("MODEL-DRIFT %s: %d steps differ from the model's exact prediction, e.g. %s" %
            (pid, len(P["drift"]), json.dumps(list(dr.values())[0])[:600]))
    if P.get("aborted"):
        # the interpreter gave up on a behaviour (it could not execute a step): coverage is lost, nothing is decided
        ab = nth_lines(P["obs"], [P["aborted"][0][2]])
        log("MODEL-DRIFT %s: the interpreter aborted %d behaviours, e.g. %s" %
            (pid, len(P["aborted"]), str(list(ab.values())[0]["o"].get("aborted"))[:300]))
    rc = out.finish()
    samples = [b for b in behaviour_by_id(P["beh"], [1, 2]).values()]
    for s in samples:
        s["steps"] = [{"a": st["a"], "args": st["args"]} for st in s["steps"]]
    write_evidence(pid, tier, "model_checking", {
        "states": max(P["mc"].distinct, 1), "transitions": max(P["mc"].generated, 1),
        "traces_validated_against_impl": P["stats"]["behaviours"],
        "samples": samples,
        "steps_checked": P["checked"], "model_drift_steps": len(P["drift"]), "behaviours_aborted_by_interpreter": len(P.get("aborted", [])),
        "replayer_crashes": len(P["crashes"]),
        "behaviours_emitted": P["nsim"], "of_which_exhaustive_boundary_grid": P.get("ngrid", 0), "behaviours_skipped_not_compiled": P["stats"]["skipped"],
        "entry_point_variants": P["variants"].split(","), "counters": P["counters"], "focused_action_mix": P.get("focus_mix", "none"),
        **extra_cov,
        "mc_depth": P["mc"].depth, "pipeline_wall_s": round(P["wall"], 1), "pipeline_result_reused_from_cache": P.get("cached", False),
        "explanation": "TLC model-checks Arena.tla against the contract invariants (states/transitions), emits random behaviours "
                       "of the model, harness/replay executes each on the real allocator with a specified deterministic base "
                       "allocator and records every step through the public API, TLC (ArenaObs.tla) evaluates the contract clause "
                       "of this property on every recorded step.",
    }, time.time() - t0, violations=len(out.violations), assumptions=[
        "block liveness follows the behaviour (model), everything else is observed",
        "reads are not observed; writes are observed by byte-diffing all memory of the base allocator's region per step",
    ])
    return rc


def violation_signature(pid, rec):
    a = rec.get("a")
    args = rec.get("args", {})
    o = rec.get("o", {})
    sig = {"clause": pid, "a": a}
    if a in ("grow", "shrink", "dealloc"):
        sig["wrap"] = args.get("wrap", "none")
    if pid == "C10":
        sig["any_differs"] = (o.get("any") != o.get("stats")) or (not o.get("anyeq", True))
        sig["hs"] = rec.get("cfg", {}).get("hs")
    if pid == "C02":
        sig["damaged"] = bool(o.get("damaged"))
        sig["prefix_ok"] = o.get("prefix_ok", True)
    return sig


def fresh_chunk_clause(tier, out):
    """used by C12: the arena-level clause of C12 evaluated on replayed behaviours"""
    P = arena_pipeline(tier, "general")
    bad = P["bad"]["C12"]
    recs = nth_lines(P["obs"], [g for (_, _, g) in bad][:100])
    behs = behaviour_by_id(P["beh"], [r["b"] for r in recs.values()][:20])
    for g, rec in sorted(recs.items()):
        out.violation({"clause": "C12-arena", "a": rec.get("a")}, {"check": "C12", "step": rec, "behaviour": behs.get(rec["b"])})
    return {"behaviours": P["stats"]["behaviours"], "steps_checked": P["checked"], "new_chunk_steps": P["counters"]["N_NEWCHUNK"],
            "mc_states": P["mc"].distinct}


def split_parts_clause(tier, out):
    """used by C16 (lib/checks_vec.py): the memory-level clause of C16 -- split-off parts are independent allocations for
    the allocator's is-last logic -- evaluated on replayed Arena.tla behaviours that contain Split steps."""
    P = arena_pipeline(tier, "general")
    bad = P["bad"]["C16"]
    recs = nth_lines(P["obs"], [g for (_, _, g) in bad][:100])
    behs = behaviour_by_id(P["beh"], [r["b"] for r in recs.values()][:20])
    for g, rec in sorted(recs.items()):
        out.violation({"clause": "C16-memory", "a": rec.get("a"), "wrap": rec.get("args", {}).get("wrap")},
                      {"check": "C16", "step": rec, "behaviour": behs.get(rec["b"])})
    return {"behaviours": P["stats"]["behaviours"], "steps_checked": P["checked"],
            "steps_with_live_split_parts": P["counters"]["N_PARTS"], "mc_states": P["mc"].distinct}


C17_VARIANTS = "trait,dyn,ref,layout,panicking,typed,bump"


def check_c17(tier):
    """Every behaviour is replayed once per entry-point variant; TLC compares the variants pairwise on every step."""
    t0 = time.time()
    out = Outcome("C17")
    P = arena_pipeline(tier, "c17", C17_VARIANTS)
    wd = P["wd"]
    merged = os.path.join(wd, "c17.ndjson")
    groups = {}
    order = []
    with open(P["obs"]) as f:
        for line in f:
            r = json.loads(line)
            if r["a"] == "final":
                continue
            key = (r["b"], r["i"])
            if key not in groups:
                groups[key] = {"b": r["b"], "i": r["i"], "a": r["a"], "args": r["args"], "cfg": r["cfg"], "vs": []}
                order.append(key)
            o = r["o"]
            content = [o.get("prefix_ok"), o.get("zero_ok"), o.get("content_ok"), o.get("damaged")]
            groups[key]["vs"].append({"v": r["v"], "via": o.get("via", ""), "res": o["res"], "addr": o.get("addr", 0) or 0,
                                      "len": o.get("len", 0) or 0, "allocated": o["stats"][3], "count": o["stats"][0],
                                      "cur": o["cur"], "pos": o["chunks"][o["cur"] - 1][4] if o["cur"] else 0,
                                      "content": json.dumps(content)})
    nvar = len(C17_VARIANTS.split(","))
    with open(merged, "w") as f:
        for key in order:
            f.write(json.dumps(groups[key], separators=(",", ":")) + "\n")
    results, parts, d = tlc_obs("C17Obs", "C17Obs.cfg", merged, nparts=12, timeout=3000, xmx="6g")
    checked = tagged_int(results, "CHECKED")
    pairs = tagged_int(results, "PAIRS")
    bad = tagged_index_sets(results, parts, "BAD_C17")
    shutil.rmtree(d, ignore_errors=True)
    recs = nth_lines(merged, [g for (_, _, g) in bad][:200])
    behs = behaviour_by_id(P["beh"], [r["b"] for r in recs.values()][:20])
    for g, rec in sorted(recs.items()):
        ref = rec["vs"][0]
        differing = sorted({v["v"] for v in rec["vs"] if any(v[k] != ref[k] for k in ("res", "addr", "len", "allocated", "pos", "cur", "count", "content"))})
        out.violation({"clause": "C17", "a": rec["a"], "differing_variants": differing},
                      {"check": "C17", "step": rec, "behaviour": behs.get(rec["b"]),
                       "how": "the behaviour was replayed once per entry-point variant; `step.vs` lists what each variant observed"})
    incomplete = sum(1 for k in order if len(groups[k]["vs"]) != nvar)
    rc = out.finish()
    samples = [groups[k] for k in order[:2]]
    write_evidence("C17", tier, "model_checking", {
        "states": max(P["mc"].distinct, 1), "transitions": max(P["mc"].generated, 1),
        "traces_validated_against_impl": P["stats"]["behaviours"] * nvar,
        "samples": samples,
        "steps_compared": checked, "variant_pairs_compared": pairs, "entry_point_variants": C17_VARIANTS.split(","),
        "steps_missing_a_variant": incomplete, "replayer_crashes": len(P["crashes"]),
        "explanation": "each TLC-generated behaviour of Arena.tla is replayed through 7 entry points (Allocator on &BumpScope, "
                       "&dyn BumpAllocatorCore, & reference impls, try_allocate_layout, the panicking twins, the typed sized/slice fast "
                       "paths, and the Bump type itself); TLC (C17Obs.tla) compares result, address, length, allocated bytes, position "
                       "and content checks of all variants pairwise on every step.",
    }, time.time() - t0, violations=len(out.violations), assumptions=[
        "reserve through a trait object is by construction a contiguous prepare (documented difference) and is carried by the typed entry point in the dyn variant",
        "panicking entry points are only used on steps the model expects to succeed (a panicking method aborts the process on base allocator failure)",
    ])
    return rc


def check_c01(tier): return check_arena_property("C01", tier)
def check_c07(tier): return check_arena_property("C07", tier)
def check_c14(tier): return check_arena_property("C14", tier)
def check_c15(tier): return check_arena_property("C15", tier)
def check_c18(tier): return check_arena_property("C18", tier)
def check_c02(tier): return check_arena_property("C02", tier)
def check_c03(tier): return check_arena_property("C03", tier)
def check_c05(tier): return check_arena_property("C05", tier)
def check_c10(tier): return check_arena_property("C10", tier)
def check_c13(tier): return check_arena_property("C13", tier)
