#!/usr/bin/env python3
"""Renders the table of seeded changes (seeded/<id>/meta.json) into DESIGN.md between the SEEDED markers."""
import json, os, glob
VERIF = os.path.dirname(os.path.dirname(os.path.abspath(__file__)))
rows = []
for d in sorted(glob.glob(os.path.join(VERIF, "seeded", "*"))):
    mp = os.path.join(d, "meta.json")
    if not os.path.exists(mp):
        continue
    m = json.load(open(mp))
    caught = ", ".join(m.get("caught_by", [])) or "**not caught**"
    rows.append("| %s | %s | %s | %s | %s |" % (os.path.basename(d), m.get("property", ""), m.get("summary", "").replace("|", "/"),
                                            m.get("needs", "").replace("|", "/"), caught))
table = ("| seeded change | breaks | what it does | needs to manifest | caught by (quick tier) |\n|---|---|---|---|---|\n" + "\n".join(rows))
p = os.path.join(VERIF, "DESIGN.md")
s = open(p).read()
b, e = "<!-- SEEDED-BEGIN -->", "<!-- SEEDED-END -->"
if b not in s:
    s = s.replace("SEEDED_TABLE_PLACEHOLDER", b + "\n" + e)
i, j = s.index(b), s.index(e)
s = s[:i + len(b)] + "\n" + table + "\n" + s[j:]
open(p, "w").write(s)
print(len(rows), "rows")
