SPECIFICATION SimSpec
CONSTANTS
    Focus = "scope"
    Cfgs <- QuickCfgs
    Ctors <- SimCtors
    Layouts <- SimLayouts
    MaxOps = 30
    MaxBlocks = 8
    MaxDepth = 3
    RecordHist = TRUE
    MaxFail = 2
CHECK_DEADLOCK FALSE
