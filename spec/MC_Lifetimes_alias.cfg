\* Two-handle interplay run (quick and thorough): chains of up to three alias-creating openers, frames opened through any
\* handle, `alloc` through any handle (explicit path), one statement between producer and Use.
SPECIFICATION Spec
CONSTANTS
    Roots <- ArenaRoots
    MaxOpen = 3
    MaxMid = 1
    FamsFull <- NoFams
    FamsRep <- AliasFams
    FullDepth = 0
    FullMid = 1
    OpenOps <- AliasOpenOps
    WideOpen = TRUE
    Paths <- P1Only
INVARIANT Emit
INVARIANT ReportHoles
CHECK_DEADLOCK FALSE
