SPECIFICATION PSpec
CONSTANTS
    Threads = {1, 2}
    MaxRounds = 2
    MaxChunks = 3
    MaxPoolOps = 0
    CreateUnderLock = TRUE
    MayFail = FALSE
INVARIANT Emit
