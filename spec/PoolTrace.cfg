SPECIFICATION TSpec
CONSTANTS
    Threads = {1, 2, 3, 4, 5, 6, 7, 8}
    MaxRounds = 1000000
    MaxChunks = 1000
    MaxPoolOps = 1000000
    CreateUnderLock = TRUE
    MayFail = TRUE
    MayForget = TRUE
    MayPanic = TRUE
INVARIANTS TypeOK MutexOK OwnerOK Exclusive IdleDisjoint Conservation ReuseOK DataIntact
POSTCONDITION Accepted
