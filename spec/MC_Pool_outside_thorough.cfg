\* thorough tier, creation outside the critical section: 3 threads x 2 rounds
SPECIFICATION Spec
CONSTANTS
    Threads = {t1, t2, t3}
    MaxRounds = 2
    MaxChunks = 1
    MaxPoolOps = 0
    CreateUnderLock = FALSE
    MayFail = TRUE
    MayForget = FALSE
SYMMETRY Symm
INVARIANTS TypeOK MutexOK OwnerOK Exclusive IdleDisjoint Conservation ReuseOK ReuseTight DataIntact
PROPERTIES DecideCreateOnlyWhenIdleEmpty BlocksOnlyForgottenByPoolOps ResetRewindsAll DropReleasesAll LeakedStayValid
