---- MODULE ScratchLt ----
EXTENDS MC_Lifetimes
H == <<[op |-> "PoolGet", h |-> 1, a |-> "", b |-> ""], [op |-> "Scoped", h |-> 2, a |-> "scoped", b |-> ""], [op |-> "Scoped", h |-> 4, a |-> "scoped", b |-> ""], [op |-> "Guard", h |-> 6, a |-> "", b |-> ""], [op |-> "GScope", h |-> 7, a |-> "", b |-> ""], [op |-> "Produce", h |-> 2, a |-> "alloc", b |-> "p1"], [op |-> "Drop", h |-> 7, a |-> "", b |-> ""], [op |-> "Use", h |-> 0, a |-> "", b |-> ""], [op |-> "ExitClosure", h |-> 0, a |-> "", b |-> ""], [op |-> "ExitClosure", h |-> 0, a |-> "", b |-> ""], [op |-> "End", h |-> 0, a |-> "", b |-> ""]>>
ASSUME PrintT(<<"T0", JavaTime>>)
ASSUME PrintT(<<"RUN", Run("pool", H).hazard, JavaTime>>)
ASSUME PrintT(<<"CTL", ControlOf("pool", H, Run("pool", H)).kind, JavaTime>>)
====
