------------------------------ MODULE MC_Str ------------------------------
(***************************************************************************)
(* Model-checking / behaviour-emission configurations of Str.tla.          *)
(* Constants that a .cfg cannot express (sets of sequences) are defined    *)
(* here; the check (lib/checks_str.py) generates .cfg files from           *)
(* MC_Str.cfg by textual substitution.                                     *)
(***************************************************************************)
EXTENDS Str, Json

\* 'a' (1 byte), NUL (1), U+00E9 (2), U+20AC (3), U+1F600 (4)
AlphabetDef == {97, 0, 233, 8364, 128512}
\* a smaller alphabet for deeper exhaustive paths: 1, 2 and 4 byte characters
AlphabetSmall == {97, 233, 128512}

TextsDef   == {<<>>, <<97>>, <<0>>, <<233, 8364>>, <<128512>>, <<97, 0, 233>>}
TextsSmall == {<<>>, <<233>>, <<97, 0, 128512>>}
\* texts for the C-string constructors: no NUL, NUL first, NUL last, NUL inside, two NULs
CTextsDef  == {<<>>, <<97>>, <<8364, 128512>>, <<0>>, <<0, 97>>, <<233, 0>>, <<97, 0, 0, 233>>}
CTextsWalk == {<<>>, <<8364>>, <<0, 97>>, <<233, 0>>}

AllStrings   == Strings(MaxChars)
SomeStrings  == {<<>>, <<233>>, <<97, 8364>>, <<128512, 0, 97>>, <<8364, 233, 128512>>}

AllCtors == {"from_str", "fmt", "from_utf8", "from_utf8_lossy", "from_utf16", "from_utf16_lossy"}
AllOps == {"push", "push_str", "insert", "insert_str", "remove", "pop", "truncate", "clear", "retain", "drain",
           "replace_range", "extend_from_within", "split_off", "write_fmt", "extend_zeroed", "reserve",
           "into_cstr", "alloc_cstr", "alloc_cstr_from_str", "alloc_cstr_fmt", "alloc_cstr_fmt_mut"}
NoOps == {}
AllOuts  == {"ok", "panic", "full", "inject"}
OkOnly   == {"ok"}
OkInject == {"ok", "inject"}
FromStrOnly == {"from_str"}
DecodeCtors == AllCtors \ {"from_str"}

AllKinds  == {"box", "fixed", "grow"}
KindBox   == {"box"}
KindFixed == {"fixed"}
KindGrow  == {"grow"}
BoxGrow   == {"box", "grow"}
CapsDef   == {0, 3, 6, 12}
CapsSmall == {2, 6}
CapsMid   == {3, 8}
Strings1  == Strings(1)
TwoStrings == {<<>>, <<233, 97>>}
BothApis == {"p", "t"}
OnlyP    == {"p"}
NoIncl   == {FALSE}
BothIncl == {FALSE, TRUE}

\* behaviour emission: a complete behaviour is printed once, as JSON
Emit == fin => PrintT(<<"REPLAY", ToJson(hist)>>)

=============================================================================
