----------------------------- MODULE Lifetimes -----------------------------
(***************************************************************************)
(* C04 -- safe programs over the bump-scope API and use-after-rewind       *)
(* hazards.                                                                *)
(*                                                                         *)
(* A behaviour of this specification is a straight-line safe Rust program  *)
(* (a sequence of API statements with closures / blocks) over one root     *)
(* owner (a `Bump`, a `BumpPool`, or their twins with a non-Send base      *)
(* allocator), in which ONE value pointing into arena memory is produced   *)
(* and later used.  Two layers, as everywhere in /verif:                   *)
(*                                                                         *)
(*  CONTRACT (what the property states): the liveness automaton of the     *)
(*  arena (the one that decides C01): a value lands in the innermost open  *)
(*  frame of its arena and dies when that frame is left / rewound, when    *)
(*  the arena or pool is reset or dropped.  `Use` of a dead value, moving  *)
(*  an arena whose base allocator is not Send to another thread, and a     *)
(*  guarantee-weakening settings conversion make a behaviour HAZARDOUS.    *)
(*                                                                         *)
(*  MODEL (implementation shaped): the *signature table* of the crate --   *)
(*  which borrows every statement needs and which loans every produced     *)
(*  handle / value keeps alive ('_ of the receiver borrow vs. the scope    *)
(*  lifetime 'a vs. the lifetime of a `&'a (mut) Bump` used as `Self`) --   *)
(*  evaluated by a small loan checker (`rej`).  It predicts the verdict    *)
(*  of the borrow checker; it is used to build well-typed controls, to     *)
(*  state the design-level claim "hazardous => rejected by the signature   *)
(*  table", and for drift detection against rustc.                         *)
(*                                                                         *)
(* Everything is a pure function of the statement sequence (`Step`,        *)
(* `Run`), so that the control program of a hazardous behaviour (same      *)
(* statements, the Use moved in front of the killing statement; or the     *)
(* invalidation removed) can be computed and re-validated inside TLC.      *)
(***************************************************************************)
EXTENDS Naturals, Integers, Sequences, FiniteSets, TLC

CONSTANTS
    Roots,       \* subset of {"bump", "pool", "unsend", "unsendpool", "settings"}
    MaxOpen,     \* max number of opener statements before the producer
    MaxMid,      \* max number of statements between producer and Use
    FamsFull,    \* producer families used on shallow chains (nopen <= FullDepth)
    FamsRep,     \* representative producer families used everywhere
    FullDepth,
    FullMid,     \* max number of statements between producer and Use for families outside FamsRep
    OpenOps,     \* which opener statements are tried ("Op:a" strings), see AllOpenOps
    WideOpen,    \* TRUE: scoped / scope_guard are also tried on handles other than the innermost one (two-handle
                 \* interplay: a frame opened through the ORIGINAL while an alias -- by_value copy, as_scope borrow,
                 \* claim guard -- is around, and vice versa)
    Paths        \* ways of writing the producer on the innermost handle

(***************************************************************************)
(* Signature table, part 1: producer families.                             *)
(*   m    : receiver mode of the call ("shr" = &self, "mut" = &mut self)    *)
(*   cls  : what the result points at: "mem" = bump memory of a frame,      *)
(*          "hdr" = chunk headers (Stats, allocator borrow: die only when   *)
(*          chunks are freed)                                               *)
(*   lt   : result lifetime class: "scope" = the `$lifetime` of             *)
(*          forward_methods! / 'a of BumpAllocator*Scope<'a>;               *)
(*          "borrow" = always the borrow of the receiver (`'_` of &self,    *)
(*          or a collection that stores its allocator argument)             *)
(*   av   : "both" = inherent method (path p1) and trait / allocator-arg    *)
(*          with Self = type of the handle variable (path p2);              *)
(*          "inh" = p1 only; "scopeonly" = p2 only on scope-ish handles     *)
(* The Rust text of each family lives in lib/lifetimes_gen.py (FAMS) under  *)
(* the same key; the check refuses to run when the key sets differ.         *)
(***************************************************************************)
F(m, cls, lt, av) == [m |-> m, cls |-> cls, lt |-> lt, av |-> av]

BoxFams == {"alloc", "try_alloc", "alloc_with", "try_alloc_with", "alloc_default", "try_alloc_default",
            "alloc_slice_move", "try_alloc_slice_move", "alloc_slice_copy", "try_alloc_slice_copy",
            "alloc_slice_clone", "try_alloc_slice_clone", "alloc_slice_fill", "try_alloc_slice_fill",
            "alloc_slice_fill_with", "try_alloc_slice_fill_with", "alloc_str", "try_alloc_str",
            "alloc_fmt", "try_alloc_fmt", "alloc_iter", "try_alloc_iter", "alloc_iter_exact",
            "try_alloc_iter_exact", "alloc_uninit", "try_alloc_uninit", "alloc_uninit_slice",
            "try_alloc_uninit_slice", "alloc_uninit_slice_for", "try_alloc_uninit_slice_for",
            "alloc_cstr", "try_alloc_cstr", "alloc_cstr_from_str", "try_alloc_cstr_from_str",
            "alloc_cstr_fmt", "try_alloc_cstr_fmt",
            "alloc_into_ref", "alloc_into_mut", "alloc_leak", "alloc_str_into_mut", "alloc_into_boxed_slice",
            "alloc_uninit_init", "alloc_slice_split", "alloc_iter_into_iter"}
BoxMutFams == {"alloc_fmt_mut", "try_alloc_fmt_mut", "alloc_iter_mut", "try_alloc_iter_mut",
               "alloc_iter_mut_rev", "try_alloc_iter_mut_rev", "alloc_cstr_fmt_mut", "try_alloc_cstr_fmt_mut"}
InhFams == {"alloc_try_with", "try_alloc_try_with"}
InhMutFams == {"alloc_try_with_mut", "try_alloc_try_with_mut"}
HdrFams == {"stats", "allocator", "stats_chunk", "stats_iter"}
BorrowHdrFams == {"any_stats", "typed_stats"}
\* collections; the allocator argument is the "receiver"
CollScopeFams == {"vec_into_slice", "vec_into_boxed_slice", "vec_into_fixed_vec", "vec_macro_into_slice",
                  "vec_into_parts", "vec_into_flattened_slice", "vec_map_into_slice",
                  "string_into_str", "string_into_boxed_str", "string_into_fixed_string", "string_into_cstr",
                  "format_into_str", "fixedvec_new", "fixedvec_into_slice", "fixedvec_from_iter",
                  "fixedstring_new", "fixedstring_into_str",
                  "wd_vec_into_slice", "ws_vec_into_boxed_slice"}
CollKeepFams == {"vec_keep", "vec_macro_keep", "string_keep", "format_keep", "wd_vec_keep"}
CollMutScopeFams == {"mutvec_into_slice", "mutvec_into_boxed_slice", "mutvecrev_into_slice",
                     "mutvecrev_into_boxed_slice", "mutstring_into_str", "mutstring_into_boxed_str",
                     "mutstring_into_cstr", "mutformat_into_str", "mutvec_macro_into_slice"}
CollMutKeepFams == {"mutvec_keep", "mutvecrev_keep", "mutstring_keep"}

AllFams == BoxFams \cup BoxMutFams \cup InhFams \cup InhMutFams \cup HdrFams \cup BorrowHdrFams
           \cup CollScopeFams \cup CollKeepFams \cup CollMutScopeFams \cup CollMutKeepFams

Fam(f) ==
    CASE f \in BoxFams          -> F("shr", "mem", "scope", "both")
      [] f \in BoxMutFams       -> F("mut", "mem", "scope", "both")
      [] f \in InhFams          -> F("shr", "mem", "scope", "inh")
      [] f \in InhMutFams       -> F("mut", "mem", "scope", "inh")
      [] f \in HdrFams          -> F("shr", "hdr", "scope", "scopeonly")
      [] f \in BorrowHdrFams    -> F("shr", "hdr", "borrow", "both")
      [] f \in CollScopeFams    -> F("shr", "mem", "scope", "both")
      [] f \in CollKeepFams     -> F("shr", "mem", "borrow", "both")
      [] f \in CollMutScopeFams -> F("mut", "mem", "scope", "both")
      [] f \in CollMutKeepFams  -> F("mut", "mem", "borrow", "both")

(***************************************************************************)
(* Entities = Rust locals.  Handle kinds:                                  *)
(*   bump   : `let mut bump: Bump`            (owner)                      *)
(*   ref    : `&Bump`      refmut : `&mut Bump`                            *)
(*   sref   : `&BumpScope<'a>`   smut : `&mut BumpScope<'a>`                *)
(*   sval   : `BumpScope<'a>` by value        claim : BumpClaimGuard        *)
(*   pguard : BumpPoolGuard                                                 *)
(* others: pool, guard (BumpScopeGuard), closure (the call of scoped /      *)
(* scoped_aligned / aligned: holds the receiver exclusively while the       *)
(* closure runs and stands for every closure-local lifetime), value.        *)
(***************************************************************************)
BumpIsh  == {"bump", "ref", "refmut"}
ScopeIsh == {"sref", "smut", "sval", "claim", "pguard"}
Handles  == BumpIsh \cup ScopeIsh
MutCap   == {"bump", "refmut", "smut", "sval", "claim", "pguard"}
RefVars  == {"ref", "refmut", "sref", "smut"}      \* variables of reference type: path p2 differs from p1
SharedRefs == {"ref", "sref"}                      \* Copy references: reborrowing through them does not borrow the variable

NoVal == [ent |-> 0, arena |-> 0, frame |-> 0, cls |-> "", dead |-> FALSE, deadAt |-> 0, used |-> FALSE,
          home |-> 0, ret |-> FALSE, fam |-> "", path |-> "", hk |-> "", route |-> ""]

Ent(k, loans, sl, arena, blk, drop, frame) ==
    [k |-> k, loans |-> loans, sl |-> sl, arena |-> arena, blk |-> blk, drop |-> drop, frame |-> frame,
     moved |-> FALSE, gone |-> FALSE, taint |-> FALSE, aux |-> 0]

Init0(root) ==
    [root   |-> root,
     ents   |-> IF root \in {"bump", "unsend"} THEN <<Ent("bump", {}, {}, 1, 1, TRUE, 0)>>
                ELSE IF root \in {"pool", "unsendpool"} THEN <<Ent("pool", {}, {}, 0, 1, TRUE, 0)>>
                ELSE <<>>,
     blocks |-> <<[kind |-> "fn", ent |-> 0]>>,
     frames |-> <<>>,
     val    |-> NoVal,
     n      |-> 0, nopen |-> 0, nall |-> 0, nmid |-> 0,
     phase  |-> "open",
     rej    |-> FALSE,        \* MODEL: the signature table (loan checker) rejects the program
     hazard |-> FALSE,        \* CONTRACT: the program uses memory that may have been reused / weakens a guarantee
     why    |-> "",           \* the statement kind that made it hazardous (escape route)
     ok     |-> TRUE]         \* well-formedness of the statement sequence (used when replaying controls)

St(op, h, a, b) == [op |-> op, h |-> h, a |-> a, b |-> b]

(***************************************************************************)
(* Loan checker                                                            *)
(***************************************************************************)
Conf(loanMode, needMode) == loanMode = "mut" \/ needMode # "shr"
Conflicts(e, needs) == \E l \in e.loans : \E nd \in needs : l[1] = nd[1] /\ Conf(l[2], nd[2])

\* loans acquired by borrowing (with mode m) *through* handle variable h
Through(st, h, m) ==
    IF st.ents[h].k \in SharedRefs /\ m = "shr" THEN st.ents[h].loans
    ELSE {<<h, m>>} \cup st.ents[h].loans
\* loans acquired by borrowing the variable h itself
OfVar(st, h, m) == {<<h, m>>} \cup st.ents[h].loans

\* a statement with borrow requirements `needs`: entities (other than `skip`) holding a conflicting loan
\* must not be used afterwards (taint); a running closure is "used" all the time => immediate rejection
ApplyNeeds(st, needs, skip) ==
    LET hit(j) == j \notin skip /\ ~st.ents[j].gone /\ Conflicts(st.ents[j], needs)
        hitV(j) == j \notin skip /\ j = st.val.ent /\ ~st.val.used /\ Conflicts(st.ents[j], needs)
        now == \E j \in 1..Len(st.ents) : hit(j) /\ st.ents[j].k = "closure" /\ ~st.ents[j].moved
    \* TLCEval: TLC keeps [j \in S |-> e] as a lazy function; layers of lazy functions referring to each other several
    \* times make evaluation exponential in the number of statements
    IN [st EXCEPT !.ents = TLCEval([j \in 1..Len(st.ents) |->
                               IF hit(j) \/ hitV(j) THEN [st.ents[j] EXCEPT !.taint = TRUE] ELSE st.ents[j]]),
                  !.rej = @ \/ now]

UseEnt(st, j) == IF st.ents[j].taint THEN [st EXCEPT !.rej = TRUE] ELSE st

\* entity j is moved away / leaves scope: everything that borrows from it can no longer be named
MarkGone(st, j, moved) ==
    [st EXCEPT !.ents = TLCEval([i \in 1..Len(st.ents) |->
        IF i = j THEN [st.ents[i] EXCEPT !.moved = @ \/ moved, !.gone = TRUE]
        ELSE IF \E l \in st.ents[i].loans : l[1] = j THEN [st.ents[i] EXCEPT !.gone = TRUE]
        ELSE st.ents[i]])]

(***************************************************************************)
(* Arena liveness (the contract side)                                      *)
(***************************************************************************)
TopFrame(st, a) ==
    LET fs == {f \in 1..Len(st.frames) : st.frames[f].arena = a /\ st.frames[f].open}
    IN IF fs = {} THEN 0 ELSE CHOOSE f \in fs : \A g \in fs : g <= f

KillIf(st, cond, why) ==
    IF st.val.ent # 0 /\ ~st.val.dead /\ cond
    THEN [st EXCEPT !.val.dead = TRUE, !.val.deadAt = st.n + 1, !.val.route = why]
    ELSE st

\* rewinding frame f of arena a (scope exit, guard drop, guard reset): memory allocated in f or deeper is reused
KillFrame(st, a, f, why) == KillIf(st, st.val.arena = a /\ st.val.frame >= f /\ st.val.cls = "mem", why)
\* reset frees chunks: memory and headers; reset_to_start keeps the chunks
KillArena(st, a, hdrToo, why) == KillIf(st, st.val.arena = a /\ (st.val.cls = "mem" \/ hdrToo), why)
KillAll(st, hdrToo, why) == KillIf(st, st.val.cls = "mem" \/ hdrToo, why)

CloseFrame(st, f) == IF f = 0 THEN st ELSE [st EXCEPT !.frames[f].open = FALSE]

\* what dropping entity j means for the arena
DropSem(st, j, why) ==
    LET e == st.ents[j] IN
    CASE e.k = "guard" -> CloseFrame(KillFrame(st, e.arena, e.frame, why), e.frame)
      [] e.k = "bump"  -> KillArena(st, e.arena, TRUE, why)
      [] e.k = "pool"  -> KillAll(st, TRUE, why)
      [] OTHER         -> st        \* claim guard, pool guard: nothing is rewound

\* implicit or explicit drop of entity j (a use of j that needs j exclusively)
DropEnt(st, j, why) ==
    LET s1 == IF st.ents[j].drop /\ ~st.ents[j].moved THEN DropSem(UseEnt(st, j), j, why) ELSE st
        s2 == ApplyNeeds(s1, {<<j, "move">>}, {j})
    IN MarkGone(s2, j, TRUE)

\* close block of depth d: locals leave scope in reverse declaration order
RECURSIVE DropLocals(_, _, _, _)
DropLocals(st, d, j, why) ==
    IF j = 0 THEN st
    ELSE IF st.ents[j].blk = d /\ ~st.ents[j].moved /\ st.ents[j].k # "value" /\ st.ents[j].k # "closure"
         THEN DropLocals(TLCEval(DropEnt(st, j, why)), d, j - 1, why)
         ELSE DropLocals(st, d, j - 1, why)

(***************************************************************************)
(* Queries                                                                 *)
(***************************************************************************)
Usable(st, j) == ~st.ents[j].moved /\ ~st.ents[j].gone
IsHandle(st, j) == st.ents[j].k \in Handles
Depth(st) == Len(st.blocks)
TopHandle(st) ==
    LET hs == {j \in 1..Len(st.ents) : IsHandle(st, j) /\ Usable(st, j)}
    IN IF hs = {} THEN 0 ELSE CHOOSE j \in hs : \A i \in hs : i <= j
\* while an arena is claimed only the claim guard (and what derives from it) allocates; everything else would panic
ClaimOK(st, j) ==
    LET a  == st.ents[j].arena
        cs == {c \in 1..Len(st.ents) : st.ents[c].k = "claim" /\ ~st.ents[c].moved /\ st.ents[c].arena = a}
    IN cs = {} \/ LET c == CHOOSE c \in cs : \A d \in cs : d <= c
                  IN j = c \/ \E l \in st.ents[j].loans : l[1] = c
\* not inside a running closure that holds j (statements on such handles are rejected at once: junk)
NotLockedByClosure(st, j, m) ==
    ~\E c \in 1..Len(st.ents) : st.ents[c].k = "closure" /\ ~st.ents[c].moved
                                 /\ Conflicts(st.ents[c], {<<j, m>>})

\* Paths (how the producer is written):
\*   p1 : explicitly through the handle to the Bump / BumpScope: inherent method `Bump::alloc(&*h, ..)`, allocator
\*        argument `&*h` / `&mut *h`
\*   p2 : Self = the type of the handle VARIABLE: `BumpAllocatorTypedScope::alloc(&h, ..)`, allocator argument
\*        `&h` / `&mut h` (differs from p1 only for variables of reference type)
\*   p3 : method-call syntax `h.alloc(..)` with `use bump_scope::traits::*` in scope.  Method resolution probes the
\*        receiver type before its deref: for `h: &mut X` and a `&self` method the trait impl for Self = `&mut X` is
\*        found (autoref) before the inherent method of X  =>  p3 = p2 there, p3 = p1 everywhere else.
IsColl(f) == f \in CollScopeFams \cup CollKeepFams \cup CollMutScopeFams \cup CollMutKeepFams
EffPath(st, h, f, p) ==
    IF p # "p3" THEN p
    ELSE LET k == st.ents[h].k  fam == Fam(f) IN
         IF k \in {"refmut", "smut"} /\ fam.m = "shr" /\ (fam.av = "both" \/ (fam.av = "scopeonly" /\ k = "smut"))
         THEN "p2" ELSE "p1"

PathOK(st, h, f, p) ==
    LET k == st.ents[h].k  fam == Fam(f) IN
    /\ fam.m = "mut" => k \in MutCap
    /\ p = "p2" => /\ k \in RefVars
                   /\ fam.av = "both" \/ (fam.av = "scopeonly" /\ k = "smut")
                   /\ fam.m = "mut" => k \in {"refmut", "smut"}
    /\ p = "p3" => ~IsColl(f) /\ f \notin BorrowHdrFams

\* Signature table, part 2: the loans kept alive by the result of a producer call
ResultLoans(st, h, f, p0) ==
    LET k == st.ents[h].k  fam == Fam(f)  p == EffPath(st, h, f, p0) IN
    IF fam.lt = "borrow" THEN (IF p = "p1" THEN Through(st, h, fam.m) ELSE OfVar(st, h, fam.m))
    ELSE IF k \in ScopeIsh THEN st.ents[h].sl                      \* BumpScope<'a>: results live for 'a
    ELSE IF p = "p1" THEN Through(st, h, fam.m)                     \* Bump: results live for the borrow of the Bump
    ELSE st.ents[h].loans                                          \* Self = &'a Bump / &'a mut Bump: results live for 'a

(***************************************************************************)
(* Settings conversions (table action).  S = [ma, up, ga, cl].             *)
(* A conversion is fine iff no guarantee that some party relies on is      *)
(* weakened:                                                               *)
(*  - shared borrow: both views coexist => everything equal, except that   *)
(*    the new view may stop relying on "allocated";                        *)
(*  - exclusive borrow: the old view resumes afterwards => the new view    *)
(*    may only keep the position MORE aligned; everything else equal       *)
(*    (a `&mut Bump<GA=false>` could be overwritten by an unallocated one); *)
(*  - BumpScope by value: the parent resumes => alignment may not drop;    *)
(*    claimable / allocated are checked at run time (panic, C18);          *)
(*  - Bump by value: nobody else => only the direction is fixed.           *)
(***************************************************************************)
Changes == {"identity", "ma_up", "ma_down", "up_to_false", "up_to_true", "ga_up", "ga_down", "cl_up", "cl_down"}
ConvMethods == {"with", "borrow", "borrow_mut"}
ConvOwners == {"Bump", "BumpScope"}
SettingsOf(change) ==
    LET base == [ma |-> 2, up |-> TRUE, ga |-> TRUE, cl |-> TRUE] IN
    CASE change = "identity"    -> <<base, base>>
      [] change = "ma_up"       -> <<base, [base EXCEPT !.ma = 4]>>
      [] change = "ma_down"     -> <<base, [base EXCEPT !.ma = 1]>>
      [] change = "up_to_false" -> <<base, [base EXCEPT !.up = FALSE]>>
      [] change = "up_to_true"  -> <<[base EXCEPT !.up = FALSE], base>>
      [] change = "ga_up"       -> <<[base EXCEPT !.ga = FALSE], base>>
      [] change = "ga_down"     -> <<base, [base EXCEPT !.ga = FALSE]>>
      [] change = "cl_up"       -> <<[base EXCEPT !.cl = FALSE], base>>
      [] change = "cl_down"     -> <<base, [base EXCEPT !.cl = FALSE]>>
Weakens(owner, method, change) ==
    LET s == SettingsOf(change)[1]  t == SettingsOf(change)[2] IN
    \/ s.up # t.up
    \/ method = "borrow"     /\ (s.ma # t.ma \/ s.cl # t.cl \/ (t.ga /\ ~s.ga))
    \/ method = "borrow_mut" /\ (t.ma < s.ma \/ s.cl # t.cl \/ s.ga # t.ga)
    \/ method = "with" /\ owner = "BumpScope" /\ t.ma < s.ma

(***************************************************************************)
(* Step: the effect of one statement.  `ok` is cleared when the statement  *)
(* is not well-formed at this point (only possible while replaying).       *)
(***************************************************************************)
Push(st, e) == [st EXCEPT !.ents = Append(@, e)]
NewIdx(st) == Len(st.ents) + 1
Bad(st) == [st EXCEPT !.ok = FALSE]

StepOpen(st, s) ==
    LET h == s.h
        valid == h \in 1..Len(st.ents) /\ Usable(st, h)
        e == st.ents[h]
        d == Depth(st)
        i == NewIdx(st)
    IN
    IF ~valid THEN Bad(st) ELSE
    CASE s.op = "RefShr" ->
            IF e.k # "bump" THEN Bad(st) ELSE
            Push(ApplyNeeds(UseEnt(st, h), {<<h, "shr">>}, {}),
                 Ent("ref", OfVar(st, h, "shr"), OfVar(st, h, "shr"), e.arena, d, FALSE, 0))
      [] s.op = "RefMut" ->
            IF e.k # "bump" THEN Bad(st) ELSE
            Push(ApplyNeeds(UseEnt(st, h), {<<h, "mut">>}, {}),
                 Ent("refmut", OfVar(st, h, "mut"), OfVar(st, h, "mut"), e.arena, d, FALSE, 0))
      [] s.op = "AsScope" ->
            IF e.k \notin BumpIsh THEN Bad(st) ELSE
            Push(ApplyNeeds(UseEnt(st, h), {<<h, "shr">>}, {}),
                 Ent("sref", Through(st, h, "shr"), Through(st, h, "shr"), e.arena, d, FALSE, 0))
      [] s.op = "AsMutScope" ->
            IF e.k \notin {"bump", "refmut"} THEN Bad(st) ELSE
            Push(ApplyNeeds(UseEnt(st, h), {<<h, "mut">>}, {}),
                 Ent("smut", Through(st, h, "mut"), Through(st, h, "mut"), e.arena, d, FALSE, 0))
      [] s.op = "Scoped" ->      \* h.scoped(|s| ..) / h.scoped_aligned::<8, _>(|s| ..): new frame, closure-local 'a
            IF e.k \notin MutCap THEN Bad(st) ELSE
            LET s1 == ApplyNeeds(UseEnt(st, h), {<<h, "mut">>}, {})
                f  == Len(st.frames) + 1
                s2 == [Push(s1, Ent("closure", Through(st, h, "mut"), {}, e.arena, d, FALSE, f))
                         EXCEPT !.frames = Append(@, [arena |-> e.arena, open |-> TRUE]),
                                !.blocks = Append(@, [kind |-> "closure", ent |-> i])]
            IN Push(s2, Ent("smut", {<<i, "mut">>}, {<<i, "mut">>}, e.arena, d + 1, FALSE, 0))
      [] s.op = "Aligned" ->     \* h.aligned::<8, _>(|s| ..): no frame; the parameter keeps the parent's lifetime
            IF e.k \notin MutCap THEN Bad(st) ELSE
            LET s1 == ApplyNeeds(UseEnt(st, h), {<<h, "mut">>}, {})
                s2 == [Push(s1, Ent("closure", Through(st, h, "mut"), {}, e.arena, d, FALSE, 0))
                         EXCEPT !.blocks = Append(@, [kind |-> "closure", ent |-> i])]
                \* BumpScope::aligned hands out `&mut BumpScope<'a, ..>` with the parent's 'a; the forwarded method on
                \* Bump says `FnOnce(&mut BumpScope<'_, ..>)`: in Fn sugar '_ is a fresh closure-local lifetime
                sl == IF e.k \in ScopeIsh THEN e.sl ELSE {<<i, "mut">>}
            IN Push(s2, Ent("smut", {<<i, "mut">>}, sl, e.arena, d + 1, FALSE, 0))
      [] s.op = "Guard" ->       \* let mut g = h.scope_guard();   (a = "block": inside a fresh `{ }`)
            IF e.k \notin MutCap THEN Bad(st) ELSE
            LET s0 == IF s.a = "block" THEN [st EXCEPT !.blocks = Append(@, [kind |-> "block", ent |-> 0])] ELSE st
                s1 == ApplyNeeds(UseEnt(s0, h), {<<h, "mut">>}, {})
                f  == Len(st.frames) + 1
            IN [Push(s1, Ent("guard", Through(st, h, "mut"), {}, e.arena, Depth(s0), TRUE, f))
                  EXCEPT !.frames = Append(@, [arena |-> e.arena, open |-> TRUE])]
      [] s.op = "Claim" ->
            IF e.k \notin Handles THEN Bad(st) ELSE
            LET sl == IF e.k \in ScopeIsh THEN e.sl ELSE Through(st, h, "shr") IN
            Push(ApplyNeeds(UseEnt(st, h), {<<h, "shr">>}, {}),
                 Ent("claim", Through(st, h, "shr"), sl, e.arena, d, TRUE, 0))
      [] s.op = "ByValue" ->
            IF e.k \notin {"smut", "sval", "claim", "pguard"} THEN Bad(st) ELSE
            Push(ApplyNeeds(UseEnt(st, h), {<<h, "mut">>}, {}),
                 Ent("sval", Through(st, h, "mut"), Through(st, h, "mut"), e.arena, d, FALSE, 0))
      [] s.op = "PoolGet" ->
            IF e.k # "pool" THEN Bad(st) ELSE
            Push(ApplyNeeds(UseEnt(st, h), {<<h, "shr">>}, {}),
                 Ent("pguard", {<<h, "shr">>}, {<<h, "shr">>}, i, d, TRUE, 0))
      [] OTHER -> Bad(st)

Openers == {"RefShr", "RefMut", "AsScope", "AsMutScope", "Scoped", "Aligned", "Guard", "Claim", "ByValue", "PoolGet"}

StepGScope(st, s) ==            \* let s = g.scope();
    LET g == s.h IN
    IF ~(g \in 1..Len(st.ents) /\ Usable(st, g) /\ st.ents[g].k = "guard") THEN Bad(st) ELSE
    LET e  == st.ents[g]
        s1 == ApplyNeeds(UseEnt(st, g), {<<g, "mut">>}, {})
        \* the property statement: "after a second scope is obtained from the same guard" the guard's memory counts
        \* as handed out again
        s2 == IF e.aux >= 1 THEN KillFrame(s1, e.arena, e.frame, "second_scope") ELSE s1
        s3 == [s2 EXCEPT !.ents[g].aux = @ + 1]
    IN Push(s3, Ent("smut", OfVar(st, g, "mut"), OfVar(st, g, "mut"), e.arena, Depth(st), FALSE, 0))

StepProduce(st, s) ==
    LET h == s.h IN
    IF ~(h \in 1..Len(st.ents) /\ Usable(st, h) /\ IsHandle(st, h) /\ st.val.ent = 0 /\ s.a \in AllFams
         /\ s.b \in {"p1", "p2", "p3"}) THEN Bad(st) ELSE
    IF ~(PathOK(st, h, s.a, s.b) /\ ClaimOK(st, h)) THEN Bad(st) ELSE
    LET e   == st.ents[h]
        fam == Fam(s.a)
        i   == NewIdx(st)
        s1  == ApplyNeeds(UseEnt(st, h), {<<h, fam.m>>}, {})
        v   == [NoVal EXCEPT !.ent = i, !.arena = e.arena, !.frame = TopFrame(st, e.arena), !.cls = fam.cls,
                             !.home = Depth(st), !.fam = s.a, !.path = s.b, !.hk = e.k]
    IN [Push(s1, Ent("value", ResultLoans(st, h, s.a, s.b), {}, e.arena, Depth(st), FALSE, 0))
          EXCEPT !.val = v]

StepMid(st, s) ==
    LET h == s.h
        valid == h \in 1..Len(st.ents) /\ Usable(st, h)
        e == st.ents[h]
    IN
    CASE s.op = "Reset" ->        \* bump.reset() / bump.reset_to_start() (also through a `&mut Bump`)
            IF ~(valid /\ e.k \in {"bump", "refmut"}) THEN Bad(st) ELSE
            KillArena(ApplyNeeds(UseEnt(st, h), {<<h, "mut">>}, {}), e.arena, s.a # "reset_to_start", s.a)
      [] s.op = "PoolReset" ->    \* pool.reset() / pool.reset_to_start() / pool.bumps().clear() (drops the arenas)
            IF ~(valid /\ e.k = "pool") THEN Bad(st) ELSE
            KillAll(ApplyNeeds(UseEnt(st, h), {<<h, "mut">>}, {}), s.a # "reset_to_start", "pool_" \o s.a)
      [] s.op = "GReset" ->       \* guard.reset()
            IF ~(valid /\ e.k = "guard") THEN Bad(st) ELSE
            KillFrame(ApplyNeeds(UseEnt(st, h), {<<h, "mut">>}, {}), e.arena, e.frame, "guard_reset")
      [] s.op = "Drop" ->         \* drop(x) for a guard, claim guard, pool guard, the Bump or the pool
            IF ~(valid /\ e.k \in {"guard", "claim", "pguard", "bump", "pool"} /\ e.blk = Depth(st)) THEN Bad(st) ELSE
            DropEnt(st, h, "drop_" \o e.k)
      [] s.op = "Spawn" ->        \* std::thread::scope(|t| { t.spawn(move || drop(bump)); })   [h = root]
            IF ~(valid /\ e.k \in {"bump", "pool"} /\ Depth(st) = 1) THEN Bad(st) ELSE
            LET unsend == st.root \in {"unsend", "unsendpool"}
                s1 == IF e.k = "bump" THEN DropEnt(st, h, "thread_drop")
                      ELSE ApplyNeeds(UseEnt(st, h), {<<h, "shr">>}, {})      \* the pool is shared, not moved
            IN [s1 EXCEPT !.rej = @ \/ unsend, !.hazard = @ \/ unsend,
                          !.why = IF unsend THEN "thread_" \o s.a ELSE @]
      [] s.op = "ExitClosure" ->  \* `})` ; a = "ret": the value is the closure's result
            IF ~(Depth(st) > 1 /\ st.blocks[Depth(st)].kind = "closure") THEN Bad(st) ELSE
            LET d  == Depth(st)
                c  == st.blocks[d].ent
                ce == st.ents[c]
                retOK == s.a = "ret" => (st.val.ent # 0 /\ ~st.val.used /\ st.val.home = d)
                s1 == DropLocals(st, d, Len(st.ents), IF ce.frame # 0 THEN "closure_exit" ELSE "aligned_exit")
                s2 == IF ce.frame # 0 THEN CloseFrame(KillFrame(s1, ce.arena, ce.frame,
                                                                IF s.a = "ret" THEN "closure_return" ELSE "closure_exit"),
                                                      ce.frame)
                      ELSE s1
                s3 == ApplyNeeds(s2, {<<c, "move">>}, {c})
                s4 == MarkGone(s3, c, TRUE)
                \* locals of the block are out of scope: what borrows them cannot be used later
                locals == {j \in 1..Len(st.ents) : st.ents[j].blk = d /\ st.ents[j].k # "value"}
                s5 == ApplyNeeds(s4, {<<j, "move">> : j \in locals}, locals)
                s6 == [s5 EXCEPT !.ents = TLCEval([j \in 1..Len(s5.ents) |->
                                             IF j \in locals THEN [s5.ents[j] EXCEPT !.gone = TRUE] ELSE s5.ents[j]]),
                                 !.blocks = SubSeq(@, 1, d - 1),
                                 !.val.home = IF st.val.ent = 0 THEN 0
                                              ELSE IF s.a = "ret" THEN d - 1
                                              ELSE IF @ = d THEN 0 ELSE @,
                                 !.val.ret = @ \/ s.a = "ret"]
            IN IF retOK THEN s6 ELSE Bad(st)
      [] s.op = "CloseBlock" ->   \* `}` of a plain block
            IF ~(Depth(st) > 1 /\ st.blocks[Depth(st)].kind = "block") THEN Bad(st) ELSE
            LET d  == Depth(st)
                s1 == DropLocals(st, d, Len(st.ents), "block_end")
            IN [s1 EXCEPT !.blocks = SubSeq(@, 1, d - 1),
                          !.val.home = IF st.val.ent # 0 /\ @ = d THEN 0 ELSE @]
      [] OTHER -> Bad(st)

MidOps == {"Reset", "PoolReset", "GReset", "Drop", "Spawn", "ExitClosure", "CloseBlock"}

StepUse(st) ==                   \* touch(&v); drop(v);
    IF st.val.ent = 0 \/ st.val.used THEN Bad(st) ELSE
    LET s1 == UseEnt(st, st.val.ent) IN
    [s1 EXCEPT !.val.used = TRUE,
               !.hazard = @ \/ st.val.dead,
               !.why = IF st.val.dead THEN st.val.route ELSE @,
               !.phase = "closing"]

StepEnd(st) ==                   \* end of the function body: remaining locals are dropped in reverse order
    IF Depth(st) # 1 THEN Bad(st) ELSE
    [DropLocals(st, 1, Len(st.ents), "fn_end") EXCEPT !.phase = "done"]

StepConvert(st, s) ==            \* h = 1: Bump, 2: BumpScope; a = method; b = change
    LET owner == IF s.h = 1 THEN "Bump" ELSE "BumpScope"
        w == Weakens(owner, s.a, s.b)
    IN [st EXCEPT !.hazard = w, !.rej = w, !.why = IF w THEN "settings_" \o owner \o "_" \o s.a \o "_" \o s.b ELSE "",
                  !.phase = "closing"]

Step(st, s) ==
    LET s0 == IF s.op \in Openers THEN StepOpen(st, s)
              ELSE IF s.op = "GScope" THEN StepGScope(st, s)
              ELSE IF s.op = "Produce" THEN StepProduce(st, s)
              ELSE IF s.op \in MidOps THEN StepMid(st, s)
              ELSE IF s.op = "Use" THEN StepUse(st)
              ELSE IF s.op = "End" THEN StepEnd(st)
              ELSE IF s.op = "Convert" THEN StepConvert(st, s)
              ELSE Bad(st)
    IN [s0 EXCEPT !.n = st.n + 1]

RECURSIVE RunFrom(_, _, _)
\* TLCEval: operator arguments are lazy in TLC; without forcing them every level re-evaluates the whole prefix
RunFrom(st, seq, i) == IF i > Len(seq) \/ ~st.ok THEN st ELSE RunFrom(TLCEval(Step(st, seq[i])), seq, i + 1)
Run(root, seq) == RunFrom(TLCEval(Init0(root)), seq, 1)

(***************************************************************************)
(* Bounded exploration: which statements are tried next.                   *)
(***************************************************************************)
HandleSet(st) == {j \in 1..Len(st.ents) : IsHandle(st, j) /\ Usable(st, j)}

OpenCandsTop(st) ==
    LET t == TopHandle(st) IN
    IF st.root \in {"pool", "unsendpool"} /\ t = 0
    THEN (IF st.ents[1].moved THEN {} ELSE {St("PoolGet", 1, "", "")})
    ELSE IF t = 0 \/ ~ClaimOK(st, t) THEN {}
    ELSE LET k == st.ents[t].k IN
         (IF k = "bump" THEN {St("RefShr", t, "", ""), St("RefMut", t, "", "")} ELSE {})
    \cup (IF k = "bump" /\ MaxOpen = 1 THEN {St("AsScope", t, "from", ""), St("AsMutScope", t, "from", "")} ELSE {})
    \cup (IF k \in BumpIsh THEN {St("AsScope", t, "", "")} ELSE {})
    \cup (IF k \in {"bump", "refmut"} THEN {St("AsMutScope", t, "", "")} ELSE {})
    \cup (IF k \in MutCap THEN {St("Scoped", t, "scoped", ""), St("Scoped", t, "scoped_aligned", ""),
                                St("Scoped", t, IF st.nopen = 0 THEN "scoped_trait" ELSE "scoped", ""),
                                St("Aligned", t, "", ""), St("Guard", t, "", ""), St("Guard", t, "block", "")}
          ELSE {})
    \cup {St("Claim", t, "", "")}
    \cup (IF k \in {"smut", "sval", "claim", "pguard"} THEN {St("ByValue", t, "", "")} ELSE {})


OpKey(s) == s.op \o ":" \o s.a
AllOpenOps == {"RefShr:", "RefMut:", "AsScope:", "AsScope:from", "AsMutScope:", "AsMutScope:from", "Scoped:scoped",
               "Scoped:scoped_aligned", "Scoped:scoped_trait", "Aligned:", "Guard:", "Guard:block", "Claim:", "ByValue:",
               "PoolGet:"}
\* two-handle interplay: open a frame through a handle that is not the innermost one (the innermost one is then an
\* alias of memory that the new frame will rewind)
OpenCandsWide(st) ==
    LET t == TopHandle(st) IN
    IF ~WideOpen \/ t = 0 THEN {}
    ELSE UNION {{St("Scoped", j, "scoped", ""), St("Guard", j, "", "")} :
                j \in {j \in HandleSet(st) : j # t /\ st.ents[j].k \in MutCap /\ ClaimOK(st, j)
                                              /\ NotLockedByClosure(st, j, "mut")}}
OpenCands(st) == {s \in OpenCandsTop(st) \cup OpenCandsWide(st) : OpKey(s) \in OpenOps}

\* a guard directly after its creation must hand out a scope before anything else can be opened on it
GuardPending(st) == \E g \in 1..Len(st.ents) : st.ents[g].k = "guard" /\ Usable(st, g) /\ st.ents[g].aux = 0
                                               /\ g > TopHandle(st)

PendingScope(st) == {St("GScope", g, "", "") : g \in {g \in 1..Len(st.ents) : st.ents[g].k = "guard" /\ Usable(st, g)
                                                                                 /\ st.ents[g].aux = 0 /\ g > TopHandle(st)}}

LockedFams == {"alloc", "stats", "vec_into_slice"}
ProduceCands(st) ==
    LET fams == IF st.nall <= FullDepth THEN FamsFull \cup FamsRep ELSE FamsRep
        t == TopHandle(st)
    IN \* innermost handle: every family and path; outer ("locked") handles: a few families, written explicitly (p1)
       {St("Produce", t, f, p) : f \in {f \in fams : t # 0 /\ ClaimOK(st, t)}, p \in Paths}
  \cup {St("Produce", h, f, "p1") : h \in {j \in HandleSet(st) : j # t /\ ClaimOK(st, j)}, f \in fams \cap LockedFams}

MidCands(st) ==
    LET d == Depth(st)
        free(j, m) == NotLockedByClosure(st, j, m)
    IN
       {St("Reset", h, a, "") : h \in {j \in HandleSet(st) : st.ents[j].k \in {"bump", "refmut"} /\ free(j, "mut")},
                                a \in {"reset", "reset_to_start", "replace"}}
  \cup {St("PoolReset", 1, a, "") : a \in {a \in {"reset", "reset_to_start", "bumps_clear"} :
                                            st.ents[1].k = "pool" /\ Usable(st, 1) /\ free(1, "mut")}}
  \cup {St("GReset", g, "", "") : g \in {g \in 1..Len(st.ents) : st.ents[g].k = "guard" /\ Usable(st, g) /\ free(g, "mut")}}
  \cup {St("GScope", g, "", "") : g \in {g \in 1..Len(st.ents) : st.ents[g].k = "guard" /\ Usable(st, g) /\ free(g, "mut")}}
  \cup {St("Drop", e, "", "") : e \in {e \in 1..Len(st.ents) : st.ents[e].k \in {"guard", "claim", "pguard", "bump", "pool"}
                                                              /\ Usable(st, e) /\ st.ents[e].blk = d}}
  \cup (IF d = 1 /\ st.ents[1].k = "bump" /\ Usable(st, 1) THEN {St("Spawn", 1, "scoped_move", "")} ELSE {})
  \cup (IF d > 1 /\ st.blocks[d].kind = "closure"
        THEN {St("ExitClosure", 0, "", "")}
             \cup (IF st.val.home = d /\ ~st.val.used THEN {St("ExitClosure", 0, "ret", "")} ELSE {})
        ELSE {})
  \cup (IF d > 1 /\ st.blocks[d].kind = "block" THEN {St("CloseBlock", 0, "", "")} ELSE {})

MidLimit(st) == IF st.val.fam \in FamsRep THEN MaxMid ELSE FullMid

\* a later sub-scope on the innermost handle that does not touch the value (LIFO): `h.scoped(|_| {})`
SubScopeCands(st) ==
    LET t == TopHandle(st) IN
    IF t # 0 /\ st.ents[t].k \in MutCap /\ ClaimOK(st, t) /\ st.nmid + 2 <= MidLimit(st)
    THEN {St("Scoped", t, "scoped", "")} ELSE {}

ClosingCand(st) ==
    LET d == Depth(st) IN
    IF d = 1 THEN St("End", 0, "", "")
    ELSE IF st.blocks[d].kind = "closure" THEN St("ExitClosure", 0, "", "")
    ELSE St("CloseBlock", 0, "", "")

ThreadCands(st) ==
    IF st.root \in {"unsend", "bump"} THEN {St("Spawn", 1, a, "") : a \in {"scoped_move", "static_move", "scoped_refmut"}}
    ELSE IF st.root \in {"unsendpool", "pool"} THEN {St("Spawn", 1, "scoped_share", "")}
    ELSE {}

Cands(st) ==
    IF st.phase = "done" THEN {}
    ELSE IF st.phase = "closing" THEN {ClosingCand(st)}
    ELSE IF st.root = "settings"
         THEN {St("Convert", o, m, c) : o \in {1, 2}, m \in ConvMethods, c \in Changes}
    ELSE IF st.val.ent = 0
         THEN (IF st.root \in {"unsend", "unsendpool"} THEN (IF st.n = 0 THEN ThreadCands(st) ELSE {})
               ELSE IF GuardPending(st) THEN PendingScope(st)
               ELSE (IF st.n = 0 THEN ThreadCands(st) ELSE {})
                    \cup (IF st.nopen < MaxOpen THEN OpenCands(st) ELSE {})
                    \cup ProduceCands(st))
    ELSE IF st.val.dead \/ st.val.ret THEN {St("Use", 0, "", "")}
    ELSE {St("Use", 0, "", "")}
         \cup (IF st.nmid < MidLimit(st) THEN MidCands(st) \cup SubScopeCands(st) ELSE {})

\* bookkeeping of the exploration bounds (not part of the program semantics)
Account(st, s, s1) ==
    [s1 EXCEPT !.nopen = IF s.op \in Openers \ {"PoolGet"} THEN st.nopen + 1 ELSE st.nopen,     \* pool.get() is the pool's way to an arena
               !.nall  = IF s.op \in Openers THEN st.nall + 1 ELSE st.nall,
               !.nmid  = IF st.val.ent # 0 /\ ~st.val.used /\ s.op # "Use" THEN st.nmid + 1 ELSE st.nmid,
               !.phase = IF s.op = "Spawn" /\ st.val.ent = 0 THEN "closing" ELSE s1.phase]

(***************************************************************************)
(* Controls.                                                               *)
(*  A: the same statements with the Use moved in front of the statement    *)
(*     that killed the value (and the value no longer returned from the    *)
(*     closure);                                                           *)
(*  B: the invalidation removed: only the openers the receiver depends on, *)
(*     the producer, the Use, and the forced closing statements.           *)
(* A control must be a well-formed, non-hazardous behaviour that the       *)
(* signature table accepts.                                                *)
(***************************************************************************)
RECURSIVE CloseAll(_, _)
CloseAll(st, acc) ==
    IF st.phase = "done" \/ ~st.ok THEN acc
    ELSE LET c == TLCEval(ClosingCand(st)) IN CloseAll(TLCEval(Step(st, c)), TLCEval(Append(acc, c)))

Prefix(seq, n) == SubSeq(seq, 1, n)
IsClosing(s) == s.op \in {"ExitClosure", "CloseBlock", "End"}

\* drop the forced closing suffix (it is recomputed, because the block structure may change)
RECURSIVE StripClosing(_)
StripClosing(seq) == IF Len(seq) > 0 /\ IsClosing(seq[Len(seq)]) /\ seq[Len(seq)].a # "ret"
                     THEN StripClosing(Prefix(seq, Len(seq) - 1)) ELSE seq

WithClosing(root, seq) ==
    LET st == TLCEval(Run(root, seq)) IN IF st.ok THEN seq \o CloseAll(TLCEval([st EXCEPT !.phase = "closing"]), <<>>) ELSE seq

UseIdx(seq) == CHOOSE i \in 1..Len(seq) : seq[i].op = "Use"

ControlA(root, hist, deadAt) ==
    LET u    == UseIdx(hist)
        kill == [hist[deadAt] EXCEPT !.a = IF hist[deadAt].op = "ExitClosure" THEN "" ELSE @]
        body == Prefix(hist, deadAt - 1) \o <<St("Use", 0, "", "")>> \o <<kill>>
                \o SubSeq(hist, deadAt + 1, u - 1)
    IN WithClosing(root, StripClosing(body))

\* B: keep only the openers the receiver of the producer (syntactically) depends on; entity indices are renumbered.
\* lens[i] = number of entities after statement i.  Backward pass: statement i is kept iff it creates a needed entity;
\* its own receiver then becomes needed.
RECURSIVE BackKeep(_, _, _, _, _)
BackKeep(hist, lens, i, need, keep) ==
    IF i = 0 THEN keep
    ELSE LET lo == IF i = 1 THEN lens[1] - (lens[1] - 1) ELSE lens[i - 1] + 1      \* first entity is the root (not created by a statement)
             cr == (IF i = 1 THEN 2 ELSE lens[i - 1] + 1)..lens[i]
         IN IF cr \cap need # {}
            THEN BackKeep(hist, lens, i - 1, TLCEval(need \cup (IF hist[i].h = 0 THEN {} ELSE {hist[i].h})), TLCEval(keep \cup {i}))
            ELSE BackKeep(hist, lens, i - 1, need, keep)

ControlB(root, hist) ==
    LET p    == CHOOSE i \in 1..Len(hist) : hist[i].op = "Produce"
        lens == TLCEval([i \in 1..(p - 1) |-> Len(Run(root, Prefix(hist, i)).ents)])
        keep == BackKeep(hist, lens, p - 1, {hist[p].h}, {})
        creates(i) == (IF i = 1 THEN 2 ELSE lens[i - 1] + 1)..lens[i]
        removedEnts == TLCEval(UNION {creates(i) : i \in (1..(p - 1)) \ keep})
        remap(j) == j - Cardinality({r \in removedEnts : r < j})
        kept == SelectSeq([i \in 1..(p - 1) |-> [s |-> hist[i], i |-> i]], LAMBDA x : x.i \in keep)
        pre  == TLCEval([k \in 1..Len(kept) |-> [kept[k].s EXCEPT !.h = IF @ = 0 THEN 0 ELSE remap(@)]])
        prod == [hist[p] EXCEPT !.h = remap(@)]
    IN WithClosing(root, pre \o <<prod, St("Use", 0, "", "")>>)

GoodControl(root, c) ==
    Len(c) > 0 /\ LET st == TLCEval(Run(root, c)) IN st.ok /\ st.phase = "done" /\ ~st.hazard /\ ~st.rej

ControlOf(root, hist, st) ==
    IF root \in {"unsend", "unsendpool"} THEN [kind |-> "send", root |-> IF root = "unsend" THEN "bump" ELSE "pool", prog |-> hist]
    ELSE IF root = "settings" THEN [kind |-> "identity", root |-> root,
                                    prog |-> <<[hist[1] EXCEPT !.b = "identity"], St("End", 0, "", "")>>]
    ELSE IF st.val.ent = 0 THEN [kind |-> "none", root |-> root, prog |-> <<>>]
    ELSE LET a == ControlA(root, hist, st.val.deadAt) IN
         IF GoodControl(root, a) THEN [kind |-> "use_before_invalidation", root |-> root, prog |-> a]
         ELSE LET b == ControlB(root, hist) IN
              IF GoodControl(root, b) THEN [kind |-> "invalidation_removed", root |-> root, prog |-> b]
              ELSE [kind |-> "none", root |-> root, prog |-> <<>>]

(***************************************************************************)
(* The state machine                                                       *)
(***************************************************************************)
VARIABLES st, hist
vars == <<st, hist>>

Init == \E r \in Roots : st = Init0(r) /\ hist = <<>>

Next == \E s \in Cands(st) :
            LET s1 == Step(st, s) IN
            /\ s1.ok
            /\ st' = Account(st, s, s1)
            /\ hist' = Append(hist, s)

Spec == Init /\ [][Next]_vars

Done == st.phase = "done"

\* Design-level statement: the signature table rejects every hazardous behaviour.
\* (Not an invariant of the unchanged crate: see SigHole in MC_Lifetimes.)
SigSound == Done /\ st.hazard => st.rej
=============================================================================
