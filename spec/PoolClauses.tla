----------------------------- MODULE PoolClauses -----------------------------
EXTENDS Naturals, Sequences, FiniteSets

NoThread == 0
NoArena  == 0

Range(s) == {s[i] : i \in DOMAIN s}
Max(a, b) == IF a > b THEN a ELSE b

(***************************************************************************)
(* The C19 contract clauses as predicates over plain values, so that the   *)
(* same definitions serve as invariants of this model and as the oracle    *)
(* applied to observed executions (PoolTrace.tla, PoolContract.tla).       *)
(***************************************************************************)
\* no two owners (hence no two live guards) refer to the same arena
ExclusiveC(h)            == \A t, u \in DOMAIN h : (t # u /\ h[t] # NoArena) => h[t] # h[u]
\* an arena in a thread's hands is not on the idle stack at the same time, and is there at most once
IdleDisjointC(h, idl)    == /\ \A t \in DOMAIN h : h[t] = NoArena \/ h[t] \notin Range(idl)
                            /\ \A i, j \in DOMAIN idl : i # j => idl[i] # idl[j]
\* arenas (created or being created) never outnumber the peak number of simultaneous owners
ReuseC(ncreated, pk)     == ncreated <= pk
\* at the instant an arena is created no arena is idle (given: the number of idle arenas, or a lower bound of it)
NoIdleAtCreationC(nidle) == nidle <= 0
\* every block allocated through any guard since the arena's last reset is still there
DataIntactC(wr, blk, ch) == \A w \in wr : w[1] \in DOMAIN blk /\ w[2] \in blk[w[1]] /\ ch[w[1]] >= 1

=============================================================================
