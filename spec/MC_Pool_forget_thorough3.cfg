\* thorough tier, leaked guards: 3 threads x 1 round per phase x 2 phases; a guard may be passed to mem::forget
SPECIFICATION Spec
CONSTANTS
    Threads = {t1, t2, t3}
    MaxRounds = 1
    MaxChunks = 1
    MaxPoolOps = 1
    CreateUnderLock = TRUE
    MayFail = FALSE
    MayForget = TRUE
    MayPanic = FALSE
SYMMETRY Symm
INVARIANTS TypeOK MutexOK OwnerOK Exclusive IdleDisjoint Conservation ReuseOK ReuseTight DataIntact
PROPERTIES DecideCreateOnlyWhenIdleEmpty CreatedOnlyWhenIdleEmpty BlocksOnlyForgottenByPoolOps ResetRewindsAll DropReleasesAll LeakedStayValid
