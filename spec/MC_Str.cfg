\* model checking of Str.tla, quick bounds (the thorough bounds and the behaviour-emission configurations are generated by lib/checks_str.py from the same constants)
INIT Init
NEXT Next
VIEW view
CHECK_DEADLOCK FALSE
CONSTANTS
    Alphabet <- AlphabetDef
    MaxChars = 3
    MaxOps = 3
    Texts <- TextsSmall
    CTexts <- CTextsDef
    Lits <- LitsDef
    Kinds <- AllKinds
    FixedCaps <- CapsDef
    StartTexts <- AllStrings
    CtorNames <- AllCtors
    OpNames <- AllOps
    MaxSegs = 2
    MaxPieces = 2
    InclSet <- BothIncl
    Apis <- BothApis
    DrainF = 2
    DrainB = 1
    OutFilter <- AllOuts
    CheckProps = TRUE
    SampleK = 0
INVARIANTS
    TypeOK
    WholeChars
    CapOk
    BoundaryAgree
