\* model checking of Str.tla (quick bounds); lib/checks_str.py derives the other configurations from this file
INIT Init
NEXT Next
VIEW view
CHECK_DEADLOCK FALSE
CONSTANTS
    Alphabet <- AlphabetDef
    MaxChars = 3
    MaxOps = 3
    Texts <- TextsSmall
    Lits <- LitsDef
    Kinds <- AllKinds
    FixedCaps <- CapsDef
    StartTexts <- AllStrings
    CtorNames <- AllCtors
    OpNames <- AllOps
    MaxSegs = 2
    MaxPieces = 2
    InclSet <- BothIncl
    Apis <- BothApis
    DrainF = 2
    DrainB = 1
    CheckProps = TRUE
    SampleK = 0
INVARIANTS
    TypeOK
    WholeChars
    CapOk
    BoundaryAgree
