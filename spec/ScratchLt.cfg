SPECIFICATION Spec
CONSTANTS
    Roots <- ArenaRoots
    MaxOpen = 3
    MaxMid = 1
    FamsFull <- NoFams
    FamsRep <- AliasFams
    FullDepth = 0
    FullMid = 1
    OpenOps <- AliasOpenOps
    WideOpen = TRUE
    Paths <- P1Only
