SPECIFICATION PSpec
CONSTANTS
    Threads = {1, 2}
    MaxRounds = 2
    MaxChunks = 100
    MaxPoolOps = 0
    CreateUnderLock = TRUE
    MayFail = TRUE
    MayForget = FALSE
INVARIANT Emit
