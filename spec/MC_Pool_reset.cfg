\* quick tier, pool-wide operations: 2 threads x 2 rounds per phase x 2 phases (one PoolReset / PoolResetToStart), chunk growth
SPECIFICATION Spec
CONSTANTS
    Threads = {t1, t2}
    MaxRounds = 2
    MaxChunks = 2
    MaxPoolOps = 1
    CreateUnderLock = TRUE
    MayFail = FALSE
    MayForget = FALSE
    MayPanic = FALSE
SYMMETRY Symm
INVARIANTS TypeOK MutexOK OwnerOK Exclusive IdleDisjoint Conservation ReuseOK ReuseTight DataIntact
PROPERTIES DecideCreateOnlyWhenIdleEmpty CreatedOnlyWhenIdleEmpty BlocksOnlyForgottenByPoolOps ResetRewindsAll DropReleasesAll LeakedStayValid
