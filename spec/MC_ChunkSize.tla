--------------------------- MODULE MC_ChunkSize ---------------------------
(***************************************************************************)
(* Design-level check of C12 on a small word: for every configuration      *)
(* (direction, header layout, minimum chunk size), every layout of the     *)
(* grid and every granted size, the computed chunk size satisfies SizeOk,  *)
(* GrowthOk and FitsFresh, or is None.  One seed state per configuration;  *)
(* the universally quantified check runs when a worker expands the seed.   *)
(***************************************************************************)
EXTENDS ChunkSize

CONSTANT Quick       \* TRUE: reduced grid for the quick tier
CONSTANT MaxAlK      \* largest alignment exponent of the grid (the FitsFresh check enumerates align/ha base addresses)
VARIABLES phase, seed, bad

\* header layouts of ChunkHeader<A> for base allocator values of size 0..256 and alignment 1..256
HdrLayouts == IF Quick THEN { <<32, 16>>, <<48, 16>>, <<64, 32>>, <<128, 64>>, <<288, 32>>, <<512, 256>> } ELSE
              { <<32, 16>>, <<48, 16>>, <<64, 16>>, <<96, 16>>, <<288, 16>>, <<64, 32>>, <<96, 32>>, <<288, 32>>,
                <<128, 64>>, <<192, 64>>, <<320, 64>>, <<256, 128>>, <<384, 128>>, <<512, 256>> }
Cfgs == {[up |-> u, hs |-> h[1], ha |-> h[2]] : u \in BOOLEAN, h \in HdrLayouts}
MCSs == IF Quick THEN {0, 512} ELSE {0, 512, 4096}
Seeds == Cfgs \X MCSs

AlignsG == {2^k : k \in 0..MaxAlK}
SizesG(al) == {s \in (0..130) \cup {200, 255, 256, 257, 400, 496, 497, 511, 512, 513, 1000, 4000, 4064, 4080, 4096, 5000,
                                     8192, 10000, 2^(W-2), 2^(W-1) - 4200, 2^(W-1) - 300, 2^(W-1) - 100}
                   \cup {2^(W-1) - al - d : d \in 0..40}
               : s >= 0 /\ s <= 2^(W-1) - al}
Extras == IF Quick THEN {0, 1, 16, 40} ELSE {0, 1, 15, 16, 40, 100, 4096}
HintsG == (0..700) \cup {2^k + d : k \in 9..(W-1), d \in -17..17} \cup {3*4096 + d : d \in -17..17}
          \cup {MaxU - d : d \in 0..600} \cup {IsizeMax - d : d \in 0..300} \cup {IsizeMax + d : d \in 0..300}
PrevSizes == {48, 64, 112, 240, 496, 1008, 4080, 8176, 2^(W-2) - 16, 2^(W-1) - 16, 2^(W-1) + 4080}

\* counterexamples for a seed
BadCap(c, mcs) ==
    {<<sz, al, x>> \in {<<sz, al, x>> \in (0..(2^(W-1))) \X AlignsG \X Extras : sz \in SizesG(al)} :
        LET size == FromCapacity(c, mcs, sz, al)
            g    == AlignSize(c, size + x)
        IN ~( size = NoneV
              \/ ~LayoutOk(c, size)            \* reported as capacity overflow by ChunkSize::layout / NonDummyChunk::new
              \/ /\ SizeOk(c, size, sz)
                 /\ size >= mcs - OverheadSize
                 /\ g >= size                   \* aligning the granted size down never goes below the request
                 /\ SizeOk(c, g, sz)
                 /\ FitsFresh(c, g, sz, al) )}

BadHint(c, mcs) ==
    {h \in HintsG :
        LET size == CalcSize(c, mcs, h)
        IN ~( size = NoneV \/ (SizeOk(c, size, 0) /\ GrowthOk(h, size) /\ size <= MaxU) )}

BadAppend(c, mcs) ==
    {<<p, sz, al>> \in {<<p, sz, al>> \in PrevSizes \X {0, 1, 17, 100, 512, 5000, 2^(W-2)} \X {1, 8, 16, 64, 4096} :
                          sz <= 2^(W-1) - al} :
        LET size == AppendSize(c, mcs, p, sz, al)
        IN ~( size = NoneV \/ ~LayoutOk(c, size)
              \/ (size >= 2 * p - OverheadSize /\ SizeOk(c, size, sz) /\ FitsFresh(c, size, sz, al)) )}

Init == phase = "start" /\ seed = <<>> /\ bad = <<{}, {}, {}>>
Next ==
    \/ /\ phase = "start"
       /\ \E s \in Seeds : seed' = s /\ phase' = "seed" /\ bad' = bad
    \/ /\ phase = "seed"
       /\ bad' = <<BadCap(seed[1], seed[2]), BadHint(seed[1], seed[2]), BadAppend(seed[1], seed[2])>>
       /\ phase' = "done"
       /\ UNCHANGED seed
Spec == Init /\ [][Next]_<<phase, seed, bad>>

ChunkSizeMeetsContract == bad = <<{}, {}, {}>>
=============================================================================
