------------------------------- MODULE VecObs -------------------------------
(***************************************************************************)
(* Observation checking for the vector-like collections (C06, C08, C16).   *)
(*                                                                         *)
(* Every record of IOEnv.OBS is one behaviour of Vec.tla executed by       *)
(* harness/coll on one instantiation (container kind x element shape x     *)
(* bump direction x minimum alignment), or on std::vec::Vec (std = TRUE).  *)
(* A record carries, for every step, the model's expectation `e` (copied   *)
(* from the behaviour) and the observation `o`.  This module is the        *)
(* oracle: it evaluates the CONTRACT of the three properties on every      *)
(* step.  It only uses the model for (a) the expected values of C08 (the   *)
(* property demands equality with the std-validated reference, so there is *)
(* no drift layer for un-injected steps), (b) which ids left the drop      *)
(* obligation through a leak route, (c) the capacity promise.              *)
(*                                                                         *)
(*   o.cs[i] = <<kind, ids (model order), len, cap (-2 = usize::MAX), buf,  *)
(*               start address (relative; -2 dangling, -1 unknown)>>        *)
(*                                                                         *)
(* Classification per record:                                              *)
(*   BAD06 / BAD08 / BAD16  a contract clause of that property failed      *)
(*   DRIFT   the code differs from the implementation-shaped model (state  *)
(*           after an injected panic, drop timing, exact capacity split)   *)
(*           while every contract clause holds                             *)
(*   BADSTD  std::vec::Vec disagrees with Vec.tla: a SPECIFICATION bug     *)
(*   UNSUP   the harness cannot carry an emitted operation: tool error     *)
(***************************************************************************)
EXTENDS Integers, Sequences, FiniteSets, TLC, Json, IOUtils

VARIABLE done


Range(s)    == {s[i] : i \in 1..Len(s)}
NoDup(s)    == \A i, j \in 1..Len(s) : i # j => s[i] # s[j]
Count(s, x) == Cardinality({i \in 1..Len(s) : s[i] = x})
RECURSIVE Flat(_)
Flat(ss)    == IF ss = <<>> THEN <<>> ELSE Head(ss) \o Flat(Tail(ss))
RECURSIVE SumSeq(_)
SumSeq(s)   == IF s = <<>> THEN 0 ELSE Head(s) + SumSeq(Tail(s))

Z(r)   == r.shape \in {"ez", "std-ez"}
N(r)   == Len(r.steps)
O(r, t) == r.steps[t].o
NSlots(r) == Len(O(r, 1).cs)
Slots(r)  == 1..NSlots(r)

\* expectation of the initial step: the primary container holds ids 1..n in model order
InitExp(r) ==
    LET k == r.cfg.kind  n == r.cfg.n  sp == r.cfg.spare IN
    [out |-> "ok", ret |-> <<>>, num |-> <<>>, cl |-> <<>>, dr |-> <<>>, lk |-> <<>>, lossy |-> FALSE, inv |-> <<1>>, sp |-> FALSE, st |-> FALSE,
     held |-> <<>>,
     cs |-> [i \in Slots(r) |->
                IF i = 1 THEN [k |-> k, v |-> [x \in 1..n |-> x],
                               cap |-> IF k = "B" THEN n ELSE IF r.cfg.zst THEN -2 ELSE IF k = "F" THEN n + sp ELSE -1,
                               pr |-> IF k = "B" THEN 0 ELSE n + sp]
                ELSE [k |-> "-", v |-> <<>>, cap |-> 0, pr |-> 0]]]
E(r, t) == IF t = 1 THEN InitExp(r) ELSE r.steps[t].e
Op(r, t) == r.steps[t].op

-----------------------------------------------------------------------------
(* comparison with the model *)
ContEq(r, oc, ec) == oc[1] = ec.k /\ oc[3] = Len(ec.v) /\ (~Z(r) => oc[2] = ec.v)
HeldEq(r, t) == IF Z(r) THEN Len(O(r, t).held) = Len(E(r, t).held) ELSE Range(O(r, t).held) = Range(E(r, t).held)
\* the model predicts "full" from the exact capacity of a fixed vector: when that differs (e.g. another, equally valid,
\* distribution of the spare capacity by split_off) the model's later expectations are void
FixedCapEq(r, oc, ec) == (~r.std /\ ec.k = "F" /\ ec.cap >= 0) => oc[4] = ec.cap
StateEq(r, t) == (\A i \in Slots(r) : ContEq(r, O(r, t).cs[i], E(r, t).cs[i]) /\ FixedCapEq(r, O(r, t).cs[i], E(r, t).cs[i]))
                 /\ HeldEq(r, t)
\* per-record context, computed once: cx.sy[t] = the observed state agreed with the model after every step up to t, ...
Ctx(r) ==
    LET n == Len(r.steps)
        se == TLCEval([t \in 1..n |-> StateEq(r, t)])
    IN TLCEval([sy  |-> [t \in 0..n |-> \A u \in 1..t : se[u]],
                dru |-> [t \in 1..n |-> Flat([u \in 1..t |-> r.steps[u].o.dr])],
                cru |-> [t \in 1..n |-> Flat([u \in 1..t |-> r.steps[u].o.cr])],
                lku |-> [t \in 1..n |-> Flat([u \in 1..t |-> E(r, u).lk])],
                lsy |-> [t \in 1..n |-> \E u \in 1..t : E(r, u).lossy],
                \* the model's leak sets are usable: every leak-route step so far started from a state that agreed with the model
                lkok |-> [t \in 1..n |-> \A u \in 2..t :
                            (E(r, u).lk # <<>> \/ r.steps[u].op \in {"leak", "forget"} \/ r.steps[u].s = "forget")
                                => \A w \in 1..(u - 1) : se[w]]])

OutEq(r, t) ==
    LET o == O(r, t)  e == E(r, t) IN
    \/ e.out = "ok" /\ o.out = "ok"
    \/ e.out = "panic" /\ o.out = "panic" /\ ~o.injp
    \/ e.out = "inj" /\ o.out = "panic" /\ o.injp
RetEq(r, t) ==
    LET o == O(r, t)  e == E(r, t) IN
    /\ IF Z(r) THEN Len(o.ret) = Len(e.ret) ELSE o.ret = e.ret
    /\ e.num # <<>> => o.num = e.num
\* every clone was made from the element the reference clones (zero sized elements have no identity)
CloneEq(r, t) == Z(r) \/ Range(O(r, t).cl) = Range(E(r, t).cl)

-----------------------------------------------------------------------------
(* C08: behaves like the (std-validated) reference; capacity promises *)
InPlaceOps == {"push", "push_with", "insert", "remove", "swap_remove", "pop", "pop_if", "truncate", "clear", "resize",
               "resize_with", "extend_from_slice_clone", "extend_from_within_clone", "extend", "append", "append_slot",
               "reserve", "reserve_exact", "retain", "dedup", "dedup_by", "dedup_by_key", "drain", "extract_if", "splice",
               "observe"}
CapGe(cap, n) == cap = -2 \/ cap >= n
CapClauses(r, t) ==
    LET o == O(r, t)  e == E(r, t) IN
    {<<t, "cap-below-len", i>> : i \in {i \in Slots(r) : o.cs[i][1] # "-" /\ ~CapGe(o.cs[i][4], o.cs[i][3])}}
    \cup {<<t, "cap-below-promise", i>> : i \in {i \in Slots(r) : o.cs[i][1] = e.cs[i].k /\ o.cs[i][1] \in {"F", "V", "M", "R"}
                                                              /\ ~CapGe(o.cs[i][4], e.cs[i].pr)}}
    \cup {<<t, "zst-cap-not-unlimited", i>> : i \in {i \in Slots(r) : Z(r) /\ o.cs[i][1] \in {"F", "V", "M", "R"} /\ o.cs[i][4] # -2}}
    \cup {<<t, "sized-cap-unlimited", i>> : i \in {i \in Slots(r) : ~Z(r) /\ o.cs[i][1] # "-" /\ o.cs[i][4] = -2}}

\* buffer stability of the target slot (needs the previous observation)
MoveClauses(r, t) ==
    IF t = 1 \/ r.steps[t].c = 0 THEN {}
    ELSE LET c == r.steps[t].c  o == O(r, t)  p == O(r, t - 1)  e == E(r, t) IN
         IF c > NSlots(r) \/ p.cs[c][1] = "-" \/ o.cs[c][1] # p.cs[c][1] THEN {}
         ELSE (IF e.st /\ o.cs[c][5] # p.cs[c][5] THEN {<<t, "moved-while-promise-suffices", c>>} ELSE {})
          \cup (IF p.cs[c][1] = "F" /\ Op(r, t) \in InPlaceOps /\ o.cs[c][5] # p.cs[c][5] THEN {<<t, "fixed-vector-moved", c>>} ELSE {})
          \cup (IF p.cs[c][1] = "F" /\ Op(r, t) \in InPlaceOps /\ o.cs[c][4] # p.cs[c][4] THEN {<<t, "fixed-capacity-changed", c>>} ELSE {})
          \cup (IF p.cs[c][1] = "F" /\ ~Z(r) /\ Op(r, t) \in {"push", "push_with", "insert"} /\ p.cs[c][3] = p.cs[c][4]
                    /\ o.out = "ok" THEN {<<t, "full-fixed-vector-accepted", c>>} ELSE {})
\* merge(a, b): whether the two parts are contiguous is decided by the OBSERVED addresses (the model's idea of where
\* split_off puts the parts is implementation-shaped).  "unknown" when an address could not be related.
MergeAdj(r, t) ==
    LET p == O(r, t - 1)  a == p.cs[r.steps[t].c]  b == p.cs[r.steps[t].d] IN
    IF Z(r) THEN "yes"
    ELSE IF a[6] = -1 \/ b[6] = -1 THEN "unknown"
    ELSE IF a[6] = -2 \/ b[6] = -2 THEN (IF a[6] = -2 /\ b[6] = -2 /\ a[3] = 0 THEN "yes" ELSE "no")
    ELSE IF a[6] + a[3] * r.esz = b[6] THEN "yes" ELSE "no"
MergeClauses(r, t) ==
    LET o == O(r, t)  p == O(r, t - 1)  c == r.steps[t].c  d == r.steps[t].d  adj == MergeAdj(r, t) IN
    IF adj = "unknown" THEN {}
    ELSE (IF (adj = "yes") = (o.out = "ok") /\ (o.out = "ok" \/ (o.out = "panic" /\ ~o.injp)) THEN {} ELSE {<<t, "merge-outcome", 0>>})
         \cup (IF o.out = "ok" /\ ~(o.cs[c][1] = "B" /\ o.cs[d][1] = "-" /\ o.cs[c][3] = p.cs[c][3] + p.cs[d][3]
                                  /\ (~Z(r) => o.cs[c][2] = p.cs[c][2] \o p.cs[d][2]))
               THEN {<<t, "merge-does-not-restore-the-whole", 0>>} ELSE {})
         \cup (IF o.out = "panic" /\ ~(o.cs[c][1] = "-" /\ o.cs[d][1] = "-") THEN {<<t, "merge-operands-survive-panic", 0>>} ELSE {})
ValueClauses(r, t) ==
    LET o == O(r, t)  e == E(r, t) IN
    IF Op(r, t) = "merge" /\ ~r.std THEN MergeClauses(r, t)
    ELSE
    (IF OutEq(r, t) THEN {} ELSE {<<t, "outcome", 0>>})
    \cup (IF RetEq(r, t) THEN {} ELSE {<<t, "returned-values", 0>>})
    \cup (IF CloneEq(r, t) THEN {} ELSE {<<t, "clone-sources", 0>>})
    \cup {<<t, "contents", i>> : i \in {i \in Slots(r) : ~ContEq(r, o.cs[i], e.cs[i])}}
    \cup (IF HeldEq(r, t) THEN {} ELSE {<<t, "caller-values", 0>>})

\* Steps whose pre-state agreed with the model and that are not injected: the property demands equality
Strict(r, cx, t) == cx.sy[t - 1] /\ E(r, t).out # "inj"
Fail08(r, cx) ==
    IF r.crash THEN {<<N(r), "crash", 0>>}
    ELSE UNION {(IF Strict(r, cx, t) THEN ValueClauses(r, t) \cup MoveClauses(r, t) ELSE {}) \cup CapClauses(r, t) : t \in 1..N(r)}

-----------------------------------------------------------------------------
(* C06: every value dropped exactly once *)
Owned(r, t)       == Flat([i \in Slots(r) |-> O(r, t).cs[i][2]]) \o O(r, t).held
OwnedCount(r, t)  == SumSeq([i \in Slots(r) |-> O(r, t).cs[i][3]]) + Len(O(r, t).held)
\* after the model and the code went different ways the model's leak set is no longer meaningful
Complete(r) == Op(r, N(r)) = "drop_held" /\ ~r.unsup /\ ~r.stopped

\* "Nothing is lost" is stated on the OBSERVATIONS: every id the harness saw being created is owned by a container or
\* the caller, was dropped, or went through a leak route (the only thing taken from the model, see lkok).  It does not
\* depend on the code agreeing with the model after an injected panic.
OwnClauses(r, cx, t) ==
    LET o == O(r, t) IN
    (IF o.tomb THEN {<<t, "dead-element-seen", 0>>} ELSE {})
    \cup (IF Z(r)
          THEN (IF o.zd > o.zc THEN {<<t, "more-drops-than-values", 0>>} ELSE {})
               \cup (IF cx.lkok[t] /\ ~cx.lsy[t] /\ o.zc - o.zd - Len(cx.lku[t]) # OwnedCount(r, t)
                     THEN {<<t, "count-not-conserved", 0>>} ELSE {})
          ELSE {<<t, "dropped-twice", x>> : x \in {x \in Range(o.dr) : Count(cx.dru[t], x) > 1}}
               \cup (IF NoDup(Owned(r, t)) THEN {} ELSE {<<t, "two-owners", 0>>})
               \cup {<<t, "owner-holds-dropped-value", x>> : x \in Range(Owned(r, t)) \cap Range(cx.dru[t])}
               \cup (IF cx.lkok[t] /\ ~cx.lsy[t]
                     THEN {<<t, "value-lost", x>> : x \in Range(cx.cru[t]) \
                               (Range(Owned(r, t)) \cup Range(cx.dru[t]) \cup Range(cx.lku[t]))}
                     ELSE {}))
\* End of life: when the behaviour ran to its end every created id was dropped exactly once, unless it took a leak route
\* or is still owned by a container the behaviour did not drop (possible only after the code left the model's path).
EndClauses(r, cx) ==
    IF ~Complete(r) THEN {}
    ELSE LET t == N(r)  o == O(r, t) IN
         IF cx.lsy[t] \/ ~cx.lkok[t] THEN {}   \* a Drop implementation panicked: values may be lost, never dropped twice
         ELSE IF Z(r)
         THEN (IF o.zd # o.zc - Len(cx.lku[t]) - OwnedCount(r, t) THEN {<<t, "not-exactly-once-at-end", 0>>} ELSE {})
         ELSE {<<t, "not-exactly-once-at-end", x>> :
                    x \in {x \in Range(cx.cru[t]) \ (Range(cx.lku[t]) \cup Range(Owned(r, t))) : Count(cx.dru[t], x) # 1}}
              \cup {<<t, "leaked-value-dropped", x>> : x \in Range(cx.lku[t]) \cap Range(cx.dru[t])}
Fail06(r, cx) ==
    IF r.crash THEN {<<N(r), "crash", 0>>}
    ELSE UNION {OwnClauses(r, cx, t) : t \in 1..N(r)} \cup EndClauses(r, cx)

-----------------------------------------------------------------------------
(* C16: splitting and merging partitions exactly; parts are independent *)
SplitOps == {"split_off", "split_at", "split_first", "split_last", "split_off_first", "split_off_last", "partition",
             "split_at_spare", "merge", "flatten", "map_in_place", "map", "into_inner", "one_into_slice"}
Involved(r, t) == Range(E(r, t).inv) \cup ({r.steps[t].c, r.steps[t].d} \ {0})
IdsOf(r, t, S) == Flat([i \in Slots(r) |-> IF i \in S THEN O(r, t).cs[i][2] ELSE <<>>])
LenOf(r, t, S) == SumSeq([i \in Slots(r) |-> IF i \in S THEN O(r, t).cs[i][3] ELSE 0])
CapOf(r, t, S) == SumSeq([i \in Slots(r) |-> IF i \in S THEN O(r, t).cs[i][4] ELSE 0])
\* memory owned by a container as it reports it: [start, start + capacity * element size) (owned slices, fixed and growable
\* vectors, boxes; sized elements; -1 / -2 = unknown / dangling start, negative capacities = unknown / unlimited)
OwnsMem(r, c) == ~Z(r) /\ c[1] \in {"B", "F", "V", "E"} /\ c[4] > 0 /\ c[6] >= 0
Overlap(r, c1, c2) == c1[6] < c2[6] + c2[4] * r.esz /\ c2[6] < c1[6] + c1[4] * r.esz
PartClauses(r, cx, t) ==
    IF t = 1 THEN {}
    ELSE LET o == O(r, t)  e == E(r, t)  S == Involved(r, t) IN
         \* independence: a slot that the operation does not involve is untouched (contents, length, capacity, buffer)
         {<<t, "other-part-changed", i>> : i \in {i \in Slots(r) \ S : o.cs[i] # O(r, t - 1).cs[i]}}
         \* independence at the memory level: the capacity regions of two live containers never share a byte
         \* (otherwise growing one part within its capacity overwrites the other)
         \cup {<<t, "capacity-regions-overlap", i>> : i \in {i \in Slots(r) : OwnsMem(r, o.cs[i]) /\
                    \E j \in Slots(r) : j # i /\ OwnsMem(r, o.cs[j]) /\ Overlap(r, o.cs[i], o.cs[j])}}
         \cup (IF (e.sp \/ (Op(r, t) = "merge" /\ cx.sy[t - 1])) /\ cx.sy[t - 1] /\ o.out = "ok"
               THEN (IF Z(r) THEN (IF LenOf(r, t, S) = LenOf(r, t - 1, S) THEN {} ELSE {<<t, "count-not-preserved", 0>>})
                     ELSE {<<t, "elements-not-partitioned", x>> :
                               x \in {x \in Range(IdsOf(r, t, S)) \cup Range(IdsOf(r, t - 1, S)) :
                                          Count(IdsOf(r, t, S), x) # Count(IdsOf(r, t - 1, S), x)}})
                    \cup (IF o.dr # <<>> THEN {<<t, "split-dropped-values", 0>>} ELSE {})
                    \cup (IF ~Z(r) /\ CapOf(r, t, S) # CapOf(r, t - 1, S) THEN {<<t, "capacities-do-not-add-up", 0>>} ELSE {})
               ELSE {})
         \cup (IF Op(r, t) \in SplitOps /\ Strict(r, cx, t)
               THEN IF Op(r, t) = "merge" THEN MergeClauses(r, t)
                    ELSE (IF OutEq(r, t) THEN {} ELSE {<<t, "outcome", 0>>})
                         \cup (IF RetEq(r, t) THEN {} ELSE {<<t, "returned-values", 0>>})
                         \cup {<<t, "order-or-contents", i>> : i \in {i \in Slots(r) : ~ContEq(r, o.cs[i], e.cs[i])}}
               ELSE {})
Fail16(r, cx) ==
    IF r.crash THEN {<<N(r), "crash", 0>>}
    ELSE UNION {PartClauses(r, cx, t) : t \in 1..N(r)}

-----------------------------------------------------------------------------
(* drift: the implementation-shaped part of the model *)
DriftClauses(r, cx, t) ==
    LET o == O(r, t)  e == E(r, t) IN
    (IF cx.sy[t - 1] /\ e.out = "inj"
     THEN (IF OutEq(r, t) THEN {} ELSE {<<t, "injected-callback-not-reached", 0>>})
          \cup (IF StateEq(r, t) THEN {} ELSE {<<t, "state-after-injected-panic", 0>>})
          \cup (IF RetEq(r, t) THEN {} ELSE {<<t, "returned-after-injected-panic", 0>>})
     ELSE {})
    \cup (IF cx.sy[t] /\ (IF Z(r) THEN Len(o.dr) # Len(e.dr) ELSE Range(o.dr) # Range(e.dr))
          THEN {<<t, "dropped-in-another-step", 0>>} ELSE {})
    \cup (IF cx.sy[t] /\ o.xcb > 0 THEN {<<t, "more-callbacks-than-modelled", 0>>} ELSE {})
    \cup (IF cx.sy[t - 1] /\ e.out # "inj" /\ ~StateEq(r, t) THEN {<<t, "state-differs-from-model", 0>>} ELSE {})
    \cup (IF cx.sy[t - 1] /\ Op(r, t) = "merge" /\ ~OutEq(r, t) THEN {<<t, "merge-adjacency-differs-from-model", 0>>} ELSE {})
    \cup {<<t, "exact-capacity", i>> : i \in {i \in Slots(r) : o.cs[i][1] = e.cs[i].k /\ o.cs[i][1] # "F" /\ e.cs[i].cap >= 0
                                                          /\ cx.sy[t] /\ o.cs[i][4] # e.cs[i].cap}}
    \cup (IF t > 1 /\ r.steps[t].c > 0 /\ r.steps[t].c <= NSlots(r) /\ Op(r, t) \in InPlaceOps
          THEN LET c == r.steps[t].c  p == O(r, t - 1) IN
               IF p.cs[c][1] # "-" /\ o.cs[c][1] = p.cs[c][1] /\ CapGe(p.cs[c][4], o.cs[c][3]) /\ Op(r, t) \notin {"reserve", "reserve_exact", "extend", "splice"}
                  /\ o.out = "ok" /\ e.out = "ok"
                  /\ o.cs[c][5] # p.cs[c][5]
               THEN {<<t, "moved-although-old-capacity-sufficed", c>>} ELSE {}
          ELSE {})
Drift(r, cx) == IF r.crash THEN {} ELSE UNION {DriftClauses(r, cx, t) : t \in 1..N(r)}

\* std::vec::Vec against the model: values only
FailStd(r, cx) == UNION {(IF cx.sy[t - 1] THEN ValueClauses(r, t) ELSE {})
                     \cup (IF cx.sy[t] /\ (IF Z(r) THEN Len(O(r, t).dr) # Len(E(r, t).dr) ELSE Range(O(r, t).dr) # Range(E(r, t).dr))
                           THEN {<<t, "std-dropped-set", 0>>} ELSE {}) : t \in 1..N(r)}
                \cup Fail06(r, cx)

-----------------------------------------------------------------------------
Classify(r) ==
    LET cx == TLCEval(Ctx(r)) IN
    IF r.std THEN [std |-> TRUE, unsup |-> r.unsup, f06 |-> {}, f08 |-> {}, f16 |-> {}, fdr |-> {}, fst |-> FailStd(r, cx)]
    ELSE [std |-> FALSE, unsup |-> r.unsup, f06 |-> Fail06(r, cx), f08 |-> Fail08(r, cx), f16 |-> Fail16(r, cx),
          fdr |-> Drift(r, cx), fst |-> {}]
\* TLC re-evaluates definitions at every use (and keeps function constructors lazy): the records are parsed and
\* classified exactly once by passing them through operator PARAMETERS (call by need) and TLCEval.
ClassifyAll(rec) == TLCEval([i \in 1..Len(rec) |-> TLCEval(Classify(rec[i]))])

Why(tag, S, cl, F(_)) == \A i \in S : (Cardinality({j \in S : j < i}) < 200) => PrintT(<<"WHY", tag, i, F(cl[i])>>)
Report(cl) ==
    LET all == 1..Len(cl) IN
    /\ PrintT(<<"CHECKED", Len(cl)>>)
    /\ PrintT(<<"BAD06", {i \in all : cl[i].f06 # {}}>>)
    /\ PrintT(<<"BAD08", {i \in all : cl[i].f08 # {}}>>)
    /\ PrintT(<<"BAD16", {i \in all : cl[i].f16 # {}}>>)
    /\ PrintT(<<"DRIFT", {i \in all : cl[i].fdr # {}}>>)
    /\ PrintT(<<"BADSTD", {i \in all : cl[i].fst # {}}>>)
    /\ PrintT(<<"UNSUP", {i \in all : cl[i].unsup}>>)
    /\ Why("C06", {i \in all : cl[i].f06 # {}}, cl, LAMBDA c : c.f06)
    /\ Why("C08", {i \in all : cl[i].f08 # {}}, cl, LAMBDA c : c.f08)
    /\ Why("C16", {i \in all : cl[i].f16 # {}}, cl, LAMBDA c : c.f16)
    /\ Why("DRIFT", {i \in all : cl[i].fdr # {}}, cl, LAMBDA c : c.fdr)
    /\ Why("STD", {i \in all : cl[i].fst # {}}, cl, LAMBDA c : c.fst)

Init == done = TRUE /\ Report(ClassifyAll(ndJsonDeserialize(IOEnv.OBS)))
Next == UNCHANGED done
Spec == Init /\ [][Next]_done
=============================================================================
