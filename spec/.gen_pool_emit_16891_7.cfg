SPECIFICATION SSpec
CONSTANTS
    Threads = {1, 2}
    MaxRounds = 4
    MaxChunks = 100
    MaxPoolOps = 3
    CreateUnderLock = TRUE
    MayFail = TRUE
    MayForget = TRUE
INVARIANT Emit
