SPECIFICATION CapSpec
CONSTANTS
    Focus = "general"
    Cfgs <- GridCfgs
    Ctors <- CapCtors
    Layouts <- McLayouts
    MaxOps = 1
    MaxBlocks = 8
    MaxDepth = 3
    RecordHist = TRUE
    MaxFail = 0
CONSTRAINT Bound
INVARIANT EmitAtBound
CHECK_DEADLOCK FALSE
