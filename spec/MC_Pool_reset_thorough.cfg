\* thorough tier, pool-wide operations: 3 threads x 1 round per phase x 3 phases, chunk growth
SPECIFICATION Spec
CONSTANTS
    Threads = {t1, t2, t3}
    MaxRounds = 1
    MaxChunks = 2
    MaxPoolOps = 2
    CreateUnderLock = TRUE
    MayFail = TRUE
    MayForget = FALSE
    MayPanic = FALSE
SYMMETRY Symm
INVARIANTS TypeOK MutexOK OwnerOK Exclusive IdleDisjoint Conservation ReuseOK ReuseTight DataIntact
PROPERTIES DecideCreateOnlyWhenIdleEmpty CreatedOnlyWhenIdleEmpty BlocksOnlyForgottenByPoolOps ResetRewindsAll DropReleasesAll LeakedStayValid
