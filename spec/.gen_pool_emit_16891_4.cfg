SPECIFICATION PSpec
CONSTANTS
    Threads = {1, 2}
    MaxRounds = 2
    MaxChunks = 100
    MaxPoolOps = 1
    CreateUnderLock = TRUE
    MayFail = FALSE
    MayForget = FALSE
INVARIANT Emit
