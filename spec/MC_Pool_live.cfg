\* liveness under weak fairness, no state constraint, no symmetry: every get returns, every drop returns
SPECIFICATION FairSpec
CONSTANTS
    Threads = {1, 2}
    MaxRounds = 2
    MaxChunks = 1
    MaxPoolOps = 0
    CreateUnderLock = TRUE
    MayFail = TRUE
    MayForget = TRUE
    MayPanic = TRUE
INVARIANTS TypeOK MutexOK
PROPERTIES GetReturns DropReturns
