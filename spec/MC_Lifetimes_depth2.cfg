\* Second run of the thorough tier: two openers (nested scopes / guards / claims / by_value / pool guards) with the
\* representative producer families.
SPECIFICATION Spec
CONSTANTS
    Roots <- ArenaRoots
    MaxOpen = 2
    MaxMid = 2
    FamsFull <- NoFams
    FamsRep <- RepFams
    FullMid = 2
    FullDepth = 0
    OpenOps <- AllOpenOps
    WideOpen = FALSE
    Paths <- AllPaths
INVARIANT Emit
INVARIANT ReportHoles
CHECK_DEADLOCK FALSE
