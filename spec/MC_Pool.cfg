\* quick tier, concurrency core: 3 interchangeable threads x 2 rounds, creation under the lock (as the code),
\* creation may fail, no pool-wide reset (PoolDrop at any quiescent point)
SPECIFICATION Spec
CONSTANTS
    Threads = {t1, t2, t3}
    MaxRounds = 2
    MaxChunks = 1
    MaxPoolOps = 0
    CreateUnderLock = TRUE
    MayFail = TRUE
    MayForget = FALSE
    MayPanic = FALSE
SYMMETRY Symm
INVARIANTS TypeOK MutexOK OwnerOK Exclusive IdleDisjoint Conservation ReuseOK ReuseTight DataIntact
PROPERTIES DecideCreateOnlyWhenIdleEmpty CreatedOnlyWhenIdleEmpty BlocksOnlyForgottenByPoolOps ResetRewindsAll DropReleasesAll LeakedStayValid
