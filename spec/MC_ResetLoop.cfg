SPECIFICATION LSpec
CONSTANTS
    Focus = "general"
    Cfgs <- LoopCfgs
    Ctors <- McCtors
    Layouts <- McLayouts
    MaxOps = 4
    MaxBlocks = 3
    MaxDepth = 2
    RecordHist = FALSE
    MaxFail = 0
PROPERTY EventuallyQuiet
CHECK_DEADLOCK FALSE
