------------------------------ MODULE ChunkObs ------------------------------
(***************************************************************************)
(* Conformance of the real src/chunk/size_config.rs with ChunkSize.tla.    *)
(* The harness records inputs and results relative to anchors (0, the half *)
(* word isize::MAX, the top usize::MAX); here they are mapped into the     *)
(* 29-bit model word.  VIOLATION = contract (SizeOk / GrowthOk / FitsFresh *)
(* / no wrap / no panic); DRIFT = result differs from the transcribed      *)
(* algorithm but still satisfies the contract.                             *)
(***************************************************************************)
EXTENDS ChunkSize, Json, IOUtils

VARIABLE done
Rec == ndJsonDeserialize(IOEnv.OBS)

ToW(an, v) == CASE an = "lo"    -> v
                [] an = "half"  -> IsizeMax - v
                [] an = "half+" -> IsizeMax + v
                [] an = "top"   -> MaxU - v
                [] an = "none"  -> NoneV
                [] OTHER        -> -2

Cfg(r) == [up |-> r.up, hs |-> r.hs, ha |-> r.ha]

\* base addresses to try: every residue for small alignments, the extreme residues otherwise
BasesObs(c, al, g, sz) ==
    IF al <= 1024 THEN Bases(c, al)
    ELSE LET m == Max(al, c.ha)
             k == ((sz + c.hs) % m)
         IN {b \in {c.ha, 2 * c.ha, m \div 2, m - c.ha, m, m + c.ha, 2 * m - c.hs + c.ha, 3 * m - c.hs,
                    2 * m + DownAlign(k, c.ha) - (g % m), 2 * m + DownAlign(k, c.ha) - (g % m) + c.ha,
                    2 * m + DownAlign(k, c.ha) - (g % m) - c.ha} : b > 0 /\ b % c.ha = 0}

FitsFreshObs(c, g, sz, al) ==
    \A base \in BasesObs(c, al, g, sz) : \A ma \in {1, 16} : FitsFreshAt(c, base, g, sz, al, ma)

\* ---- calc_size_from_hint records
HintViolation(r) ==
    LET c == Cfg(r)  h == ToW(r.an, r.hint)  v == ToW(r.ran, r.r)
    IN \/ r.panicked
       \/ v = -2 \/ h = -2
       \/ v # NoneV /\ ~(SizeOk(c, v, 0) /\ GrowthOk(h, v))
HintDrift(r) == ~HintViolation(r) /\ ToW(r.ran, r.r) # CalcSizeFromHint(Cfg(r), ToW(r.an, r.hint))

\* ---- from_capacity records (calc_hint_from_capacity ; calc_size_from_hint ; align_size of grants)
CapViolation(r) ==
    LET c == Cfg(r)  sz == ToW(r.san, r.sz)  al == 2^(r.alk)  hint == ToW(r.han, r.hint)  size == ToW(r.zan, r.size)
    IN \/ r.panicked
       \/ sz = -2 \/ hint = -2 \/ size = -2
       \/ hint # NoneV /\ hint < c.hs + sz                                \* a wrapped hint
       \/ size # NoneV /\ ~SizeOk(c, size, sz)
       \/ size # NoneV /\ LayoutOk(c, size) /\ Len(r.grants) > 0 /\
            \E i \in 1..Len(r.grants) :
                LET g == r.grants[i][2] IN
                ~(g >= size /\ SizeOk(c, g, sz) /\ FitsFreshObs(c, g, sz, al))
CapDrift(r) ==
    LET c == Cfg(r)  sz == ToW(r.san, r.sz)  al == 2^(r.alk)
    IN ~CapViolation(r) /\ (ToW(r.han, r.hint) # CalcHintFromCapacity(c, sz, al)
                            \/ ToW(r.zan, r.size) # FromCapacity(c, 0, sz, al))

Viol(r)  == IF r.f = "size_from_hint" THEN HintViolation(r) ELSE CapViolation(r)
Drift(r) == IF r.f = "size_from_hint" THEN HintDrift(r) ELSE CapDrift(r)

Bad    == {i \in 1..Len(Rec) : Viol(Rec[i])}
Drifts == {i \in 1..Len(Rec) : Drift(Rec[i])}
Somes  == Cardinality({i \in 1..Len(Rec) : IF Rec[i].f = "size_from_hint" THEN Rec[i].ran # "none" ELSE Rec[i].zan # "none"})

Init == /\ done = TRUE
        /\ PrintT(<<"CHECKED", Len(Rec)>>)
        /\ PrintT(<<"SOMES", Somes>>)
        /\ PrintT(<<"BAD", Bad>>)
        /\ PrintT(<<"DRIFT", Drifts>>)
Next == UNCHANGED done
Spec == Init /\ [][Next]_done
=============================================================================
