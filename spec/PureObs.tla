------------------------------ MODULE PureObs ------------------------------
(***************************************************************************)
(* Conformance of the real src/bumping.rs (64-bit) with the declarative    *)
(* layer of Bumping.tla.  The harness (harness/purefn) runs the real       *)
(* functions on images of a small-word grid under four embeddings of the   *)
(* word into the 64-bit address space (lo / mid / hi / scale) and records  *)
(* the results relative to the embedding; this module evaluates the C11    *)
(* contract operators on every record.                                     *)
(***************************************************************************)
EXTENDS Bumping, Json, IOUtils

VARIABLE done

Rec == ndJsonDeserialize(IOEnv.OBS)

\* one result group: [h |-> <<hint codes>>, fit, a, b, p]
GroupOk(r, g) ==
    /\ ~g.p                                               \* no panic (overflow / debug assertion)
    /\ IF r.huge THEN ~g.fit                              \* a size near isize::MAX never fits these ranges
       ELSE CASE r.f = "up"        -> UpOk(r.s, r.e, r.sz, r.al, r.ma, [fit |-> g.fit, ptr |-> g.a, np |-> g.b])
              [] r.f = "down"      -> DownOk(r.s, r.e, r.sz, r.al, r.ma, [fit |-> g.fit, ptr |-> g.a, np |-> g.b])
              [] r.f = "prep_up"   -> PrepOk(r.s, r.e, r.sz, r.al, [fit |-> g.fit, lo |-> g.a, hi |-> g.b])
              [] r.f = "prep_down" -> PrepOk(r.s, r.e, r.sz, r.al, [fit |-> g.fit, lo |-> g.a, hi |-> g.b])

\* hint independence: exactly one result group (all truthful hint combinations agree)
RecOk(r) == Len(r.res) = 1 /\ \A i \in 1..Len(r.res) : GroupOk(r, r.res[i])

Bad == {i \in 1..Len(Rec) : ~RecOk(Rec[i])}
Fitting == Cardinality({i \in 1..Len(Rec) : Rec[i].res[1].fit})

Init == /\ done = TRUE
        /\ PrintT(<<"CHECKED", Len(Rec)>>)
        /\ PrintT(<<"FITTING", Fitting>>)
        /\ PrintT(<<"BAD", Bad>>)
Next == UNCHANGED done
Spec == Init /\ [][Next]_done
=============================================================================
