SPECIFICATION VecSpec
CONSTANTS
    Focus = "general"
    Cfgs <- VecMcCfgs
    Ctors <- McCtors
    Layouts <- McLayouts
    MaxOps = 5
    MaxBlocks = 3
    MaxDepth = 2
    RecordHist = FALSE
    MaxFail = 1
VIEW view
CONSTRAINT Bound
INVARIANT Inv_C01
INVARIANT Inv_C10
INVARIANT Inv_C05
INVARIANT Inv_C15
CHECK_DEADLOCK FALSE
