---------------------------- MODULE MC_Bumping ----------------------------
(***************************************************************************)
(* Exhaustive check, for a W-bit word, that the transcribed algorithms of  *)
(* src/bumping.rs satisfy the declarative contract of C11 on EVERY valid   *)
(* input: all ranges (including next to 0, next to the top of the word and *)
(* the negative-capacity dummy range), all layouts, all minimum alignments *)
(* and all truthful hint combinations; and that the result does not depend *)
(* on the hints; and that no plain arithmetic leaves the word.             *)
(*                                                                         *)
(* State layout: one cheap "seed" state per (function, min-align, align);  *)
(* the expensive universally quantified check is evaluated when a worker   *)
(* expands the seed, so that the 16 workers share the work.                *)
(***************************************************************************)
EXTENDS Bumping

VARIABLES phase, seed, bad

Fns    == {"up", "down", "prep_up", "prep_down"}
MAs    == {1, 2, 4, 8, 16}
Aligns == {Pow2(k) : k \in 0..(W-1)}
Seeds  == {<<f, ma, al>> : f \in Fns, ma \in MAs, al \in Aligns}

Bools == {TRUE, FALSE}
Hints(size, align) == {h \in Bools \X Bools \X Bools : ValidHints(size, align, h[1], h[2], h[3])}

Sizes(align) == 0..(Pow2(W-1) - align)

\* All valid ranges for a direction and minimum alignment.
Ranges(ma, up) ==
    {r \in (1..MaxU) \X (1..MaxU) : ValidRange(r[1], r[2], ma, up)}

Strip(r) == [fit |-> r.fit, ptr |-> r.ptr, np |-> r.np]
PStrip(r) == [fit |-> r.fit, lo |-> r.lo, hi |-> r.hi]

\* The set of counterexamples for a seed (empty iff everything is fine).
BadUp(ma, al) ==
    {<<r, sz, h>> \in {<<r, sz, h>> \in Ranges(ma, TRUE) \X Sizes(al) \X (Bools \X Bools \X Bools) :
                          ValidHints(sz, al, h[1], h[2], h[3])} :
        LET res == BumpUpAlg(r[1], r[2], sz, al, ma, h[1], h[2], h[3])
            ref == BumpUpAlg(r[1], r[2], sz, al, ma, FALSE, FALSE, FALSE)
        IN ~( /\ ~res.ovf
              /\ UpOk(r[1], r[2], sz, al, ma, res)
              /\ Strip(res) = Strip(ref)                       \* hint independence
              /\ (res.fit = ExistsBlock(r[1], r[2], sz, al)) )}

BadDown(ma, al) ==
    {<<r, sz, h>> \in {<<r, sz, h>> \in Ranges(ma, FALSE) \X Sizes(al) \X (Bools \X Bools \X Bools) :
                          ValidHints(sz, al, h[1], h[2], h[3])} :
        LET res == BumpDownAlg(r[1], r[2], sz, al, ma, h[1], h[2], h[3])
            ref == BumpDownAlg(r[1], r[2], sz, al, ma, FALSE, FALSE, FALSE)
        IN ~( /\ ~res.ovf
              /\ DownOk(r[1], r[2], sz, al, ma, res)
              /\ Strip(res) = Strip(ref)
              /\ (res.fit = ExistsBlock(r[1], r[2], sz, al)) )}

\* prepare: sizes that are multiples of the alignment; only the "align is const" hint is read.
BadPrepUp(ma, al) ==
    {<<r, sz, ac>> \in Ranges(ma, TRUE) \X {s \in Sizes(al) : s % al = 0} \X Bools :
        LET res == PrepUpAlg(r[1], r[2], sz, al, ma, ac)
            ref == PrepUpAlg(r[1], r[2], sz, al, ma, FALSE)
        IN ~( /\ ~res.ovf
              /\ PrepOk(r[1], r[2], sz, al, res)
              /\ PStrip(res) = PStrip(ref) )}

BadPrepDown(ma, al) ==
    {<<r, sz, ac>> \in Ranges(ma, FALSE) \X {s \in Sizes(al) : s % al = 0} \X Bools :
        LET res == PrepDownAlg(r[1], r[2], sz, al, ma, ac)
            ref == PrepDownAlg(r[1], r[2], sz, al, ma, FALSE)
        IN ~( /\ ~res.ovf
              /\ PrepOk(r[1], r[2], sz, al, res)
              /\ PStrip(res) = PStrip(ref) )}

BadOf(s) ==
    CASE s[1] = "up"        -> BadUp(s[2], s[3])
      [] s[1] = "down"      -> BadDown(s[2], s[3])
      [] s[1] = "prep_up"   -> BadPrepUp(s[2], s[3])
      [] s[1] = "prep_down" -> BadPrepDown(s[2], s[3])

\* number of inputs evaluated for a seed (for the evidence file)
CountOf(s) ==
    LET up == s[1] \in {"up", "prep_up"}
        nr == Cardinality(Ranges(s[2], up))
    IN IF s[1] \in {"up", "down"}
       THEN nr * Cardinality({<<sz, h>> \in Sizes(s[3]) \X (Bools \X Bools \X Bools) : ValidHints(sz, s[3], h[1], h[2], h[3])})
       ELSE nr * Cardinality({sz \in Sizes(s[3]) : sz % s[3] = 0}) * 2

Init == phase = "start" /\ seed = <<>> /\ bad = {}

Next ==
    \/ /\ phase = "start"
       /\ \E s \in Seeds : seed' = s /\ phase' = "seed" /\ bad' = {}
    \/ /\ phase = "seed"
       /\ bad' = BadOf(seed)
       /\ PrintT(<<"COUNT", seed[1], seed[2], seed[3], CountOf(seed)>>)
       /\ phase' = "done"
       /\ UNCHANGED seed

Spec == Init /\ [][Next]_<<phase, seed, bad>>

\* C11 at the design level: no valid input is a counterexample.
AlgorithmMeetsContract == bad = {}
=============================================================================
