---------------------------- MODULE MC_Lifetimes ----------------------------
(***************************************************************************)
(* Model checking / behaviour emission for Lifetimes.tla (C04).            *)
(* Every complete behaviour is printed once as JSON ("PROG"), hazardous    *)
(* ones together with their control program (computed and re-validated by  *)
(* TLC: well-formed, not hazardous, accepted by the signature table).      *)
(***************************************************************************)
EXTENDS Lifetimes, Json

RepFams == {"alloc", "alloc_cstr", "alloc_iter_mut", "alloc_try_with", "stats", "any_stats",
            "vec_into_slice", "vec_keep", "mutvec_into_boxed_slice", "mutvec_keep"}
NoFams == {}
AllPaths == {"p1", "p2", "p3"}
P1Only == {"p1"}
AliasFams == {"alloc"}
\* openers of the two-handle interplay run: alias handles (by_value copies, as_scope / as_mut_scope borrows, claim guards,
\* pool guards) and the frames opened through them or through the original
AliasOpenOps == {"AsScope:", "AsMutScope:", "ByValue:", "Claim:", "Scoped:scoped", "Guard:", "PoolGet:"}
LiteFams == {"alloc", "stats", "mutvec_keep"}
ArenaRoots == {"bump", "pool"}
ASSUME PrintT(<<"FAMS", AllFams>>)
AllRoots == {"bump", "pool", "unsend", "unsendpool", "settings"}

Record ==
    LET ctl == IF st.hazard THEN ControlOf(st.root, hist, st) ELSE [kind |-> "", root |-> st.root, prog |-> <<>>] IN
    [root |-> st.root, prog |-> hist, hazard |-> st.hazard, rej |-> st.rej, why |-> st.why,
     fam |-> st.val.fam, path |-> st.val.path, hk |-> st.val.hk, ret |-> st.val.ret,
     ctlkind |-> ctl.kind, ctlroot |-> ctl.root, ctl |-> ctl.prog]

\* always true; prints every complete behaviour
Emit == Done => PrintT(<<"PROG", ToJson(Record)>>)

\* every hazardous behaviour has a validated control (ControlOf is expensive: this invariant is only used by
\* MC_Lifetimes.cfg; the check looks at ctlkind of the emitted records instead)
HasControl == Done /\ st.hazard => ControlOf(st.root, hist, st).kind # "none"

\* Design-level claim.  On the unchanged crate it FAILS for exactly one signature: Self = &'a mut Bump
\* (BumpAllocatorCoreScope<'a> for &'a mut Bump): results live for 'a although the variable holding the
\* `&mut Bump` can be used again to reset the Bump.  MC prints these behaviours instead of stopping.
SigHole == Done /\ st.hazard /\ ~st.rej
ReportHoles == SigHole => PrintT(<<"SIGHOLE", st.val.hk, st.val.path, st.val.fam, st.why>>)
=============================================================================
