------------------------------- MODULE C17Obs -------------------------------
(***************************************************************************)
(* C17: all allocation entry points are interchangeable.                   *)
(* The same TLC-generated behaviour of Arena.tla is replayed once per      *)
(* entry-point variant from identical initial states (same configuration,  *)
(* fresh deterministic base allocator).  A record of this module is one    *)
(* step with the observations of every variant side by side:               *)
(*   r.vs = << [v, res, addr, len, allocated, pos, cur, count], ... >>     *)
(* The contract compares the variants with each other -- never with the    *)
(* model -- so it does not depend on the model being right.                *)
(***************************************************************************)
EXTENDS Integers, Sequences, FiniteSets, TLC, Json, IOUtils

VARIABLE done
Rec == ndJsonDeserialize(IOEnv.OBS)

\* "the panicking method and its try_ twin (when memory is available)": a panicking entry point is only
\* exercised on steps the other variants complete successfully; results are compared as-is
\* a refused request is an `Err` of a try_ method and an unwinding panic of its panicking twin (C07/C14): one class
ResClass(x) == IF x.res \in {"err", "panic"} THEN "refused" ELSE x.res
Same(x, y) ==
    /\ ResClass(x) = ResClass(y)
    /\ x.addr = y.addr              \* same block offset (the base allocator is deterministic: same virtual address)
    /\ x.len = y.len                \* same length of the returned block
    /\ x.allocated = y.allocated    \* same resulting allocated byte count
    /\ x.pos = y.pos /\ x.cur = y.cur /\ x.count = y.count
    /\ x.content = y.content        \* value-level result (contents check of the returned block / slice)

C17_Viol(r) == \E i, j \in 1..Len(r.vs) : i < j /\ ~Same(r.vs[i], r.vs[j])

Idx == 1..Len(Rec)
Init == /\ done = TRUE
        /\ PrintT(<<"CHECKED", Len(Rec)>>)
        /\ PrintT(<<"PAIRS", LET RECURSIVE S(_) S(i) == IF i = 0 THEN 0 ELSE (Len(Rec[i].vs) * (Len(Rec[i].vs) - 1)) \div 2 + S(i - 1) IN S(Len(Rec))>>)
        /\ PrintT(<<"BAD_C17", {i \in Idx : C17_Viol(Rec[i])}>>)
Next == UNCHANGED done
Spec == Init /\ [][Next]_done
=============================================================================
