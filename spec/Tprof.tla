---- MODULE Tprof ----
EXTENDS VecObs
A1 == Len(Rec) + Len(Rec) + Len(Rec) + Len(Rec)
I1 == done = TRUE /\ PrintT(<<"A1", A1>>)
S1 == I1 /\ [][Next]_done
A2 == LET rr == Rec IN Cardinality({i \in 1..Len(rr) : Len(rr[i].steps) > 0})
I2 == done = TRUE /\ PrintT(<<"A2", A2>>)
S2 == I2 /\ [][Next]_done
====
