\* EXPECTED TO FAIL: the variant that creates the arena OUTSIDE the critical section (the MutexGuard is dropped right after
\* `pop`) violates the reuse clause of C19 -- TLC exhibits a behaviour in which a guard is dropped between the empty lookup
\* and the creation, so an arena is created while another one is idle (and more arenas exist than guards were ever live).
SPECIFICATION Spec
CONSTANTS
    Threads = {t1, t2}
    MaxRounds = 1
    MaxChunks = 1
    MaxPoolOps = 0
    CreateUnderLock = FALSE
    MayFail = FALSE
    MayForget = FALSE
    MayPanic = FALSE
INVARIANTS TypeOK MutexOK OwnerOK Exclusive IdleDisjoint Conservation DataIntact
PROPERTIES CreatedOnlyWhenIdleEmpty
