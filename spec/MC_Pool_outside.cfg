\* quick tier, the variant that creates the arena OUTSIDE the critical section: same invariants
SPECIFICATION Spec
CONSTANTS
    Threads = {t1, t2, t3}
    MaxRounds = 1
    MaxChunks = 1
    MaxPoolOps = 1
    CreateUnderLock = FALSE
    MayFail = TRUE
SYMMETRY Symm
INVARIANTS TypeOK MutexOK OwnerOK Exclusive IdleDisjoint Conservation ReuseOK ReuseTight DataIntact
PROPERTIES DecideCreateOnlyWhenIdleEmpty BlocksOnlyForgottenByPoolOps ResetRewindsAll DropReleasesAll
