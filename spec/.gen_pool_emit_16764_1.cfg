SPECIFICATION PSpec
CONSTANTS
    Threads = {1, 2, 3}
    MaxRounds = 1
    MaxChunks = 100
    MaxPoolOps = 0
    CreateUnderLock = TRUE
    MayFail = TRUE
    MayForget = TRUE
INVARIANT Emit
