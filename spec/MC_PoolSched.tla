------------------------------ MODULE MC_PoolSched ------------------------------
(***************************************************************************)
(* Schedule emission from Pool.tla (model checking itself: MC_Pool.tla).   *)
(*  - HSpec: the same next-state relation with a history variable `hist`   *)
(*    (sequence of <<thread, label, argument>>); a finished behaviour      *)
(*    (pool dropped) is printed as JSON by the always-true invariant Emit. *)
(*  - SSpec: HSpec in which the pool-wide operations wait for the end of   *)
(*    the phase; used with -simulate for random full-length schedules.     *)
(*  - PSpec: HSpec under a partial-order reduction for exhaustive          *)
(*    emission: steps that touch only thread-local state (GetCall,         *)
(*    GetReturn, Use, DropCall, DropReturn) commute with every step of     *)
(*    another thread, so they are taken eagerly, lowest thread first; the  *)
(*    steps on the mutex / idle stack interleave in every possible way.    *)
(***************************************************************************)
EXTENDS Pool, TLC, Json

VARIABLE hist

hvars == <<vars, hist>>

HInit == Init /\ hist = <<>>

HNext ==
    \/ \E t \in Threads : \E l \in ThreadLabels : \E x \in Args(l) :
          ThreadStep(t, l, x) /\ hist' = Append(hist, <<t, l, x>>)
    \/ \E l \in MainLabels : MainStep(l) /\ hist' = Append(hist, <<0, l, 0>>)

HSpec == HInit /\ [][HNext]_hvars

\* a thread-local step is enabled for u
LocalEnabled(u) ==
    \/ pc[u] \in {"get_post", "holding", "used", "drop_post"}
    \/ pc[u] = "idle" /\ alive /\ round[u] < MaxRounds
LocalLabels == {"GetCall", "GetReturn", "Use", "DropCall", "DropReturn", "Forget"}

PNext ==
    \/ \E t \in Threads : \E l \in ThreadLabels : \E x \in Args(l) :
          /\ IF l \in LocalLabels
             THEN \A u \in Threads : LocalEnabled(u) => t <= u
             ELSE \A u \in Threads : ~LocalEnabled(u)
          /\ (l = "Use" => x = (t + round[t] + phase) % 2)      \* chunk growth is not a scheduling choice
          /\ ThreadStep(t, l, x) /\ hist' = Append(hist, <<t, l, x>>)
    \/ \E l \in MainLabels : MainStep(l) /\ hist' = Append(hist, <<0, l, 0>>)

PSpec == HInit /\ [][PNext]_hvars

\* random walks (-simulate): every step interleaves freely, but the owner of the pool acts only when every thread
\* has finished its rounds of the phase, so that every walk is a full-length schedule
PhaseDone == \A t \in Threads : round[t] = MaxRounds
SNext ==
    \/ \E t \in Threads : \E l \in ThreadLabels : \E x \in Args(l) :
          ThreadStep(t, l, x) /\ hist' = Append(hist, <<t, l, x>>)
    \/ \E l \in MainLabels : PhaseDone /\ MainStep(l) /\ hist' = Append(hist, <<0, l, 0>>)

SSpec == HInit /\ [][SNext]_hvars

Emit == (~alive) => PrintT(<<"REPLAY", ToJson(hist)>>)
=============================================================================
