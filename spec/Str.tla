-------------------------------- MODULE Str --------------------------------
(***************************************************************************)
(* C09 -- the string state machine.                                        *)
(*                                                                         *)
(* One string (`str`, a sequence of code points, and its capacity `cap`)   *)
(* of one of three kinds:                                                  *)
(*    "box"   BumpBox<str>: only the shrinking operations exist            *)
(*    "fixed" FixedBumpString: growth fails ("full") beyond `cap` bytes    *)
(*    "grow"  BumpString / MutBumpString / std String: growth succeeds     *)
(* The first step of every behaviour is a constructor, then up to          *)
(* MaxOps - 1 operations follow.  Every public operation of C09 is an      *)
(* action, split by outcome (Ok / Panic / Full) so that coverage shows     *)
(* that no outcome is dead and random walks are not drowned in panics.     *)
(* The meaning of the operations is in StrOps.tla (`Apply`).               *)
(*                                                                         *)
(* `hist` records [op, pre, exp] per step and is printed as JSON when a    *)
(* behaviour is complete (MC_Str!Emit); harness/strs replays it on the     *)
(* real types.  `StepProps` -- asserted on every transition TLC generates  *)
(* -- are the design-level properties of C09.                              *)
(***************************************************************************)
EXTENDS StrOps, Randomization

CONSTANTS
    Alphabet,     \* code points the model generates (all widths 1..4 and NUL)
    MaxChars,     \* bound on the number of characters of the string
    MaxOps,       \* bound on the number of steps of a behaviour (constructor included)
    Texts,        \* argument strings for push_str / insert_str / replace_range / fmt pieces
    CTexts,       \* argument strings of the C-string constructors (NUL first / inside / last / absent)
    Lits,         \* sequence of format-string literals (mirrored by with_args() in harness/strs)
    Kinds,        \* subset of {"box", "fixed", "grow"}
    FixedCaps,    \* capacities (bytes) of fixed strings
    StartTexts,   \* strings the from_str constructor starts from
    CtorNames,    \* constructors enabled
    OpNames,      \* operations enabled
    MaxSegs,      \* number of byte segments / UTF-16 unit classes of the decoding constructors
    MaxPieces,    \* number of pieces of a format call
    InclSet,      \* {FALSE} or {FALSE, TRUE}: inclusive range ends
    Apis,         \* subset of {"p", "t"}: panicking / try_ entry points
    DrainF, DrainB, \* bounds on the number of next() / next_back() calls on a drain
    OutFilter,    \* outcomes of operations that are generated: subset of {"ok", "panic", "full", "inject"} ("inject" = a retain
                  \* whose predicate panics, "panic" = every other expected panic); focused emission sets use less than all
    CheckProps,   \* assert StepProps on every transition (model checking) or not (behaviour emission)
    SampleK       \* 0: every index / range / retain mask is an argument (exhaustive); k > 0: a random subset of k of
                  \* them per evaluation (random walks: keeps the number of candidate successors per step small)

VARIABLES str, cap, kind, nops, done, fin, hist

vars == <<str, cap, kind, nops, done, fin, hist>>
\* nops is not part of the view: every (string, capacity, kind) is expanded once, at the depth it is first reached
view == <<str, cap, kind, done, fin>>

CharSet == Alphabet \cup {REPL}
St      == [chars |-> str, cap |-> cap]

-----------------------------------------------------------------------------
(* design-level properties of a single step *)

\* byte-level formulation of "the index is out of range or not on a character boundary"
BadIdx(s, i)   == LET bs == Utf8Seq(s) IN i > Len(bs) \/ ~ByteBoundary(bs, i)
BadRange(s, r) == LET n == BLen(s)  a == RStart(r)  z == REnd(r, n) IN
                  a > z \/ z > n \/ BadIdx(s, a) \/ BadIdx(s, z)

\* declarative panic rule of C09 per operation (independent of the operators in StrOps)
MustPanic(s, o) ==
    CASE o.name \in {"insert", "insert_str"} -> BadIdx(s, o.i)
      [] o.name = "remove"   -> o.i >= BLen(s) \/ BadIdx(s, o.i)
      [] o.name = "truncate" -> o.i <= BLen(s) /\ BadIdx(s, o.i)
      [] o.name \in {"drain", "replace_range", "extend_from_within", "split_off"} -> BadRange(s, o.r)
      [] o.name = "retain"   -> o.pat > 0          \* injected
      [] OTHER -> FALSE

CountNul(s) == Cardinality({i \in 1..Len(s) : s[i] = 0})

StepProps(pre, o, r) ==
    LET bs == Utf8Seq(r.chars) IN
    \* the string is a sequence of whole characters whose byte image is valid UTF-8 and decodes to itself,
    \* after every step including a panicked one
    /\ \A i \in 1..Len(r.chars) : r.chars[i] \in CharSet
    /\ Decode(bs) = <<TRUE, r.chars>>
    /\ Len(bs) = BLen(r.chars)
    \* panic exactly when the index is out of range / not on a boundary; such a panic changes nothing
    /\ (~IsCtor(o) => ((r.out = "panic") <=> MustPanic(pre.chars, o)))
    /\ ((r.out = "panic" /\ o.name # "retain") => r.chars = pre.chars)
    \* a failed retain keeps a subsequence of whole characters of the visited prefix
    /\ (o.name = "retain" => Len(r.chars) <= Len(r.ret))
    \* capacity
    /\ (r.cap # INF => BLen(r.chars) <= r.cap)
    /\ (r.out = "full" => pre.cap # INF)
    \* split_off partitions exactly
    /\ (o.name = "split_off" /\ r.out = "ok") =>
          LET a == CharIdx(pre.chars, RStart(o.r))
              self  == IF o.keep = "self" THEN r.chars ELSE r.ret
              other == IF o.keep = "self" THEN r.ret ELSE r.chars
          IN /\ InsertChars(self, a, other) = pre.chars
             /\ BLen(self) + BLen(other) = BLen(pre.chars)
             /\ (pre.cap = INF \/ (r.cap + r.xcap = pre.cap /\ BLen(r.ret) <= r.xcap))
    \* drain yields the range from both ends and removes it, or nothing if leaked
    /\ (o.name = "drain" /\ r.out = "ok" /\ o.endm = "forget") => r.chars = pre.chars
    /\ (o.name = "drain" /\ r.out = "ok" /\ o.endm = "drop") =>
          BLen(r.chars) = BLen(pre.chars) - (REnd(o.r, BLen(pre.chars)) - RStart(o.r))
    \* C strings: exactly one NUL, at the end; the text before it is a prefix of the input
    /\ (o.name \in {"into_cstr", "alloc_cstr", "alloc_cstr_from_str", "alloc_cstr_fmt", "alloc_cstr_fmt_mut"} =>
          (CountNul(r.ret) = 1 /\ r.ret[Len(r.ret)] = 0))
    \* decoding constructors: strict succeeds iff lossy introduces no replacement character
    /\ o.name \in {"from_utf8", "from_utf8_lossy"} =>
          LET lossy == CtorFromUtf8Lossy(o.segs, o.cap).chars  strict == CtorFromUtf8(o.segs, o.cap) IN
          /\ (strict.out = "ok") <=> (\A i \in 1..Len(o.segs) : o.segs[i].cls = "ok")
          /\ (strict.out = "ok" => (strict.chars = lossy /\ Utf8Seq(lossy) = SegBytes(o.segs)))
          /\ (strict.out = "err" => (/\ ~ValidUtf8(SegBytes(o.segs))
                                     /\ ValidUtf8(SubSeq(SegBytes(o.segs), 1, strict.ret[1]))))
    /\ (o.name \in {"from_utf16", "from_utf16_lossy"} /\ CtorFromUtf16(o.units, o.cap).out = "ok") =>
          Concat([i \in 1..Len(r.chars) |-> Utf16(r.chars[i])]) = UnitSeq(o.units)

-----------------------------------------------------------------------------
(* steps *)

Commit(pre, o, r) ==
    /\ Len(r.chars) <= MaxChars
    /\ (CheckProps => Assert(StepProps(pre, o, r), <<"StepProps violated", pre, o, r>>))
    /\ str'  = r.chars
    /\ cap'  = r.cap
    /\ nops' = nops + 1
    /\ done' = (Terminal(o, r) \/ nops + 1 >= MaxOps)
    /\ fin'  = FALSE
    /\ hist' = Append(hist, [op |-> o, pre |-> pre, exp |-> r])

\* constructor step (enabled in the initial state only; the guard nops = 0 is repeated in front of the quantifiers of
\* every constructor action so that TLC does not enumerate constructor arguments in later states)
Start(o) ==
    /\ nops = 0
    /\ kind' = o.kind
    /\ Commit(Empty(o.cap), o, ApplyCtor(o, Lits))

\* operation step with the given outcome
Do(o, out) ==
    LET r == Apply(St, o, Lits) IN
    /\ (IF o.name = "retain" /\ out = "panic" THEN "inject" ELSE out) \in OutFilter
    /\ r.out = out
    /\ kind' = kind
    /\ Commit(St, o, r)

Live(n)  == nops > 0 /\ ~done /\ n \in OpNames
Grows    == kind \in {"fixed", "grow"}
IsFixed  == kind = "fixed"

-----------------------------------------------------------------------------
(* argument sets *)

Strings(n) == UNION {[1..k -> Alphabet] : k \in 0..n}

Sample(S) == IF SampleK = 0 \/ Cardinality(S) <= SampleK THEN S ELSE RandomSubset(SampleK, S)

AllIdx == 0..(BLen(str) + 1)
Idx    == Sample(AllIdx)
Ranges == Sample({[lo |-> a, hi |-> b, inc |-> i] : a \in {-1} \cup AllIdx, b \in {-1} \cup AllIdx, i \in InclSet}
                     \ {[lo |-> a, hi |-> -1, inc |-> TRUE] : a \in {-1} \cup AllIdx})
Masks  == Sample([1..Len(str) -> BOOLEAN])

PieceSeqs == UNION {[1..k -> Texts] : k \in 0..MaxPieces}
\* a format call: literal k (pieces ignored) or run-time pieces
Fmts == {[lit |-> k, ps |-> <<>>] : k \in 1..Len(Lits)} \cup {[lit |-> 0, ps |-> p] : p \in PieceSeqs}

\* format calls of the C-string constructors: pieces range over CTexts
CFmts == {[lit |-> k, ps |-> <<>>] : k \in 1..Len(Lits)}
             \cup {[lit |-> 0, ps |-> p] : p \in UNION {[1..k -> CTexts] : k \in 0..MaxPieces}}

CapsFor(k, need) == IF k = "fixed" THEN {c \in FixedCaps : c >= need} ELSE {INF}

Seg(cls, c, b) == [cls |-> cls, c |-> c, b |-> b]
SegSet ==
    {Seg("ok", c, Utf8(c)) : c \in Alphabet}
    \cup {Seg("cont", 0, <<b>>) : b \in {128, 191}}
    \cup {Seg("lead", 0, <<b>>) : b \in {192, 245, 255}}
    \cup UNION {{Seg("trunc", c, SubSeq(Utf8(c), 1, n)) : n \in 1..(Width(c) - 1)} : c \in Alphabet}
SegOk(ss) == \A i \in 2..Len(ss) : ~(ss[i].cls = "cont" /\ ss[i - 1].cls = "trunc")
SegSeqs == {ss \in UNION {[1..k -> SegSet] : k \in 0..MaxSegs} : SegOk(ss)}

Unit(cls, c, u) == [cls |-> cls, c |-> c, u |-> u]
UnitSet == {Unit("ch", c, Utf16(c)) : c \in Alphabet} \cup {Unit("hi", 0, <<55357>>), Unit("lo", 0, <<56832>>)}
UnitOk(us) == \A i \in 2..Len(us) : ~(us[i].cls = "lo" /\ us[i - 1].cls = "hi")
UnitSeqs == {us \in UNION {[1..k -> UnitSet] : k \in 0..MaxSegs} : UnitOk(us)}

-----------------------------------------------------------------------------
(* constructors *)

CtorFromStrA ==
    /\ nops = 0 /\ "from_str" \in CtorNames
    /\ \E k \in Kinds, t \in StartTexts : \E c \in CapsFor(k, BLen(t)) :
          Start([name |-> "from_str", kind |-> k, cap |-> c, t |-> t])

\* (try_)alloc_fmt / (try_)alloc_fmt_mut for boxes (mut selects the _mut entry point), write! into a new string otherwise
CtorFmtA ==
    /\ nops = 0 /\ "fmt" \in CtorNames
    /\ \E k \in Kinds, f \in Fmts, m \in BOOLEAN, a \in Apis : \E c \in CapsFor(k, 0) :
          Start([name |-> "fmt", kind |-> k, cap |-> c, api |-> a, lit |-> f.lit, ps |-> f.ps, mut |-> m])

CtorFromUtf8A ==
    /\ nops = 0 /\ "from_utf8" \in CtorNames
    /\ \E k \in Kinds, ss \in SegSeqs : \E c \in CapsFor(k, Len(SegBytes(ss))) :
          Start([name |-> "from_utf8", kind |-> k, cap |-> c, segs |-> ss, bytes |-> SegBytes(ss)])

CtorFromUtf8LossyA ==
    /\ nops = 0 /\ "from_utf8_lossy" \in CtorNames /\ "grow" \in Kinds
    /\ \E ss \in SegSeqs, a \in Apis :
          Start([name |-> "from_utf8_lossy", kind |-> "grow", cap |-> INF, api |-> a, segs |-> ss, bytes |-> SegBytes(ss)])

CtorFromUtf16A ==
    /\ nops = 0 /\ "from_utf16" \in CtorNames /\ "grow" \in Kinds
    /\ \E us \in UnitSeqs, a \in Apis :
          Start([name |-> "from_utf16", kind |-> "grow", cap |-> INF, api |-> a, units |-> us, u16 |-> UnitSeq(us)])

CtorFromUtf16LossyA ==
    /\ nops = 0 /\ "from_utf16_lossy" \in CtorNames /\ "grow" \in Kinds
    /\ \E us \in UnitSeqs, a \in Apis :
          Start([name |-> "from_utf16_lossy", kind |-> "grow", cap |-> INF, api |-> a, units |-> us, u16 |-> UnitSeq(us)])

-----------------------------------------------------------------------------
(* operations, one action per operation and outcome *)

PushOps      == {[name |-> "push", api |-> a, c |-> c] : a \in Apis, c \in Alphabet}
PushStrOps   == {[name |-> "push_str", api |-> a, t |-> t] : a \in Apis, t \in Texts}
InsertOps    == {[name |-> "insert", api |-> a, i |-> i, c |-> c] : a \in Apis, i \in Idx, c \in Alphabet}
InsertStrOps == {[name |-> "insert_str", api |-> a, i |-> i, t |-> t] : a \in Apis, i \in Idx, t \in Texts}
RemoveOps    == {[name |-> "remove", i |-> i] : i \in Idx}
TruncateOps  == {[name |-> "truncate", i |-> i] : i \in Idx \cup {BLen(str) + 5}}
RetainOps(P) == {[name |-> "retain", keep |-> k, pat |-> p] : k \in Masks, p \in P}
DrainOps     == {[name |-> "drain", r |-> r, f |-> f, b |-> b, endm |-> e] :
                    r \in Ranges, f \in 0..DrainF, b \in 0..DrainB, e \in {"drop", "forget"}}
ReplaceOps   == {[name |-> "replace_range", api |-> a, r |-> r, t |-> t] : a \in Apis, r \in Ranges, t \in Texts}
ExtendOps    == {[name |-> "extend_from_within", api |-> a, r |-> r] : a \in Apis, r \in Ranges}
SplitOps     == {[name |-> "split_off", r |-> r, keep |-> k] : r \in Ranges, k \in {"self", "other"}}
WriteFmtOps  == {[name |-> "write_fmt", lit |-> f.lit, ps |-> f.ps] : f \in Fmts}
ZeroOps      == {[name |-> "extend_zeroed", api |-> a, n |-> n] : a \in Apis, n \in 0..2}
ReserveOps   == {[name |-> "reserve", api |-> a, n |-> n] : a \in Apis, n \in {0, 1, 3, 40}}

\* an expected panic does not depend on the text that was to be inserted: one canonical text / character
PanicText == CHOOSE t \in Texts : \A u \in Texts : Len(u) <= Len(t)
PanicChar == CHOOSE c \in Alphabet : \A d \in Alphabet : d <= c

PushOk        == Live("push") /\ Grows /\ \E o \in PushOps : Do(o, "ok")
PushFull      == Live("push") /\ IsFixed /\ \E o \in PushOps : Do(o, "full")
PushStrOk     == Live("push_str") /\ Grows /\ \E o \in PushStrOps : Do(o, "ok")
PushStrFull   == Live("push_str") /\ IsFixed /\ \E o \in PushStrOps : Do(o, "full")
InsertOk      == Live("insert") /\ Grows /\ \E o \in InsertOps : Do(o, "ok")
InsertPanic   == Live("insert") /\ Grows /\ \E o \in {d \in InsertOps : d.c = PanicChar} : Do(o, "panic")
InsertFull    == Live("insert") /\ IsFixed /\ \E o \in InsertOps : Do(o, "full")
InsertStrOk    == Live("insert_str") /\ Grows /\ \E o \in InsertStrOps : Do(o, "ok")
InsertStrPanic == Live("insert_str") /\ Grows /\ \E o \in {d \in InsertStrOps : d.t = PanicText} : Do(o, "panic")
InsertStrFull  == Live("insert_str") /\ IsFixed /\ \E o \in InsertStrOps : Do(o, "full")
RemoveOk      == Live("remove") /\ \E o \in RemoveOps : Do(o, "ok")
RemovePanic   == Live("remove") /\ \E o \in RemoveOps : Do(o, "panic")
Pop           == Live("pop") /\ Do([name |-> "pop"], "ok")
TruncateOk    == Live("truncate") /\ \E o \in TruncateOps : Do(o, "ok")
TruncatePanic == Live("truncate") /\ \E o \in TruncateOps : Do(o, "panic")
Clear         == Live("clear") /\ Do([name |-> "clear"], "ok")
RetainOk      == Live("retain") /\ \E o \in RetainOps({0}) : Do(o, "ok")
RetainPanic   == Live("retain") /\ \E o \in RetainOps(1..Len(str)) : Do(o, "panic")
DrainOk       == Live("drain") /\ \E o \in DrainOps : Do(o, "ok")
DrainPanic    == Live("drain") /\ \E o \in {d \in DrainOps : d.f = 0 /\ d.b = 0 /\ d.endm = "drop"} : Do(o, "panic")
ReplaceOk     == Live("replace_range") /\ Grows /\ \E o \in ReplaceOps : Do(o, "ok")
ReplacePanic  == Live("replace_range") /\ Grows /\ \E o \in {d \in ReplaceOps : d.t = PanicText} : Do(o, "panic")
ReplaceFull   == Live("replace_range") /\ IsFixed /\ \E o \in ReplaceOps : Do(o, "full")
ExtendOk      == Live("extend_from_within") /\ Grows /\ \E o \in ExtendOps : Do(o, "ok")
ExtendPanic   == Live("extend_from_within") /\ Grows /\ \E o \in ExtendOps : Do(o, "panic")
ExtendFull    == Live("extend_from_within") /\ IsFixed /\ \E o \in ExtendOps : Do(o, "full")
SplitOffOk    == Live("split_off") /\ \E o \in SplitOps : Do(o, "ok")
SplitOffPanic == Live("split_off") /\ \E o \in {d \in SplitOps : d.keep = "self"} : Do(o, "panic")
WriteFmtOk    == Live("write_fmt") /\ Grows /\ \E o \in WriteFmtOps : Do(o, "ok")
WriteFmtFull  == Live("write_fmt") /\ IsFixed /\ \E o \in WriteFmtOps : Do(o, "full")
ExtendZeroedOk   == Live("extend_zeroed") /\ Grows /\ \E o \in ZeroOps : Do(o, "ok")
ExtendZeroedFull == Live("extend_zeroed") /\ IsFixed /\ \E o \in ZeroOps : Do(o, "full")
ReserveOk     == Live("reserve") /\ Grows /\ \E o \in ReserveOps : Do(o, "ok")
ReserveFull   == Live("reserve") /\ IsFixed /\ \E o \in ReserveOps : Do(o, "full")

\* C strings.  into_cstr consumes a growable string; the alloc_cstr* functions take their text as an argument
\* (alloc_cstr takes a &CStr, so its text has no NUL).
IntoCstr      == Live("into_cstr") /\ kind = "grow" /\ \E a \in Apis : Do([name |-> "into_cstr", api |-> a], "ok")
AllocCstr     == Live("alloc_cstr") /\ \E a \in Apis, t \in {x \in CTexts : CountNul(x) = 0} :
                     Do([name |-> "alloc_cstr", api |-> a, t |-> t], "ok")
AllocCstrFromStr == Live("alloc_cstr_from_str") /\ \E a \in Apis, t \in CTexts :
                     Do([name |-> "alloc_cstr_from_str", api |-> a, t |-> t], "ok")
AllocCstrFmt  == Live("alloc_cstr_fmt") /\ \E a \in Apis, f \in CFmts :
                     Do([name |-> "alloc_cstr_fmt", api |-> a, lit |-> f.lit, ps |-> f.ps], "ok")
AllocCstrFmtMut == Live("alloc_cstr_fmt_mut") /\ \E a \in Apis, f \in CFmts :
                     Do([name |-> "alloc_cstr_fmt_mut", api |-> a, lit |-> f.lit, ps |-> f.ps], "ok")

\* a complete behaviour takes one last step that changes nothing: the state it leads to is the only one with
\* fin = TRUE for this history, so MC_Str!Emit prints every behaviour exactly once -- also in simulation mode, where
\* TLC evaluates invariants on all candidate successors of the step it is about to take
Finish == done /\ ~fin /\ fin' = TRUE /\ UNCHANGED <<str, cap, kind, nops, done, hist>>

Init ==
    /\ str = <<>> /\ cap = INF /\ kind = "grow" /\ nops = 0 /\ done = FALSE /\ fin = FALSE /\ hist = <<>>

Next ==
    \/ CtorFromStrA \/ CtorFmtA \/ CtorFromUtf8A \/ CtorFromUtf8LossyA \/ CtorFromUtf16A \/ CtorFromUtf16LossyA
    \/ PushOk \/ PushFull \/ PushStrOk \/ PushStrFull
    \/ InsertOk \/ InsertPanic \/ InsertFull \/ InsertStrOk \/ InsertStrPanic \/ InsertStrFull
    \/ RemoveOk \/ RemovePanic \/ Pop \/ TruncateOk \/ TruncatePanic \/ Clear
    \/ RetainOk \/ RetainPanic \/ DrainOk \/ DrainPanic
    \/ ReplaceOk \/ ReplacePanic \/ ReplaceFull \/ ExtendOk \/ ExtendPanic \/ ExtendFull
    \/ SplitOffOk \/ SplitOffPanic \/ WriteFmtOk \/ WriteFmtFull
    \/ ExtendZeroedOk \/ ExtendZeroedFull \/ ReserveOk \/ ReserveFull
    \/ IntoCstr \/ AllocCstr \/ AllocCstrFromStr \/ AllocCstrFmt \/ AllocCstrFmtMut
    \/ Finish

Spec == Init /\ [][Next]_vars

-----------------------------------------------------------------------------
(* state invariants *)

TypeOK ==
    /\ str \in Seq(CharSet) /\ Len(str) <= MaxChars
    /\ kind \in {"box", "fixed", "grow"}
    /\ cap \in {INF} \cup Nat
    /\ nops \in 0..MaxOps

\* the string is a sequence of whole characters (its byte image is valid UTF-8), always
WholeChars == Decode(Utf8Seq(str)) = <<TRUE, str>>

CapOk == (kind = "fixed" /\ nops > 0) => (cap # INF /\ BLen(str) <= cap)

\* both formulations of "character boundary" agree on every reachable string and every index
BoundaryAgree == \A i \in AllIdx : IsBoundary(str, i) <=> ~BadIdx(str, i)

=============================================================================
