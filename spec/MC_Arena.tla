------------------------------ MODULE MC_Arena ------------------------------
EXTENDS Arena, Json

CONSTANT Focus      \* action mix of the simulation ("general", "prep", "claim", "aligned", "realloc", "fail", "scope")

\* ---- constants that a .cfg file cannot express --------------------------------------------------
Bools == {TRUE, FALSE}
\* base allocator flavours: zero-sized handle (32-byte header), pointer-sized handle (48), 64-byte handle aligned to 64 (128)
Hdrs == {<<32, 16>>, <<48, 16>>, <<128, 64>>}

AllCfgs ==
    {[up |-> u, ma |-> m, ga |-> g, dealloc |-> d, shrinks |-> s, mcs |-> mc, hs |-> h[1], ha |-> h[2], extra |-> e, skew |-> k] :
        u \in Bools, m \in {1, 2, 4, 8, 16}, g \in Bools, d \in Bools, s \in Bools, mc \in {0, 512}, h \in Hdrs,
        e \in {0, 40}, k \in Bools}

\* model-checking subset: everything that changes control flow, small
McCfgs ==
    {c \in AllCfgs : c.ma \in {1, 8} /\ c.mcs = 0 /\ c.hs = 32 /\ c.extra = 0 /\ ~c.skew /\ c.ga}
    \cup {c \in AllCfgs : c.ma = 4 /\ c.mcs = 0 /\ c.hs = 48 /\ c.extra = 40 /\ c.skew /\ ~c.ga /\ c.dealloc /\ c.shrinks}

\* configurations of the reset-loop liveness check: both directions, three header sizes, over-grant, both minimum chunk sizes
LoopCfgs == {c \in AllCfgs : c.ma \in {1, 16} /\ c.dealloc /\ c.shrinks /\ ~c.skew /\ (c.extra = 0 \/ c.hs = 48)}

PrepFailCfgs == {c \in AllCfgs : c.ma = 1 /\ c.mcs = 0 /\ c.hs = 32 /\ c.extra = 0 /\ ~c.skew /\ c.ga /\ c.dealloc /\ c.shrinks}
PrepFailCtors == {[k |-> "new", n |-> 0, al |-> 1]}

\* quick model-checking subset: both directions, two minimum alignments, every value of dealloc / shrinks, + the two special ones
McCfgsQuick ==
    {c \in McCfgs : \/ c.hs = 48
                    \/ <<c.up, c.ma, c.dealloc, c.shrinks>> \in {<<TRUE, 1, TRUE, TRUE>>, <<TRUE, 8, FALSE, FALSE>>, <<FALSE, 1, FALSE, TRUE>>,
                                                                <<FALSE, 8, TRUE, FALSE>>, <<TRUE, 8, TRUE, FALSE>>, <<FALSE, 8, TRUE, TRUE>>}}

McCtors == {[k |-> "new", n |-> 0, al |-> 1], [k |-> "unallocated", n |-> 0, al |-> 1]}
SimCtors == McCtors \cup {[k |-> "with_size", n |-> 200, al |-> 1], [k |-> "with_capacity", n |-> 100, al |-> 32],
                          [k |-> "with_capacity", n |-> 3, al |-> 1], [k |-> "with_capacity", n |-> 480, al |-> 8],
                          [k |-> "with_capacity", n |-> 4090, al |-> 1]}

McLayouts == {[sz |-> 0, al |-> 1], [sz |-> 3, al |-> 1], [sz |-> 8, al |-> 8], [sz |-> 24, al |-> 4], [sz |-> 40, al |-> 32]}
SimLayouts == {[sz |-> s, al |-> a] : s \in {0, 1, 3, 8, 16, 17, 24, 40, 100, 300}, a \in {1, 2, 4, 8, 16, 32, 64}}
              \cup {[sz |-> 16, al |-> 4096], [sz |-> 5000, al |-> 8]}

Wraps == {"none", "wd", "ws", "both"}
McTw == {"u64_u64", "a32_u8"}
\* workloads of the composite C03 actions (ScopeTwice, ResetLoop)
L(s, a) == [sz |-> s, al |-> a]
Workloads == { <<L(24, 8)>>, <<L(100, 1), L(40, 32)>>, <<L(300, 8), L(17, 1), L(300, 64)>>, <<L(3, 1), L(5000, 8)>>,
               <<L(16, 16), L(16, 16), L(16, 16), L(100, 4)>>, <<L(600, 2), L(600, 2), L(8, 8)>> }
\* element layouts of the exclusive-borrow collections (u8, [u8; 3], u64, a 32-byte type aligned to 32)
SimElems == {[sz |-> 1, al |-> 1], [sz |-> 3, al |-> 1], [sz |-> 8, al |-> 8], [sz |-> 32, al |-> 32]}
McElems == {[sz |-> 3, al |-> 1], [sz |-> 8, al |-> 8]}
\* element layouts of growable vectors (u8, u64, a 32-byte type aligned to 32) and the wrappers their handle may sit in
VecElems == {[sz |-> 1, al |-> 1], [sz |-> 8, al |-> 8], [sz |-> 32, al |-> 32]}
VecWraps == {"none", "wd", "ws"}

\* Model-checking step relation: parameters that do not influence the successor state (zeroed; wrappers that an
\* operation ignores) are fixed, so that TLC does not generate the same successor several times.
Next ==
    \/ \E l \in Layouts, f \in Bools : Alloc(l, FALSE, f)
    \/ \E id \in LiveIds, w \in {"none", "wd"} : Dealloc(id, w)
    \/ \E id \in LiveIds, l \in Layouts, f \in Bools : Grow(id, l, FALSE, "none", f)
    \/ \E id \in LiveIds, l \in Layouts, w \in {"none", "ws"}, f \in Bools : Shrink(id, l, w, f)
    \/ \E n \in {1, 50, 600}, f \in Bools : Reserve(n, f)
    \/ \E k \in {"scope", "guard"} : EnterFrame(k)
    \/ ExitScope("return")
    \/ GuardReset
    \/ TakeCheckpoint
    \/ \E k \in 1..2 : ResetTo(k)
    \/ Reset
    \/ ResetToStart
    \/ RawRoundtrip
    \/ DropArena
    \/ AllocHuge(1)
    \/ \E id \in LiveIds : Realloc(id, "none")
    \/ EnterClaim
    \/ ExitClaim("return")
    \/ \E lvl \in ClaimLevels, op \in {"alloc", "grow", "dealloc", "shrink"}, id \in LiveIds \cup {0}, l \in {[sz |-> 8, al |-> 8], [sz |-> 3, al |-> 1]} : ClaimedOp(lvl, op, id, l)
    \/ \E n \in {1, 8, 16}, sc \in Bools : EnterAligned(n, sc)
    \/ ExitAligned("return")
    \/ \E n \in {8, 16}, bv \in Bools : EnterBmwsG(n, bv)
    \/ \E n \in {1, 8, 16}, g \in {TRUE, cfg.ga} : WithSettings(n, g)
    \/ \E e \in McElems, rv \in Bools, c0 \in {0, 3}, f \in Bools : EnterPrep(e, rv, c0, f)
    \/ \E f \in Bools : PrepPush(f)
    \/ \E f \in Bools : PrepReserve(20, f)
    \/ \E f \in Bools : PrepExtend(5, f)
    \/ PrepReserveHuge
    \/ PrepMap
    \/ PrepCommit
    \/ PrepDrop("return")
    \/ \E rv \in Bools, h \in {0, 3}, n \in {2, 5} : IterMut([sz |-> 8, al |-> 8], rv, h, n)
    \/ \E c \in Bools : FmtMut(<<3, 20>>, c)
    \/ \E h \in {0, 3}, n \in {2, 5} : IterGrow([sz |-> 8, al |-> 8], h, n)
    \/ \E c \in Bools : FmtGrow(<<3, 20>>, c)
    \/ \E id \in LiveIds, at \in {1, 8, 16} : Split(id, at)
    \/ ScopeTwice(<<L(40, 32), L(24, 4)>>)
    \/ \E tw \in {t \in TwFams : t.name \in McTw}, o \in Bools, m \in Bools, i \in Bools : AllocTryWith(tw, o, m, i, FALSE)
    \/ \E tw \in {t \in TwFams : t.name = "a32_u8"}, m \in Bools : AllocTryWith(tw, FALSE, m, FALSE, TRUE)
    \/ AllocValue("copy_u8", 3, FALSE)
    \/ \E tw \in {t \in TwFams : t.name = "u64_u64"}, m \in Bools : AllocTryWithP(tw, TRUE, m, FALSE, FALSE, TRUE)
    \/ \E e \in {[sz |-> 1, al |-> 1], [sz |-> 8, al |-> 8]}, c0 \in {0, 2}, w \in {"none", "wd", "ws"}, f \in Bools : VecNew(e, c0, w, f)
    \/ \E id \in VecIds, kh \in {<<1, "push">>, <<3, "extend_copy">>, <<2, "reserve_exact">>}, f \in Bools : VecExtend(id, kh[1], kh[2], f)
    \/ \E id \in VecIds : VecShrink(id) \/ VecTruncate(id, 0) \/ VecDrop(id) \/ VecInto(id)
    \/ VecNewG([sz |-> 8, al |-> 8], 2, "none", FALSE, TRUE)
    \/ \E id \in VecIds, kd \in {"max", "layout"} : VecReserveHuge(id, kd)

Spec == Init /\ [][Next]_vars

\* focused step relation: exclusive-borrow collections under base allocator failure with several chunks
PrepFailNext ==
    \/ Alloc([sz |-> 40, al |-> 8], FALSE, FALSE)
    \/ EnterFrame("scope")
    \/ ExitScope("return")
    \/ \E rv \in Bools : EnterPrep([sz |-> 8, al |-> 8], rv, 1, FALSE)
    \/ \E f \in Bools : PrepPush(f)
    \/ \E f \in Bools : PrepReserve(20, f)
    \/ PrepReserveHuge
    \/ PrepCommit
    \/ PrepDrop("return")
PrepFailSpec == Init /\ [][PrepFailNext]_vars

\* focused step relation: growable vectors interleaved with plain allocations and scopes, deeper than the general relation
VecMcCfgs == {c \in AllCfgs : c.ma \in {1, 8} /\ c.mcs = 0 /\ c.hs = 32 /\ c.extra = 0 /\ ~c.skew /\ c.ga}
VecNext ==
    \/ Alloc([sz |-> 8, al |-> 8], FALSE, FALSE)
    \/ \E id \in LiveIds : Dealloc(id, "none")
    \/ \E c0 \in {0, 2}, w \in {"none", "wd", "ws"} : VecNew([sz |-> 8, al |-> 8], c0, w, FALSE)
    \/ \E id \in VecIds, kh \in {<<1, "push">>, <<3, "extend_copy">>} : VecExtend(id, kh[1], kh[2], FALSE)
    \/ \E id \in VecIds : VecShrink(id) \/ VecTruncate(id, 0) \/ VecDrop(id) \/ VecInto(id)
    \/ VecNewG([sz |-> 8, al |-> 8], 2, "none", FALSE, TRUE)
    \/ \E id \in VecIds, kd \in {"max", "layout"} : VecReserveHuge(id, kd)
    \/ EnterFrame("scope")
    \/ ExitScope("return")
VecSpec == Init /\ [][VecNext]_vars

\* ---- random behaviours for the replayer (tlc -simulate): parameters are drawn with RandomElement so that every
\* step has one successor per action kind (the simulator then picks the kind uniformly), and a behaviour is printed
\* exactly once, by the Finish step
R(S) == RandomElement(S)
\* Focus: which groups of actions a simulation draws from (the general mix uses all of them; the focused mixes raise the
\* density of the situations one property is about).  G(g) guards every disjunct of SimStep.
FocusGroups ==
    CASE Focus = "prep"    -> {"alloc", "scope", "prep", "fail", "reset", "aligned"}
      [] Focus = "claim"   -> {"alloc", "dealloc", "realloc", "scope", "claim", "fail", "prep", "vec"}
      [] Focus = "aligned" -> {"alloc", "dealloc", "realloc", "scope", "aligned", "prep", "reset"}
      [] Focus = "realloc" -> {"alloc", "dealloc", "realloc", "split", "scope", "trywith", "reset", "vec"}
      [] Focus = "fail"    -> {"alloc", "realloc", "reserve", "scope", "prep", "fail", "huge", "trywith", "value", "reset", "vec"}
      [] Focus = "scope"   -> {"alloc", "dealloc", "scope", "reset", "trywith", "composite", "reserve", "claim"}
      [] OTHER             -> {"alloc", "dealloc", "realloc", "reserve", "scope", "reset", "huge", "claim", "aligned", "prep",
                               "fail", "trywith", "value", "composite", "split", "vec"}
G(g) == g \in FocusGroups

SimStep ==
    \/ (G("alloc") /\ Alloc(R(Layouts), R(Bools), FALSE))
    \/ (G("alloc") /\ Alloc(R(Layouts), FALSE, FALSE))
    \/ (G("alloc") /\ cur # 0 /\ \E a \in {R({1, 2, 4, 8, 16, 32})}, d \in {R({0 - 1, 0, 0, 1})} :
            LET n == ChunkRemaining(chunks[cur]) + d IN n >= 0 /\ Alloc([sz |-> n, al |-> a], FALSE, FALSE))
    \/ (G("dealloc") /\ LiveIds # {} /\ Dealloc(R(LiveIds), R(Wraps)))
    \/ (G("dealloc") /\ LiveIds # {} /\ Dealloc(R(LiveIds), "none"))
    \* (RandomElement is re-evaluated at every use of a LET definition: bind the drawn values with \E x \in {R(S)})
    \/ (G("realloc") /\ LiveIds # {} /\ \E id \in {R(LiveIds)} :
            LET ls == {l \in Layouts : l.sz >= blocks[id].sz} IN ls # {} /\ \E l \in {R(ls)} : Grow(id, l, R(Bools), R(Wraps), FALSE))
    \/ (G("realloc") /\ LiveIds # {} /\ \E id \in {R(LiveIds)} :
            LET ls == {l \in Layouts : l.sz <= blocks[id].sz} IN ls # {} /\ \E l \in {R(ls)} : Shrink(id, l, R(Wraps), FALSE))
    \/ (G("reserve") /\ Reserve(R({1, 50, 600, 3000}), FALSE))
    \/ (G("scope") /\ EnterFrame(R({"scope", "guard"})))
    \/ (G("scope") /\ ExitScope(R({"return", "unwind"})))
    \/ (G("scope") /\ GuardReset)
    \/ (G("scope") /\ TakeCheckpoint)
    \/ (G("scope") /\ cps # <<>> /\ ResetTo(R(1..Len(cps))))
    \/ (G("reset") /\ Reset)
    \/ (G("reset") /\ ResetToStart)
    \/ (G("reset") /\ RawRoundtrip)
    \/ (nops >= MaxOps - 3 /\ DropArena)
    \/ (G("huge") /\ AllocHuge(R({1, 8, 64})))
    \/ (G("realloc") /\ LiveIds # {} /\ Realloc(R(LiveIds), R({"none", "none", "wd", "ws"})))
    \/ (G("realloc") /\ last # 0 /\ last \in LiveIds /\ Realloc(last, "none"))
    \/ (G("claim") /\ EnterClaim)
    \/ (G("claim") /\ ExitClaim(R({"return", "unwind"})))
    \/ (G("claim") /\ ClaimLevels # {} /\ ClaimedOp(R(ClaimLevels), R({"alloc", "reserve", "stats", "claim"}), 0, R(Layouts)))
    \/ (G("claim") /\ ClaimLevels # {} /\ LiveIds # {} /\ ClaimedOp(R(ClaimLevels), R({"grow", "dealloc", "shrink"}), R(LiveIds), R(Layouts)))
    \/ (G("aligned") /\ EnterAligned(R({1, 2, 4, 8, 16}), R(Bools)))
    \/ (G("aligned") /\ ExitAligned(R({"return", "unwind"})))
    \/ (G("aligned") /\ EnterBmwsG(R({2, 4, 8, 16}), R(Bools)))
    \/ (G("aligned") /\ (WithSettings(R({1, 2, 4, 8, 16}), TRUE) \/ WithSettings(R({1, 2, 4, 8, 16}), cfg.ga)))
    \/ (G("prep") /\ EnterPrep(R(SimElems), R(Bools), R({0, 0, 1, 5, 20}), FALSE))
    \/ (G("prep") /\ CanFail /\ EnterPrep(R(SimElems), R(Bools), R({5, 20, 200}), TRUE))
    \/ (G("prep") /\ EnterPrepG([sz |-> 1, al |-> 1], FALSE, R({0, 3, 20}), FALSE, TRUE, FALSE))
    \/ (G("prep") /\ (PrepPush(FALSE) \/ (InPrep /\ PrepPush(FALSE)) \/ (InPrep /\ PrepPush(FALSE))))
    \/ (G("prep") /\ CanFail /\ PrepPush(TRUE))
    \/ (G("prep") /\ PrepReserve(R({1, 3, 10, 40, 300}), FALSE))
    \/ (G("prep") /\ CanFail /\ PrepReserve(R({10, 40, 300, 2000}), TRUE))
    \/ (G("prep") /\ PrepExtend(R({1, 2, 3, 7, 20}), FALSE))
    \/ (G("prep") /\ CanFail /\ PrepExtend(R({7, 20, 35}), TRUE))
    \/ (G("prep") /\ G("fail") /\ PrepReserveHuge)
    \/ (G("prep") /\ PrepMap)
    \* boundary capacities: exactly what the free space of the current chunk holds, one less, one more
    \/ (G("prep") /\ cur # 0 /\ \E e \in {R(SimElems)} :
            LET n == ChunkRemaining(chunks[cur]) \div e.sz IN \E d \in {R({0 - 1, 0, 0, 1})} : n + d >= 1 /\ EnterPrepG(e, R(Bools), n + d, FALSE, FALSE, R(Bools)))
    \/ (G("prep") /\ EnterPrepG(R(SimElems), R(Bools), R({1, 3, 9}), FALSE, FALSE, TRUE))
    \/ (G("prep") /\ InPrep /\ cur # 0 /\ LET f == frames[Depth]
                                              n == ChunkRemaining(chunks[cur]) \div f.esz - f.len
                                          IN \E d \in {R({0 - 1, 0, 0, 1})} : n + d >= 1 /\ f.len + n + d <= 600 /\ PrepExtend(n + d, FALSE))
    \/ (G("prep") /\ InPrep /\ cur # 0 /\ LET f == frames[Depth]
                                              n == ChunkRemaining(chunks[cur]) \div f.esz - f.len
                                          IN \E d \in {R({0 - 1, 0, 0, 1})} : n + d >= 1 /\ PrepReserve(n + d, FALSE))
    \/ (G("prep") /\ IterMut(R(SimElems), R(Bools), R({0, 0, 2, 5, 30}), R({0, 1, 3, 5, 9})))
    \/ (G("prep") /\ FmtMut(R({<<1, 1>>, <<3, 20>>, <<5, 5, 5>>, <<40, 1, 300>>, <<8, 600>>}), R(Bools)))
    \/ (G("prep") /\ PrepCommit)
    \/ (G("prep") /\ PrepDrop(R({"return", "unwind"})))
    \/ (G("trywith") /\ \E tw \in {R(TwFams)} : AllocTryWith(tw, R(Bools), R(Bools), FALSE, FALSE))
    \/ (G("trywith") /\ \E tw \in {R(TwFams)} : AllocTryWith(tw, R(Bools), FALSE, TRUE, FALSE))
    \/ (G("trywith") /\ CanFail /\ \E tw \in {R(TwFams)} : AllocTryWith(tw, R(Bools), R(Bools), FALSE, TRUE))
    \/ (G("trywith") /\ \E tw \in {R(TwFams)} : AllocTryWithP(tw, R(Bools), R(Bools), FALSE, FALSE, TRUE))
    \/ (G("value") /\ AllocValue(R(ValueFams), R({1, 3, 5, 40}), FALSE))
    \/ (G("value") /\ CanFail /\ AllocValue(R(ValueFams), R({5, 40, 700}), TRUE))
    \/ (G("composite") /\ \E w \in {R(Workloads)} : ScopeTwice(w))
    \/ (G("composite") /\ nops <= 4 /\ \E w \in {R(Workloads)} : ResetLoop(w, 6))
    \/ (G("split") /\ LiveIds # {} /\ \E id \in {R(LiveIds)} :
            LET ats == {a \in 1..(blocks[id].sz - 1) : a % blocks[id].al = 0} IN ats # {} /\ \E at \in {R(ats)} : Split(id, at))
    \/ (G("vec") /\ Cardinality(VecIds) < 3 /\ VecNew(R(VecElems), R({0, 0, 1, 4, 10}), R(VecWraps), FALSE))
    \/ (G("vec") /\ VecIds = {} /\ VecNew(R(VecElems), R({0, 1, 4}), "none", FALSE))
    \/ (G("vec") /\ G("fail") /\ CanFail /\ VecNew(R(VecElems), R({10, 100, 700}), R(VecWraps), TRUE))
    \/ (G("vec") /\ VecIds # {} /\ \E id \in {R(VecIds)} : VecExtend(id, 1, "push", FALSE))
    \/ (G("vec") /\ VecIds # {} /\ \E id \in {R(VecIds)} : VecExtend(id, 1, "push", FALSE))
    \/ (G("vec") /\ VecIds # {} /\ \E id \in {R(VecIds)} : VecExtend(id, R({1, 2, 3, 7, 20}), R(VecHows \ {"push"}), FALSE))
    \/ (G("vec") /\ VecIds # {} /\ \E id \in {R(VecIds)} : VecExtend(id, R({2, 5}), R({"within_copy", "within_clone", "extend_clone"}), FALSE))
    \/ (G("vec") /\ G("fail") /\ CanFail /\ VecIds # {} /\ \E id \in {R(VecIds)} :
            VecExtend(id, R({3, 20, 35}), R({"extend_copy", "reserve", "reserve_exact", "resize", "extend_clone"}), TRUE))
    \/ (G("vec") /\ G("fail") /\ CanFail /\ VecIds # {} /\ \E id \in {R(VecIds)} : VecExtend(id, 1, "push", TRUE))
    \/ (G("vec") /\ VecIds # {} /\ VecShrink(R(VecIds)))
    \/ (G("vec") /\ VecIds # {} /\ \E id \in {R(VecIds)} : blocks[id].vlen > 0 /\ \E n \in {R(0..(blocks[id].vlen - 1))} : VecTruncate(id, n))
    \/ (G("vec") /\ VecIds # {} /\ VecDrop(R(VecIds)))
    \/ (G("vec") /\ VecIds # {} /\ VecInto(R(VecIds)))
    \/ (G("vec") /\ Cardinality(VecIds) < 3 /\ VecNewG(R(VecElems), R({1, 2, 4, 10}), "none", FALSE, TRUE))
    \/ (G("vec") /\ G("fail") /\ VecIds # {} /\ \E id \in {R(VecIds)} : VecReserveHuge(id, R({"max", "layout"})))
    \/ (G("vec") /\ G("fail") /\ VecIds # {} /\ VecSpliceHuge(R(VecIds)))
    \/ (G("vec") /\ IterGrow(R(VecElems), R({0, 0, 2, 5, 30}), R({0, 1, 3, 5, 9, 17})))
    \/ (G("vec") /\ FmtGrow(R({<<1, 1>>, <<3, 20>>, <<5, 5, 5>>, <<40, 1, 300>>, <<8, 600>>}), R(Bools)))
    \/ (G("fail") /\ CanFail /\ Alloc(R(Layouts), FALSE, TRUE))
    \/ (G("fail") /\ CanFail /\ Reserve(R({600, 3000}), TRUE))
    \/ (G("fail") /\ CanFail /\ LiveIds # {} /\ \E id \in {R(LiveIds)} :
            LET ls == {l \in Layouts : l.sz >= blocks[id].sz} IN ls # {} /\ \E l \in {R(ls)} : Grow(id, l, FALSE, "none", TRUE))

Finish ==
    /\ nops >= 0 /\ (nops >= MaxOps \/ dropped)
    /\ PrintT(<<"REPLAY", ToJson([cfg |-> hist[1].cfg0, steps |-> hist])>>)
    /\ nops' = 0 - 1
    /\ UNCHANGED <<cfg, base, chunks, cur, ma, frames, blocks, cps, nextId, order, parts, last, fails, dropped, hist>>

SimNext == (nops >= 0 /\ nops < MaxOps /\ ~dropped /\ SimStep) \/ Finish
SimSpec == Init /\ [][SimNext]_vars

Bound == nops < MaxOps

\* emit complete behaviours for the replayer (always true; prints when the bound is reached)
EmitAtBound == (nops = MaxOps \/ dropped) => PrintT(<<"REPLAY", ToJson([cfg |-> hist[1].cfg0, steps |-> hist])>>)

\* the settings tuples compiled into the default (quick) replay binary -- keep in sync with harness/replay/src/main.rs
QuickCombo(c) ==
    <<c.up, c.ga, c.dealloc, c.shrinks, c.mcs, c.hs>> \in
        { <<TRUE, TRUE, TRUE, TRUE, 0, 32>>, <<FALSE, TRUE, TRUE, TRUE, 0, 48>>, <<TRUE, FALSE, TRUE, TRUE, 0, 128>>,
          <<FALSE, FALSE, TRUE, TRUE, 512, 32>>, <<TRUE, TRUE, FALSE, TRUE, 512, 48>>, <<FALSE, TRUE, FALSE, FALSE, 0, 128>>,
          <<TRUE, TRUE, TRUE, FALSE, 0, 32>>, <<FALSE, FALSE, TRUE, FALSE, 512, 48>>, <<TRUE, FALSE, TRUE, TRUE, 0, 48>>,
          <<FALSE, FALSE, TRUE, TRUE, 512, 128>>, <<TRUE, TRUE, TRUE, TRUE, 512, 128>>, <<FALSE, TRUE, TRUE, FALSE, 0, 32>> }
QuickCfgs == {c \in AllCfgs : QuickCombo(c)}

\* thorough replay binary (feature "full"): all 32 settings combinations, each with one base allocator flavour in rotation,
\* plus the quick tuples -- keep in sync with harness/replay/src/main.rs
B2N(b) == IF b THEN 1 ELSE 0
ComboIndex(c) == 16 * B2N(c.up) + 8 * B2N(c.ga) + 4 * B2N(c.dealloc) + 2 * B2N(c.shrinks) + B2N(c.mcs = 512)
FullCfgs == QuickCfgs \cup {c \in AllCfgs : c.hs = <<32, 48, 128>>[(ComboIndex(c) % 3) + 1]}
\* ---- boundary grid: EVERY behaviour "constructor ; [one allocation that leaves a residue] ; one request sized to the free space of
\* the current chunk exactly / one less / one more ; [finalise]" -- emitted by model checking with the history in the state
GridCfgs == {c \in QuickCfgs : c.ma \in {1, 16} /\ c.extra = 0}
GridCtors == {[k |-> "new", n |-> 0, al |-> 1], [k |-> "with_size", n |-> 200, al |-> 1]}
GridPre == {[sz |-> 1, al |-> 1], [sz |-> 8, al |-> 8], [sz |-> 16, al |-> 16], [sz |-> 24, al |-> 8], [sz |-> 40, al |-> 32]}
GridNext ==
    \/ nops = 0 /\ \E l \in GridPre \cup {[sz |-> 0, al |-> 1]} : Alloc(l, FALSE, FALSE)
    \/ nops = 1 /\ cur # 0 /\
         \/ \E e \in SimElems, rv \in Bools, d \in {0 - 1, 0, 1}, init \in Bools :
                LET n == ChunkRemaining(chunks[cur]) \div e.sz IN n + d >= 1 /\ EnterPrepG(e, rv, n + d, FALSE, FALSE, init)
         \/ \E a \in {1, 8, 32}, d \in {0 - 1, 0, 1} :
                LET n == ChunkRemaining(chunks[cur]) + d IN n >= 0 /\ Alloc([sz |-> n, al |-> a], FALSE, FALSE)
         \/ \E e \in VecElems, d \in {0 - 1, 0, 1} :
                LET n == ChunkRemaining(chunks[cur]) \div e.sz IN n + d >= 1 /\ VecNew(e, n + d, "none", FALSE)
    \/ nops = 2 /\
         \/ InPrep /\ PrepCommit
         \/ \E id \in VecIds : VecExtend(id, 1, "push", FALSE)
         \/ ~InPrep /\ VecIds = {} /\ Alloc([sz |-> 8, al |-> 8], FALSE, FALSE)
GridSpec == Init /\ [][GridNext]_vars

\* capacity grid: with_capacity constructors for sizes around the rounding boundaries of the chunk size computation, followed by
\* the allocation of exactly that layout (which must fit the chunk the constructor made)
CapCtors == {[k |-> "with_capacity", n |-> n, al |-> a] :
                n \in {1, 3, 100, 430, 440, 448, 456, 464, 465, 472, 480, 488, 496, 504, 512, 520, 600, 4000, 4040, 4049, 4064, 4080, 4096, 4100},
                a \in {1, 8, 32}}
CapNext == nops = 0 /\ LET k == hist[1].args IN Alloc([sz |-> k.n, al |-> k.al], FALSE, FALSE)
CapSpec == Init /\ [][CapNext]_vars
=============================================================================
