SPECIFICATION Spec
CONSTANT W = 30
CHECK_DEADLOCK FALSE
