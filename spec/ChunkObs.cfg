SPECIFICATION Spec
CONSTANT W = 29
CHECK_DEADLOCK FALSE
