SPECIFICATION CSpec
CONSTANTS
    Threads = {1, 2, 3, 4, 5, 6, 7, 8}
POSTCONDITION Done
