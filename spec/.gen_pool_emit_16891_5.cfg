SPECIFICATION SSpec
CONSTANTS
    Threads = {1, 2, 3}
    MaxRounds = 3
    MaxChunks = 100
    MaxPoolOps = 2
    CreateUnderLock = TRUE
    MayFail = TRUE
    MayForget = TRUE
INVARIANT Emit
