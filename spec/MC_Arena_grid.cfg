SPECIFICATION GridSpec
CONSTANTS
    Focus = "general"
    Cfgs <- GridCfgs
    Ctors <- GridCtors
    Layouts <- McLayouts
    MaxOps = 3
    MaxBlocks = 8
    MaxDepth = 3
    RecordHist = TRUE
    MaxFail = 0
CONSTRAINT Bound
INVARIANT EmitAtBound
CHECK_DEADLOCK FALSE
