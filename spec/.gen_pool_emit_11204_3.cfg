SPECIFICATION PSpec
CONSTANTS
    Threads = {1, 2}
    MaxRounds = 3
    MaxChunks = 100
    MaxPoolOps = 0
    CreateUnderLock = TRUE
    MayFail = FALSE
    MayForget = FALSE
INVARIANT Emit
