SPECIFICATION Spec
CONSTANTS
    Roots <- AllRoots
    MaxOpen = 1
    MaxMid = 2
    FamsFull <- NoFams
    FamsRep <- RepFams
    FullDepth = 0
INVARIANT Emit
INVARIANT ReportHoles
CHECK_DEADLOCK FALSE
