SPECIFICATION Spec
CONSTANT W = 16
CONSTANT MaxAlK = 13
CONSTANT Quick = FALSE
INVARIANT ChunkSizeMeetsContract
CHECK_DEADLOCK FALSE
