\* Behaviour emission "families" (what bin/check C04 --tier quick runs): every root, every producer family in every
\* way of writing it, one opener before and at most two statements after the producer.
\* `INVARIANT HasControl` (every hazardous behaviour has a re-validated control) is also enforced by the check on the
\* emitted records (ctlkind # "none"); keep it here for manual runs.
SPECIFICATION Spec
CONSTANTS
    Roots <- AllRoots
    MaxOpen = 1
    MaxMid = 2
    FamsFull <- AllFams
    FamsRep <- RepFams
    FullMid = 1
    FullDepth = 1
    OpenOps <- AllOpenOps
    WideOpen = FALSE
    Paths <- AllPaths
INVARIANT Emit
INVARIANT HasControl
INVARIANT ReportHoles
CHECK_DEADLOCK FALSE
