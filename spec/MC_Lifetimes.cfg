SPECIFICATION Spec
CONSTANTS
    Roots <- AllRoots
    MaxOpen = 2
    MaxMid = 2
    FamsFull <- NoFams
    FamsRep <- RepFams
    FullDepth = 0
INVARIANT Emit
INVARIANT HasControl
INVARIANT ReportHoles
CHECK_DEADLOCK FALSE
