SPECIFICATION Spec
CONSTANTS
  Kinds = {"B", "F", "V", "M", "R"}
  ZstChoices = {TRUE}
  KeyModes = {"pair"}
  InitLens = {0, 2}
  InitSpare = {0, 1}
  MaxLen = 4
  MaxIds = 10
  MaxOps = 1
  MaxSlots = 3
  Inject = FALSE
  Ops = {"push", "insert", "remove", "pop", "pop_if", "truncate", "resize", "extend_from_slice", "extend_from_within", "extend", "append", "append_slot", "reserve", "shrink", "retain", "dedup", "drain", "extract_if", "splice", "into_iter", "map", "convert", "leak", "new", "flatten", "split_off", "split_at", "split_ends", "split_at_spare", "partition", "merge", "box_one", "observe", "early_close"}
CHECK_DEADLOCK FALSE
INVARIANTS Emit
