SPECIFICATION SimSpec
CONSTANTS
    Focus = "general"
    Cfgs <- FullCfgs
    Ctors <- SimCtors
    Layouts <- SimLayouts
    MaxOps = 30
    MaxBlocks = 8
    MaxDepth = 3
    RecordHist = TRUE
    MaxFail = 2
CHECK_DEADLOCK FALSE
