---------------------------- MODULE LifetimesObs ----------------------------
(***************************************************************************)
(* C04 verdict table: model classification (Lifetimes.tla) vs. the         *)
(* compiler's verdict for every generated program.  One NDJSON record per  *)
(* program:                                                                *)
(*   id, cls ("hazard" | "control" | "safe"), hazardous (from the model),  *)
(*   pred_rej (signature table of the model rejects), cat ("borrow" |      *)
(*   "thread" | "settings"), accepted (rustc), codes (error codes located  *)
(*   in the function; "lifetime" = the code-less NLL region error),        *)
(*   fam, why (escape route), ops (statement kinds of the program).        *)
(*                                                                         *)
(* CONTRACT (C04):  hazardous => ~accepted, and the rejection is a borrow /*)
(*   lifetime / Send / const-assertion error (anything else means the      *)
(*   generator produced an ill-typed program: tool error, never a verdict).*)
(* CONTROL:         control => accepted  (else tool error).                *)
(* DRIFT:           safe programs: rustc verdict # signature-table verdict.*)
(***************************************************************************)
EXTENDS Naturals, Sequences, FiniteSets, TLC, Json, IOUtils

VARIABLE done

Rec == ndJsonDeserialize(IOEnv.OBS)
N == Len(Rec)

BorrowCodes == {"E0499", "E0501", "E0502", "E0503", "E0505", "E0506", "E0515", "E0521", "E0597", "E0713", "E0716",
                "E0373", "lifetime"}
Allowed(cat) == CASE cat = "borrow"   -> BorrowCodes
                  [] cat = "thread"   -> BorrowCodes \cup {"E0277"}
                  [] cat = "settings" -> {"E0080"}
Required(cat) == CASE cat = "borrow"   -> BorrowCodes
                   [] cat = "thread"   -> {"E0277"}
                   [] cat = "settings" -> {"E0080"}
Codes(r) == {r.codes[i] : i \in 1..Len(r.codes)}

\* a rejection that counts: only borrow-class errors, at least one of the kind the escape route calls for
ProperlyRejected(r) == ~r.accepted /\ Codes(r) \subseteq Allowed(r.cat) /\ Codes(r) \cap Required(r.cat) # {}

Violation(r) == r.hazardous /\ r.accepted                                   \* C04 is violated
IllTyped(r)  == ~r.accepted /\ ~ProperlyRejected(r)                         \* generator bug
CtlBad(r)    == r.cls = "control" /\ (~r.accepted \/ r.hazardous)           \* generator / model bug
Drift(r)     == r.cls = "safe" /\ r.accepted = r.pred_rej                   \* signature table # rustc
\* the model's own design-level claim, re-evaluated on the records: hazardous programs the signature table accepts
SigHole(r)   == r.hazardous /\ ~r.pred_rej

Idx(P(_)) == {i \in 1..N : P(Rec[i])}

HazOK == {i \in 1..N : Rec[i].hazardous /\ ProperlyRejected(Rec[i])}
\* non-vacuity: which families / escape routes / statement kinds occur in properly rejected hazardous programs and
\* in accepted controls
FamsH == {Rec[i].fam : i \in HazOK}
FamsC == {Rec[i].fam : i \in {i \in 1..N : Rec[i].cls = "control" /\ Rec[i].accepted}}
WhyH  == {Rec[i].why : i \in HazOK}
OpsH  == UNION {{Rec[i].ops[k] : k \in 1..Len(Rec[i].ops)} : i \in HazOK}
OpsC  == UNION {{Rec[i].ops[k] : k \in 1..Len(Rec[i].ops)} : i \in {i \in 1..N : Rec[i].cls = "control" /\ Rec[i].accepted}}

Init == /\ done = TRUE
        /\ PrintT(<<"CHECKED", N>>)
        /\ PrintT(<<"HAZOK", Cardinality(HazOK)>>)
        /\ PrintT(<<"BAD", Idx(Violation)>>)
        /\ PrintT(<<"ILLTYPED", Idx(IllTyped)>>)
        /\ PrintT(<<"CTLBAD", Idx(CtlBad)>>)
        /\ PrintT(<<"DRIFT", Idx(Drift)>>)
        /\ PrintT(<<"SIGHOLES", Idx(SigHole)>>)
        /\ PrintT(<<"FAMSH", FamsH>>)
        /\ PrintT(<<"FAMSC", FamsC>>)
        /\ PrintT(<<"WHYH", WhyH>>)
        /\ PrintT(<<"OPSH", OpsH>>)
        /\ PrintT(<<"OPSC", OpsC>>)
Next == UNCHANGED done
Spec == Init /\ [][Next]_done
=============================================================================
