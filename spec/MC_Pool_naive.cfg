\* EXPECTED TO FAIL: "created <= peak" with peak counting only guards between `get returned` and `drop called`
\* is not an invariant of the code (see the header of Pool.tla); TLC exhibits the behaviour.
SPECIFICATION Spec
CONSTANTS
    Threads = {1, 2}
    MaxRounds = 1
    MaxChunks = 1
    MaxPoolOps = 0
    CreateUnderLock = TRUE
    MayFail = FALSE
    MayForget = FALSE
    MayPanic = FALSE
INVARIANTS NaiveReuse
