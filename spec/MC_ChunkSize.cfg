SPECIFICATION Spec
CONSTANT W = 16
CONSTANT MaxAlK = 9
CONSTANT Quick = TRUE
INVARIANT ChunkSizeMeetsContract
CHECK_DEADLOCK FALSE
