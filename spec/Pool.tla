-------------------------------- MODULE Pool --------------------------------
(***************************************************************************)
(* BumpPool (src/bump_pool.rs) -- property C19.                            *)
(*                                                                         *)
(* The pool is `Mutex<Vec<Bump>>` (a stack of idle arenas) plus RAII       *)
(* guards.  This module is written the way the code runs: one program      *)
(* counter per thread whose values are exactly the points at which the     *)
(* conformance harness (harness/pool) can park a real thread:              *)
(*                                                                         *)
(*   idle       harness: before calling get* (and after drop returned)     *)
(*   get_want   hook POOL_LOCK_BEFORE inside BumpPool::lock, called by get *)
(*   get_cs     hook POOL_LOCK_HELD: mutex held, `pop` not executed yet    *)
(*   get_create inside the base allocator's first `allocate` for a new    *)
(*              arena (pop = None): the instant of creation               *)
(*   get_post   hook POOL_GET_AFTER: mutex released, arena in hand         *)
(*   holding    harness: get returned a guard                              *)
(*   used       harness: blocks were allocated and written through it      *)
(*   drop_want  hook POOL_LOCK_BEFORE called by BumpPoolGuard::drop        *)
(*   drop_cs    hook POOL_LOCK_HELD: mutex held, `push` not executed yet   *)
(*   drop_post  hook POOL_PUT_AFTER: arena pushed, mutex released          *)
(*                                                                         *)
(* Instead of dropping the guard a thread may pass it to mem::forget (the   *)
(* documented way to keep an arena for ever, see the SAFETY comment of      *)
(* `Deref for BumpPoolGuard`): the arena is never returned, never reset and *)
(* never released, and its guard counts as live for ever (Forget).          *)
(*                                                                         *)
(* One action per transition, so a TLC behaviour is a schedule the harness *)
(* can force step by step, and one logged event per action, so a recorded  *)
(* execution can be validated action by action (PoolTrace.tla).            *)
(*                                                                         *)
(* WHERE THE ARENA IS CREATED.  `get` is                                   *)
(*     let bump = match self.lock().pop() { Some(b) => b,                  *)
(*                                          None => Bump::new_in(..) };    *)
(* The MutexGuard returned by `lock()` is a temporary of the match         *)
(* scrutinee, and Rust keeps scrutinee temporaries alive until the end of  *)
(* the match: the new arena is created WHILE THE MUTEX IS HELD (confirmed  *)
(* on the real code: with a thread parked in the allocator's `clone`, no   *)
(* other thread gets past `lock()`).  CreateUnderLock = TRUE models this.  *)
(* Looking for an idle arena and creating a new one is therefore ONE       *)
(* atomic step of the pool, and that is what the reuse clause of C19 needs *)
(* ("an arena returned by a dropped guard is reused before a new one is    *)
(* created"): at the instant an arena is created -- the first request to   *)
(* the base allocator for it -- no arena is idle (CreatedOnlyWhenIdleEmpty). *)
(* CreateUnderLock = FALSE models the variant in which the guard is        *)
(* dropped right after `pop` and the arena is created outside the critical *)
(* section.  It looks like a harmless refactoring ("don't call the base     *)
(* allocator while holding the lock") but VIOLATES C19: a guard dropped    *)
(* between the empty lookup and the creation returns its arena, and get    *)
(* still creates a fresh one -- more arenas than guards were ever live at  *)
(* the same time.  MC_Pool_outside.cfg makes TLC exhibit that behaviour    *)
(* (an expected refutation, like MC_Pool_naive.cfg); the variant is also   *)
(* what the PROBE schedules of the conformance harness are generated from. *)
(*                                                                         *)
(* WHAT "PEAK NUMBER OF LIVE GUARDS" MUST COUNT.  The pool cannot see a    *)
(* guard; it sees an arena leave the stack (pop) or come into being        *)
(* (creation, when the stack is empty) and come back (push).  A thread     *)
(* OWNS an arena from the moment the arena is in its hands -- popped, or   *)
(* created -- until the push inside drop's critical section; this interval *)
(* contains the life of the guard object (constructed right after,         *)
(* destroyed right before).  The invariant that follows from the code is   *)
(*      number of arenas ever created  <=  peak                            *)
(* where peak is the maximum number of simultaneous OWNERS (ReuseOK), and  *)
(* it is an equality (ReuseTight).                                         *)
(* With the narrower count "get has returned and drop has not been called  *)
(* yet" (speak below) the inequality is FALSE for the code: T1 holds the   *)
(* only arena and has entered drop but not pushed yet, T2's get finds the  *)
(* stack empty and creates a second arena although the two guards were     *)
(* never usable at the same time (MC_Pool_naive.cfg lets TLC exhibit this  *)
(* behaviour).  A guard that is being dropped still counts as live.        *)
(***************************************************************************)
EXTENDS Naturals, Sequences, FiniteSets, PoolClauses

CONSTANTS Threads,          \* non-empty finite set of positive naturals
          MaxRounds,        \* get/use/drop rounds per thread between two pool-wide operations
          MaxChunks,        \* bound of the abstract chunk count of one arena
          MaxPoolOps,       \* number of PoolReset / PoolResetToStart steps before PoolDrop
          CreateUnderLock,  \* see above
          MayFail,          \* TRUE: creating an arena may fail (try_get* returns Err)
          MayForget,        \* TRUE: a guard may be leaked with mem::forget instead of being dropped
          MayPanic          \* TRUE: creating an arena may panic inside the critical section (poisons the pool mutex)

VARIABLES pc,       \* [Threads -> program counter]
          mutex,    \* owner of the pool mutex, or NoThread
          idle,     \* the Vec<Bump>: sequence of arena ids, last = top of the stack
          used,     \* set of arena ids that have been created (and not yet released by PoolDrop)
          has,      \* [Threads -> arena id in the thread's hands (popped / being created .. pushed), or NoArena]
          fresh,    \* [Threads -> BOOLEAN] the arena in hand was created by this get
          blocks,   \* [used -> set of block tags <<thread, phase, round>>] allocated in the arena since its last reset
          chunks,   \* [used -> number of chunks of the arena] (abstract: 1 after creation / reset, grows in Use)
          round,    \* [Threads -> completed rounds in the current phase]
          phase,    \* number of pool-wide resets so far
          alive,    \* the pool exists
          nseq,     \* number of critical sections entered so far (the sequence number the harness takes under the lock)
          peak,     \* history: maximum number of simultaneous owners
          speak,    \* history: maximum number of threads strictly between `get returned` and `drop called`
          written,  \* history: <<arena, tag>> of every block allocated since the arena's last reset
          everCreated, \* history: number of arenas ever created (survives PoolDrop)
          leaked,   \* arenas whose guard was passed to mem::forget: never returned, never released, valid for ever
          poisoned  \* a thread panicked while it held the pool mutex (std::sync::Mutex poisoning); nothing depends on it

vars == <<pc, mutex, idle, used, has, fresh, blocks, chunks, round, phase, alive, nseq, peak, speak, written, everCreated, leaked, poisoned>>

PCs == {"idle", "get_want", "get_cs", "get_create", "get_post", "holding", "used", "drop_want", "drop_cs", "drop_post"}

\* owners: threads with an existing arena in their hands (while the arena is still being created it is not counted)
Owners(h, p)   == {t \in Threads : h[t] # NoArena /\ p[t] # "get_create"}
StrictLive(p)  == {t \in Threads : p[t] \in {"holding", "used"}}
InHands        == {has[t] : t \in Threads} \ {NoArena}
\* a fresh arena id for the model checker; PoolTrace binds the id that the implementation reports instead
MaxId(S)       == IF S = {} THEN 0 ELSE CHOOSE m \in S : \A x \in S : x <= m
NewArena       == MaxId(used \cup InHands) + 1

-----------------------------------------------------------------------------
Init ==
    /\ pc = [t \in Threads |-> "idle"]
    /\ mutex = NoThread
    /\ idle = <<>>
    /\ used = {}
    /\ has = [t \in Threads |-> NoArena]
    /\ fresh = [t \in Threads |-> FALSE]
    /\ blocks = <<>>
    /\ chunks = <<>>
    /\ round = [t \in Threads |-> 0]
    /\ phase = 0
    /\ alive = TRUE
    /\ nseq = 0
    /\ peak = 0
    /\ speak = 0
    /\ written = {}
    /\ everCreated = 0
    /\ leaked = {}
    /\ poisoned = FALSE

\* every action moves exactly one thread; the two history maxima are maintained here
Goto(t, l, h) ==
    /\ pc' = [pc EXCEPT ![t] = l]
    /\ peak' = Max(peak, Cardinality(Owners(h, [pc EXCEPT ![t] = l])) + Cardinality(leaked))   \* a forgotten guard stays live for ever
    /\ speak' = Max(speak, Cardinality(StrictLive([pc EXCEPT ![t] = l])))

(*************************** BumpPool::get* ********************************)
GetCall(t) ==                                  \* the thread calls get / try_get / get_with_size / ...
    /\ alive /\ pc[t] = "idle" /\ round[t] < MaxRounds
    /\ Goto(t, "get_want", has)
    /\ UNCHANGED <<mutex, idle, used, has, fresh, blocks, chunks, round, phase, alive, nseq, written, everCreated, leaked, poisoned>>

GetLock(t) ==                                  \* self.bumps.lock() succeeds
    /\ pc[t] = "get_want" /\ mutex = NoThread
    /\ mutex' = t
    /\ nseq' = nseq + 1
    /\ Goto(t, "get_cs", has)
    /\ UNCHANGED <<idle, used, has, fresh, blocks, chunks, round, phase, alive, written, everCreated, leaked, poisoned>>

GetPop(t) ==                                   \* pop() = Some(bump); the MutexGuard temporary is dropped
    /\ pc[t] = "get_cs" /\ mutex = t /\ idle # <<>>
    /\ LET h == [has EXCEPT ![t] = idle[Len(idle)]] IN
       /\ has' = h
       /\ Goto(t, "get_post", h)
    /\ idle' = SubSeq(idle, 1, Len(idle) - 1)
    /\ fresh' = [fresh EXCEPT ![t] = FALSE]
    /\ mutex' = NoThread
    /\ UNCHANGED <<used, blocks, chunks, round, phase, alive, nseq, written, everCreated, leaked, poisoned>>

GetCreateBegin(t, a) ==                        \* pop() = None: self.allocator.clone() for arena `a`
    /\ pc[t] = "get_cs" /\ mutex = t /\ idle = <<>>
    /\ a # NoArena /\ a \notin used /\ a \notin InHands
    /\ LET h == [has EXCEPT ![t] = a] IN
       /\ has' = h
       /\ Goto(t, "get_create", h)
    /\ mutex' = IF CreateUnderLock THEN mutex ELSE NoThread
    /\ UNCHANGED <<idle, used, fresh, blocks, chunks, round, phase, alive, nseq, written, everCreated, leaked, poisoned>>

GetCreateEnd(t) ==                             \* Bump::new_in(..) returned: first chunk allocated
    /\ pc[t] = "get_create"
    /\ used' = used \cup {has[t]}
    /\ blocks' = [a \in used' |-> IF a = has[t] THEN {} ELSE blocks[a]]
    /\ chunks' = [a \in used' |-> IF a = has[t] THEN 1 ELSE chunks[a]]
    /\ fresh' = [fresh EXCEPT ![t] = TRUE]
    /\ mutex' = IF CreateUnderLock THEN NoThread ELSE mutex
    /\ everCreated' = everCreated + 1
    /\ Goto(t, "get_post", has)
    /\ UNCHANGED <<idle, has, round, phase, alive, nseq, written, leaked, poisoned>>

GetCreateFail(t) ==                            \* Bump::try_new_in(..)? returned Err: try_get* returns Err, no guard
    /\ MayFail /\ pc[t] = "get_create"
    /\ LET h == [has EXCEPT ![t] = NoArena] IN
       /\ has' = h
       /\ Goto(t, "idle", h)
    /\ mutex' = IF CreateUnderLock THEN NoThread ELSE mutex
    /\ round' = [round EXCEPT ![t] = @ + 1]
    /\ UNCHANGED <<idle, used, fresh, blocks, chunks, phase, alive, nseq, written, everCreated, leaked, poisoned>>

GetPanic(t) ==                                 \* pop() = None and creating the arena PANICS before anything is allocated
    \* (e.g. get_with_size(usize::MAX): capacity overflow).  The MutexGuard is dropped by the unwinding thread, which
    \* poisons the mutex; every later `lock()` recovers the vector with PoisonError::into_inner, so the pool works as
    \* before: guards that are alive or handed out later still return their arenas, reset / drop still cover every arena.
    /\ MayPanic /\ pc[t] = "get_cs" /\ mutex = t /\ idle = <<>>
    /\ mutex' = NoThread
    /\ poisoned' = TRUE
    /\ round' = [round EXCEPT ![t] = @ + 1]
    /\ Goto(t, "idle", has)
    /\ UNCHANGED <<idle, used, has, fresh, blocks, chunks, phase, alive, nseq, written, everCreated, leaked>>

GetReturn(t) ==                                \* the BumpPoolGuard is constructed and returned
    /\ pc[t] = "get_post"
    /\ Goto(t, "holding", has)
    /\ UNCHANGED <<mutex, idle, used, has, fresh, blocks, chunks, round, phase, alive, nseq, written, everCreated, leaked, poisoned>>

(************************** through the guard ******************************)
Use(t, grow) ==                                \* allocate + write blocks tagged <<t, phase, round>>; the arena may need a new chunk
    /\ pc[t] = "holding"
    /\ grow \in 0..(MaxChunks - chunks[has[t]])
    /\ LET a == has[t]  tag == <<t, phase, round[t]>> IN
       /\ blocks' = [blocks EXCEPT ![a] = @ \cup {tag}]
       /\ chunks' = [chunks EXCEPT ![a] = @ + grow]
       /\ written' = written \cup {<<a, tag>>}
    /\ Goto(t, "used", has)
    /\ UNCHANGED <<mutex, idle, used, has, fresh, round, phase, alive, nseq, everCreated, leaked, poisoned>>

(************************ BumpPoolGuard::drop ******************************)
DropCall(t) ==                                 \* ManuallyDrop::take; about to lock
    /\ pc[t] = "used"
    /\ Goto(t, "drop_want", has)
    /\ UNCHANGED <<mutex, idle, used, has, fresh, blocks, chunks, round, phase, alive, nseq, written, everCreated, leaked, poisoned>>

DropLock(t) ==
    /\ pc[t] = "drop_want" /\ mutex = NoThread
    /\ mutex' = t
    /\ nseq' = nseq + 1
    /\ Goto(t, "drop_cs", has)
    /\ UNCHANGED <<idle, used, has, fresh, blocks, chunks, round, phase, alive, written, everCreated, leaked, poisoned>>

DropPush(t) ==                                 \* push(bump); the MutexGuard temporary is dropped
    /\ pc[t] = "drop_cs" /\ mutex = t
    /\ idle' = Append(idle, has[t])
    /\ LET h == [has EXCEPT ![t] = NoArena] IN
       /\ has' = h
       /\ Goto(t, "drop_post", h)
    /\ mutex' = NoThread
    /\ UNCHANGED <<used, fresh, blocks, chunks, round, phase, alive, nseq, written, everCreated, leaked, poisoned>>

DropReturn(t) ==
    /\ pc[t] = "drop_post"
    /\ round' = [round EXCEPT ![t] = @ + 1]
    /\ Goto(t, "idle", has)
    /\ UNCHANGED <<mutex, idle, used, has, fresh, blocks, chunks, phase, alive, nseq, written, everCreated, leaked, poisoned>>

Forget(t) ==                                   \* mem::forget(guard): the arena never comes back and is never released
    /\ MayForget /\ pc[t] = "used"
    /\ leaked' = leaked \cup {has[t]}
    /\ has' = [has EXCEPT ![t] = NoArena]
    /\ pc' = [pc EXCEPT ![t] = "idle"]
    /\ round' = [round EXCEPT ![t] = @ + 1]
    /\ speak' = speak /\ peak' = peak           \* the owner count does not change: the guard is live for ever
    /\ UNCHANGED <<mutex, idle, used, fresh, blocks, chunks, phase, alive, nseq, written, everCreated, poisoned>>

(********** pool-wide operations: need `&mut self`, i.e. no guard and no call in progress **********)
Quiescent == \A t \in Threads : pc[t] = "idle"

InIdle(a) == a \in Range(idle)

PoolReset ==                                   \* for bump in self.bumps() { bump.reset() }: keep one chunk, forget all blocks
    /\ alive /\ Quiescent /\ phase < MaxPoolOps
    /\ blocks' = [a \in used |-> IF InIdle(a) THEN {} ELSE blocks[a]]
    /\ chunks' = [a \in used |-> IF InIdle(a) THEN 1 ELSE chunks[a]]
    /\ written' = {w \in written : ~InIdle(w[1])}
    /\ phase' = phase + 1
    /\ round' = [t \in Threads |-> 0]
    /\ UNCHANGED <<pc, mutex, idle, used, has, fresh, alive, nseq, peak, speak, everCreated, leaked, poisoned>>

PoolResetToStart ==                            \* bump.reset_to_start(): keep every chunk, forget all blocks
    /\ alive /\ Quiescent /\ phase < MaxPoolOps
    /\ blocks' = [a \in used |-> IF InIdle(a) THEN {} ELSE blocks[a]]
    /\ written' = {w \in written : ~InIdle(w[1])}
    /\ phase' = phase + 1
    /\ round' = [t \in Threads |-> 0]
    /\ UNCHANGED <<pc, mutex, idle, used, has, fresh, chunks, alive, nseq, peak, speak, everCreated, leaked, poisoned>>

PoolDrop ==                                    \* drop(pool): every idle arena is dropped, i.e. all its chunks are released
    /\ alive /\ Quiescent
    /\ alive' = FALSE
    /\ used' = used \ Range(idle)
    /\ blocks' = [a \in used' |-> blocks[a]]
    /\ chunks' = [a \in used' |-> chunks[a]]
    /\ written' = {w \in written : ~InIdle(w[1])}
    /\ idle' = <<>>
    /\ UNCHANGED <<pc, mutex, has, fresh, round, phase, nseq, peak, speak, everCreated, leaked, poisoned>>

-----------------------------------------------------------------------------
(* Labelled steps: <<thread, label, argument>> names one step; thread 0 is the owner of the pool.  Used by the     *)
(* schedule emission (MC_PoolSched.tla), which records the labels in a history variable.                           *)
ThreadLabels == {"GetCall", "GetLock", "GetPop", "GetCreateBegin", "GetCreateEnd", "GetCreateFail", "GetPanic", "GetReturn",
                 "Use", "DropCall", "DropLock", "DropPush", "DropReturn", "Forget"}
MainLabels   == {"PoolReset", "PoolResetToStart", "PoolDrop"}

ThreadStep(t, l, x) ==
    \/ l = "GetCall"        /\ x = 0 /\ GetCall(t)
    \/ l = "GetLock"        /\ x = 0 /\ GetLock(t)
    \/ l = "GetPop"         /\ x = 0 /\ GetPop(t)
    \/ l = "GetCreateBegin" /\ GetCreateBegin(t, x)
    \/ l = "GetCreateEnd"   /\ x = 0 /\ GetCreateEnd(t)
    \/ l = "GetCreateFail"  /\ x = 0 /\ GetCreateFail(t)
    \/ l = "GetPanic"       /\ x = 0 /\ GetPanic(t)
    \/ l = "GetReturn"      /\ x = 0 /\ GetReturn(t)
    \/ l = "Use"            /\ Use(t, x)
    \/ l = "DropCall"       /\ x = 0 /\ DropCall(t)
    \/ l = "DropLock"       /\ x = 0 /\ DropLock(t)
    \/ l = "DropPush"       /\ x = 0 /\ DropPush(t)
    \/ l = "DropReturn"     /\ x = 0 /\ DropReturn(t)
    \/ l = "Forget"         /\ x = 0 /\ Forget(t)

MainStep(l) ==
    \/ l = "PoolReset"        /\ PoolReset
    \/ l = "PoolResetToStart" /\ PoolResetToStart
    \/ l = "PoolDrop"         /\ PoolDrop

Args(l) == IF l = "Use" THEN {0, 1} ELSE IF l = "GetCreateBegin" THEN {NewArena} ELSE {0}

\* the next-state relation, one named disjunct per action (TLC's coverage is reported per disjunct)
ThreadNext(t) ==
    \/ GetCall(t) \/ GetLock(t) \/ GetPop(t) \/ GetCreateBegin(t, NewArena) \/ GetCreateEnd(t) \/ GetCreateFail(t) \/ GetPanic(t)
    \/ GetReturn(t) \/ (\E g \in {0, 1} : Use(t, g))
    \/ DropCall(t) \/ DropLock(t) \/ DropPush(t) \/ DropReturn(t) \/ Forget(t)

Next ==
    \/ \E t \in Threads : GetCall(t)
    \/ \E t \in Threads : GetLock(t)
    \/ \E t \in Threads : GetPop(t)
    \/ \E t \in Threads : GetCreateBegin(t, NewArena)
    \/ \E t \in Threads : GetCreateEnd(t)
    \/ \E t \in Threads : GetCreateFail(t)
    \/ \E t \in Threads : GetPanic(t)
    \/ \E t \in Threads : GetReturn(t)
    \/ \E t \in Threads : \E g \in {0, 1} : Use(t, g)
    \/ \E t \in Threads : DropCall(t)
    \/ \E t \in Threads : DropLock(t)
    \/ \E t \in Threads : DropPush(t)
    \/ \E t \in Threads : DropReturn(t)
    \/ \E t \in Threads : Forget(t)
    \/ PoolReset
    \/ PoolResetToStart
    \/ PoolDrop

Spec     == Init /\ [][Next]_vars
\* weak fairness per thread is enough for progress because the number of rounds is bounded
FairSpec == Spec /\ \A t \in Threads : WF_vars(ThreadNext(t))

-----------------------------------------------------------------------------
TypeOK ==
    /\ pc \in [Threads -> PCs]
    /\ mutex \in Threads \cup {NoThread}
    /\ \A i \in DOMAIN idle : idle[i] \in used
    /\ has \in [Threads -> Nat]
    /\ fresh \in [Threads -> BOOLEAN]
    /\ DOMAIN blocks = used /\ DOMAIN chunks = used
    /\ \A a \in used : chunks[a] \in 1..MaxChunks
    /\ round \in [Threads -> 0..MaxRounds]
    /\ phase \in 0..MaxPoolOps
    /\ alive \in BOOLEAN
    /\ leaked \subseteq used /\ poisoned \in BOOLEAN
    /\ nseq \in Nat /\ peak \in Nat /\ speak \in 0..Cardinality(Threads)

\* the mutex is held exactly by the thread inside a critical section
LockPCs == {"get_cs", "drop_cs"} \cup (IF CreateUnderLock THEN {"get_create"} ELSE {})
MutexOK ==
    /\ \A t \in Threads : (pc[t] \in LockPCs) <=> (mutex = t)
    /\ Cardinality({t \in Threads : pc[t] \in LockPCs}) <= 1

\* a thread owns an arena exactly between pop / decision-to-create and push
OwnerPCs == {"get_create", "get_post", "holding", "used", "drop_want", "drop_cs"}
OwnerOK  == \A t \in Threads : (has[t] # NoArena) <=> (pc[t] \in OwnerPCs)

\* C19 clause 1: no arena under two live guards
Exclusive     == ExclusiveC(has) /\ \A t \in Threads : has[t] \notin leaked
\* idle /\ held = {}
IdleDisjoint  == IdleDisjointC(has, idle) /\ Range(idle) \cap leaked = {}
\* no arena is ever lost or duplicated while the pool exists: created or being created = idle or in hands
Conservation  == alive => (used \subseteq Range(idle) \cup InHands \cup leaked /\ Range(idle) \subseteq used)
\* C19 clause 2: reuse before create -- the arenas ever created never outnumber the peak of simultaneous owners
ReuseOK       == ReuseC(everCreated, peak)
\* ... and in fact they are equal: the pool never holds back an arena either
ReuseTight    == alive => everCreated = peak
\* C19 clause 3: whatever was allocated through any guard is still in its arena, whoever holds the arena now
DataIntact    == DataIntactC(written, blocks, chunks)
\* a decision to create is only taken when the idle stack is empty
DecideCreateOnlyWhenIdleEmpty ==
    [][\A t \in Threads : (has[t] = NoArena /\ has'[t] # NoArena /\ has'[t] \notin used) => idle = <<>>]_vars
\* C19 clause 2, as a statement about the instant of creation: when an arena comes into being (the step that performs
\* the first base-allocator request for it) no arena is idle -- an arena returned by a dropped guard is reused first
CreatedOnlyWhenIdleEmpty ==
    [][\A t \in Threads : (pc[t] = "get_create" /\ pc'[t] = "get_post") => NoIdleAtCreationC(Len(idle))]_vars
\* blocks never disappear except by a pool-wide operation
BlocksOnlyForgottenByPoolOps ==
    [][(\E a \in used : a \in DOMAIN blocks' /\ ~(blocks[a] \subseteq blocks'[a])) => phase' # phase]_vars
\* C19 clause 4 (model side): a pool-wide reset leaves every arena with one chunk / all chunks and no blocks; drop releases all
ResetRewindsAll ==
    [][(phase' # phase) => \A a \in used \ leaked : blocks'[a] = {} /\ (chunks'[a] = 1 \/ chunks'[a] = chunks[a])]_vars
DropReleasesAll ==
    [][(alive /\ ~alive') => used' = leaked /\ idle' = <<>>]_vars
\* what was allocated through a forgotten guard stays valid and unchanged for ever, also across pool reset and drop
LeakedStayValid ==
    [][\A a \in leaked : a \in used' /\ blocks[a] \subseteq blocks'[a] /\ chunks'[a] = chunks[a]]_vars

\* the deliberately wrong reading of "peak number of live guards" (see the header): violated by the model
NaiveReuse    == Quiescent => everCreated <= speak

(* Liveness: every get returns (a guard, or Err when creating fails), every drop returns. *)
GetReturns  == \A t \in Threads : (pc[t] = "get_want")  ~> (pc[t] \in {"holding", "idle"})   \* idle: Err or panic
DropReturns == \A t \in Threads : (pc[t] = "drop_want") ~> (pc[t] = "idle")
=============================================================================
