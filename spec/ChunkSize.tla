----------------------------- MODULE ChunkSize -----------------------------
(***************************************************************************)
(* Chunk size arithmetic of bump-scope (src/chunk/size_config.rs and       *)
(* src/chunk/size.rs), property C12.                                       *)
(*                                                                         *)
(* Algorithm layer: calc_hint_from_capacity(_bytes), calc_size_from_hint,  *)
(* align_size, ChunkSize::layout and the append_for size computation,      *)
(* transcribed with checked arithmetic over a W-bit word (None = -1).      *)
(* Contract layer: SizeOk, GrowthOk, FitsFresh (using Bumping's            *)
(* declarative Fits), LayoutOk.                                            *)
(*                                                                         *)
(* The same module is used                                                 *)
(*  - by MC_ChunkSize with a small word (exhaustive grid), and             *)
(*  - by ChunkObs with W = 29 as the image of the real 64-bit word under   *)
(*    the anchor embedding  x |-> x,  isize::MAX - d |-> 2^28 - 1 - d,     *)
(*    usize::MAX - d |-> 2^29 - 1 - d  (all quantities that matter are     *)
(*    small offsets from 0, from the half word or from the top).           *)
(***************************************************************************)
EXTENDS Integers, Sequences, FiniteSets, TLC

CONSTANT W
B == INSTANCE Bumping WITH W <- W

MaxU     == 2^W - 1
IsizeMax == 2^(W-1) - 1
NoneV    == -1
MinChunkAlign == 16
OverheadSize  == 16          \* Layout::new::<[usize; 2]>()
OverheadAlign == 8
PageSize      == 4096

Max(a, b) == IF a > b THEN a ELSE b
DownAlign(x, a) == x - (x % a)

\* a chunk-size configuration: [up, hs, ha] = direction, chunk header size / alignment
\* (ChunkHeader<A> is repr(C, align(16)): hs is a multiple of ha, ha >= 16, hs >= 32)

(***************************************************************************)
(* Algorithm layer                                                         *)
(***************************************************************************)
CheckedAdd(a, b) == IF a = NoneV \/ b = NoneV THEN NoneV ELSE IF a + b > MaxU THEN NoneV ELSE a + b
UpAlignC(x, a)   == IF x = NoneV THEN NoneV ELSE IF x + (a - 1) > MaxU THEN NoneV ELSE DownAlign(x + (a - 1), a)
OffsetAddLayout(off, lsz, lal) == CheckedAdd(UpAlignC(off, lal), lsz)

RECURSIVE NextPow2From(_, _)
NextPow2From(p, x) == IF p >= x THEN p ELSE NextPow2From(2 * p, x)
\* usize::checked_next_power_of_two: returns x itself when it is a power of two; 0 |-> 1
CheckedNextPow2(x) == IF x > 2^(W-1) THEN NoneV ELSE NextPow2From(1, x)

\* ChunkSizeConfig::align_size
AlignSize(c, size) == DownAlign(size, IF c.up THEN MinChunkAlign ELSE Max(MinChunkAlign, c.ha))

\* ChunkSizeConfig::calc_size_from_hint  ->  NonZeroUsize or None
MinSize(c) == OffsetAddLayout(OffsetAddLayout(0, OverheadSize, OverheadAlign), c.hs, c.ha)
SizeStep(c) == Max(PageSize, c.ha)
CalcSizeFromHint(c, hint) ==
    LET min  == MinSize(c)
        step == SizeStep(c)
        h2   == Max(hint, min)
        s1   == IF h2 < step THEN CheckedNextPow2(h2) ELSE UpAlignC(h2, step)
        s2   == IF s1 = NoneV THEN NoneV
                ELSE IF c.up \/ c.ha <= MinChunkAlign THEN AlignSize(c, s1 - OverheadSize) ELSE s1
    IN IF min = NoneV \/ s2 = NoneV \/ s2 = 0 THEN NoneV ELSE s2

\* ChunkSizeConfig::calc_hint_from_capacity_bytes
CalcHintFromBytes(c, bytes) ==
    LET o1 == OffsetAddLayout(0, OverheadSize, OverheadAlign)
        s  == IF c.up THEN CheckedAdd(OffsetAddLayout(o1, c.hs, c.ha), bytes)
                      ELSE IF CheckedAdd(o1, bytes) = NoneV THEN NoneV
                           ELSE OffsetAddLayout(CheckedAdd(o1, bytes), c.hs, c.ha)
    IN CheckedAdd(s, MinChunkAlign)

\* ChunkSizeConfig::calc_hint_from_capacity
CalcHintFromCapacity(c, size, align) ==
    LET pad == IF align > c.ha THEN align - c.ha ELSE 0       \* saturating_sub
    IN CalcHintFromBytes(c, CheckedAdd(size, pad))

\* ChunkSizeHint::calc_size with S::MINIMUM_CHUNK_SIZE = mcs
CalcSize(c, mcs, hint) == IF hint = NoneV THEN NoneV ELSE CalcSizeFromHint(c, Max(hint, mcs))

\* ChunkSize::from_capacity
FromCapacity(c, mcs, size, align) == CalcSize(c, mcs, CalcHintFromCapacity(c, size, align))

\* ChunkSize::layout(): Layout::from_size_align(size, ha) must be valid
LayoutOk(c, size) == size # NoneV /\ size <= IsizeMax + 1 - c.ha

\* NonDummyChunk::append_for: size of the chunk appended after a chunk of size prevSize for (size, align)
AppendSize(c, mcs, prevSize, size, align) ==
    LET req  == CalcHintFromCapacity(c, size, align)
        grow == IF 2 * prevSize > MaxU THEN NoneV ELSE 2 * prevSize
    IN IF req = NoneV \/ grow = NoneV THEN NoneV ELSE CalcSize(c, mcs, Max(req, grow))

(***************************************************************************)
(* Contract layer                                                          *)
(***************************************************************************)
\* "Computed chunk sizes are multiples of 16 (and of the header alignment when bumping downwards)
\*  and large enough for the chunk header plus the requested capacity"
SizeOk(c, size, bytes) ==
    /\ size % MinChunkAlign = 0
    /\ (~c.up) => size % c.ha = 0
    /\ size >= c.hs + bytes

\* "a later chunk is never smaller than twice the previous one less 16 bytes" -- the size function never
\*  returns less than its hint minus the 16 bytes of assumed base-allocator overhead
GrowthOk(hint, size) == size >= hint - OverheadSize

\* The content range of a chunk of (aligned granted) size g placed at base address base.
ContentLo(c, base, g) == IF c.up THEN base + c.hs ELSE base
ContentHi(c, base, g) == IF c.up THEN base + g ELSE base + g - c.hs

\* the request fits into a FRESH chunk (position at the start / end of the content range)
FitsFreshAt(c, base, g, size, align, ma) ==
    IF c.up THEN B!FitsUp(ContentLo(c, base, g), ContentHi(c, base, g), size, align)
            ELSE B!FitsDown(ContentLo(c, base, g), ContentHi(c, base, g), size, align, ma)

\* ... for every base address the base allocator may return (any multiple of the header alignment) --
\* it suffices to cover every residue modulo max(align, ha)
Bases(c, align) == {c.ha * j : j \in 1..(Max(align, c.ha) \div c.ha)}

\* (the minimum alignment only matters through max(align, ma) when bumping downwards: 1, 4 and 16 cover
\*  "below", "between" and "above" the layout's alignment for the alignments of the grid)
FitsFresh(c, g, size, align) ==
    \A base \in Bases(c, align) : \A ma \in {1, 4, 16} : FitsFreshAt(c, base, g, size, align, ma)
=============================================================================
