------------------------------ MODULE ArenaObs ------------------------------
(***************************************************************************)
(* Evaluation of the arena CONTRACTS on executions recorded from the real  *)
(* code (harness/replay).  Every record is one executed step of a          *)
(* TLC-generated behaviour of Arena.tla:                                   *)
(*   r.cfg   configuration                                                 *)
(*   r.a, r.args, r.exp   the step and what the MODEL expects              *)
(*   r.o     what was OBSERVED through the public API after the step       *)
(* Per property the module prints the set of record indices on which a     *)
(* contract clause fails (VIOLATION), and separately the records on which  *)
(* the observation differs from the model's exact prediction (DRIFT).      *)
(* The contract clauses use observed numbers plus history labels of the    *)
(* model (which blocks are live, which block is the most recent one, which *)
(* frame a step leaves); they never compare against predicted addresses.   *)
(***************************************************************************)
EXTENDS Integers, Sequences, FiniteSets, TLC, Json, IOUtils

VARIABLE done
Rec == ndJsonDeserialize(IOEnv.OBS)

Max(a, b) == IF a > b THEN a ELSE b
Has(rec, f) == f \in DOMAIN rec

\* ---- projections of an observation ----------------------------------------------------------------
\* chunk tuple: <<start, size, lo, hi, pos, allocated, remaining, capacity>>
Chunk(t) == [start |-> t[1], size |-> t[2], lo |-> t[3], hi |-> t[4], pos |-> t[5],
             allocated |-> t[6], remaining |-> t[7], capacity |-> t[8]]
Chunks(o) == [i \in 1..Len(o.chunks) |-> Chunk(o.chunks[i])]
\* grant tuple: <<addr, req, granted, align, live, frees>>
Grant(t) == [addr |-> t[1], req |-> t[2], size |-> t[3], align |-> t[4], live |-> t[5], frees |-> t[6]]
Grants(o) == [i \in 1..Len(o.grants) |-> Grant(o.grants[i])]
\* block tuple: <<id, addr, sz, al>>
Block(t) == [id |-> t[1], addr |-> t[2], sz |-> t[3], al |-> t[4]]
Blocks(o) == [i \in 1..Len(o.blocks) |-> Block(o.blocks[i])]

IsStep(r) == r.a # "final"
NAllocEv(r) == Cardinality({k \in 1..Len(r.o.base) : r.o.base[k][1] = "alloc"})
Ok(r) == r.o.res = "ok"
AllocLike(r) == r.a \in {"alloc", "grow", "shrink"}
VecStep(r) == r.a \in {"vec_new", "vec_extend", "vec_shrink", "vec_truncate", "vec_drop", "vec_into", "vec_splice_huge"} /\ r.o.res # "skipped"

SumOf(sq, F(_)) == LET RECURSIVE S(_) S(i) == IF i = 0 THEN 0 ELSE F(sq[i]) + S(i - 1) IN S(Len(sq))

(***************************************************************************)
(* C01  live allocations valid, aligned, pairwise disjoint                 *)
(***************************************************************************)
InSomeChunk(cs, b) == \E i \in 1..Len(cs) : b.addr >= cs[i].lo /\ b.addr + b.sz <= cs[i].hi
InLiveGrant(gs, lo, hi) == \E g \in 1..Len(gs) : gs[g].live /\ lo >= gs[g].addr /\ hi <= gs[g].addr + gs[g].size
Disjoint(b1, b2) == b1.sz = 0 \/ b2.sz = 0 \/ b1.addr + b1.sz <= b2.addr \/ b2.addr + b2.sz <= b1.addr

\* a number no arena of the harness can produce (clamped by the recorder): the bookkeeping read through the public API is corrupt
Insane(r) == Has(r.o, "insane")
C01_Viol(r) ==
    LET cs == Chunks(r.o)  gs == Grants(r.o)  bs == Blocks(r.o) IN
    \/ Insane(r)
    \/ \E i \in 1..Len(bs) :
          \/ ~InSomeChunk(cs, bs[i])                                  \* inside memory the arena owns ...
          \/ ~InLiveGrant(gs, bs[i].addr, bs[i].addr + bs[i].sz)       \* ... which the base allocator has not got back
          \/ bs[i].addr % bs[i].al # 0
    \/ \E i, j \in 1..Len(bs) : i < j /\ ~Disjoint(bs[i], bs[j])
    \/ AllocLike(r) /\ Ok(r) /\ (r.o.addr % r.args.al # 0 \/ r.o.len < r.args.sz)
    \/ \E i \in 1..Len(cs) : ~InLiveGrant(gs, cs[i].start, cs[i].start + cs[i].size)

(***************************************************************************)
(* C02  bytes of a live allocation change only through its owner           *)
(***************************************************************************)
\* regions an operation may write: chunk headers, and the block it returns
InHeader(cs, up, lo, hi) ==
    \E i \in 1..Len(cs) : IF up THEN lo >= cs[i].start /\ hi <= cs[i].lo
                                ELSE lo >= cs[i].hi /\ hi <= cs[i].start + cs[i].size
InResult(r, lo, hi) == AllocLike(r) /\ Ok(r) /\ lo >= r.o.addr /\ hi <= r.o.addr + r.args.sz
\* a write range may straddle a header and the adjacent result block: check byte ranges piecewise by splitting at
\* the result block's bounds
WriteOk(r, cs, w) ==
    LET lo == w[1]  hi == w[2] IN
    IF (AllocLike(r) /\ Ok(r)) \/ (VecStep(r) /\ Has(r.o, "wlo"))
    THEN LET a == IF VecStep(r) THEN r.o.wlo ELSE r.o.addr
             e == IF VecStep(r) THEN r.o.whi ELSE r.o.addr + r.args.sz
             \* part below the block, inside the block, above the block
             p1ok == (lo >= a) \/ InHeader(cs, r.cfg.up, lo, IF hi < a THEN hi ELSE a)
             p3ok == (hi <= e) \/ InHeader(cs, r.cfg.up, IF lo > e THEN lo ELSE e, hi)
         IN p1ok /\ p3ok
    ELSE InHeader(cs, r.cfg.up, lo, hi)

\* while an exclusive-borrow collection is filled it writes its elements into the prepared free range; finalising moves
\* them to the bump side of that range: these steps may write anywhere inside the content range of the current chunk
\* (header included: a write range may straddle both) that is not a live block (live blocks are covered by the damage check)
PrepWrite(r) == r.a \in {"prep_push", "prep_reserve", "prep_extend", "prep_map", "prep_commit", "iter_mut", "fmt_mut", "try_with", "iter_grow", "fmt_grow"}
                \/ (r.a = "enter" /\ r.args.kind = "prep")        \* (from_elem_in fills the new collection right away)   \* (alloc_try_with constructs the Result in free space first)
InChunk(cs, lo, hi) == \E i \in 1..Len(cs) : lo >= cs[i].start /\ hi <= cs[i].start + cs[i].size

C02_Viol(r) ==
    LET cs == Chunks(r.o) IN
    \/ r.o.damaged # <<>>                                             \* a live block's bytes changed
    \/ Insane(r)
    \/ Has(r.o, "vbad") /\ r.o.vbad # <<>>                             \* a live vector no longer holds its elements
    \/ r.a = "vec_into" /\ Ok(r) /\ ~r.o.content_ok                   \* the finalised slice is not the vector's contents
    \/ r.a \in {"iter_grow", "fmt_grow"} /\ Ok(r) /\ (~r.o.content_ok \/ r.o.len # r.exp.x.len)   \* alloc_iter / alloc_fmt: exactly the elements / the text
    \/ Has(r.o, "prefix_ok") /\ ~r.o.prefix_ok                         \* realloc lost the surviving prefix
    \/ Has(r.o, "zero_ok") /\ ~r.o.zero_ok                             \* zeroed memory is not zero
    \/ IsStep(r) /\ r.a # "drop" /\ ~PrepWrite(r) /\ \E k \in 1..Len(r.o.writes) : ~WriteOk(r, cs, r.o.writes[k])
    \/ PrepWrite(r) /\ \E k \in 1..Len(r.o.writes) :
          ~InChunk(cs, r.o.writes[k][1], r.o.writes[k][2])

(***************************************************************************)
(* C03  leaving a scope restores the allocator exactly                     *)
(***************************************************************************)
\* entry tuple: <<allocated, cur chunk start (0 = unallocated), position, count, size>>
IsExit(r) == r.a \in {"exit", "guard_reset", "reset_to"} /\ (r.a # "exit" \/ r.args.kind \in {"scope", "guard", "saligned"})
C03_Viol(r) ==
    IsExit(r) /\ Has(r.o, "entry") /\
    LET e == r.o.entry  cs == Chunks(r.o) IN
    \/ r.o.res # "ok"
    \/ r.o.stats[4] # e[1]                                             \* allocated bytes as at entry
    \/ IF e[2] # 0
       THEN r.o.cur = 0 \/ cs[r.o.cur].start # e[2] \/ cs[r.o.cur].pos # e[3]   \* same chunk, same position
       ELSE \* nothing had been allocated at entry: start of the first chunk (if one exists now)
            Len(cs) > 0 /\ (r.o.cur # 1 \/ cs[1].allocated # 0)
    \/ r.o.stats[1] < e[4] \/ r.o.stats[2] < e[5]                      \* chunks acquired inside remain available
    \/ r.o.damaged # <<>>                                             \* earlier allocations intact

\* "Repeating the same workload in a new scope needs no new memory from the base allocator, and a fixed workload run in a
\*  reset() loop stops requesting chunks after finitely many rounds": steps of the repeated scope / of the last round
C03_Again(r) ==
    \/ r.a = "alloc" /\ Has(r.args, "again") /\ r.args.again /\ (NAllocEv(r) > 0 \/ r.o.res # "ok")
    \* the closure of alloc_try_with(_mut) returned Err without leaving allocations of its own: exactly as before the call
    \/ r.a = "try_with" /\ ~r.args.ok /\ ~r.args.inner /\ r.o.res = "errval" /\
         \/ r.o.stats[4] # r.o.pa
         \/ r.o.damaged # <<>>
         \/ IF r.o.pp = <<0, 0>>
            THEN \* nothing had been allocated (no chunk) before: start of the first chunk
                 r.o.cur > 1 \/ (r.o.cur = 1 /\ r.o.chunks[1][6] # 0)
            ELSE r.o.cur = 0 \/ <<r.o.chunks[r.o.cur][1], r.o.chunks[r.o.cur][5]>> # r.o.pp
    \/ r.a = "try_with" /\ r.o.res = "ok" /\ ~r.o.content_ok

(***************************************************************************)
(* C05  every chunk returned exactly once and fits                         *)
(***************************************************************************)
BaseEvs(r) == r.o.base
MayRelease(r) == r.a \in {"reset", "drop", "final"} \/ (r.a = "with_settings" /\ r.o.res = "panic")
MayAcquire(r) == r.a \in {"ctor", "alloc", "grow", "shrink", "reserve", "enter", "prep_push", "prep_reserve", "prep_extend", "iter_mut", "fmt_mut", "try_with", "vec_new", "vec_extend", "iter_grow", "fmt_grow"} \* enter: by_value / claim on unallocated
FreeOk(gs, ev) ==
    \E g \in 1..Len(gs) : /\ gs[g].addr = ev[2] /\ ~gs[g].live /\ gs[g].frees = 1
                          /\ gs[g].align = ev[4] /\ ev[3] >= gs[g].req /\ ev[3] <= gs[g].size
C05_Viol(r) ==
    LET gs == Grants(r.o)  evs == BaseEvs(r) IN
    \/ \E k \in 1..Len(evs) : evs[k][1] = "free" /\ (~MayRelease(r) \/ ~FreeOk(gs, evs[k]))
    \/ \E k \in 1..Len(evs) : evs[k][1] = "alloc" /\ ~MayAcquire(r)
    \/ \E g \in 1..Len(gs) : gs[g].frees > 1 \/ (gs[g].live <=> gs[g].frees # 0)
    \/ (r.a \in {"drop", "final"} \/ (r.a = "with_settings" /\ r.o.res = "panic")) /\ \E g \in 1..Len(gs) : gs[g].live   \* nothing outstanding after drop
    \/ r.a = "reset" /\ Ok(r) /\                                               \* reset keeps exactly the largest
         LET live == {g \in 1..Len(gs) : gs[g].live} IN
         \/ Cardinality(live) > 1
         \/ Len(gs) > 0 /\ Cardinality(live) = 0 /\ r.exp.nchunks > 0
         \/ \E g \in live : \E k \in 1..Len(evs) : evs[k][1] = "free" /\ evs[k][3] > gs[g].size
    \/ r.a = "ctor" /\ r.args.k = "unallocated" /\ Len(evs) > 0                \* unallocated: no base allocator call
    \* into_raw / from_raw: an ownership round trip touches nothing
    \/ r.a = "raw_roundtrip" /\ (Len(evs) > 0 \/ r.o.writes # <<>> \/ r.o.stats[4] # r.o.pa \/ r.o.res # "ok" \/ r.o.damaged # <<>>
                                 \/ <<(IF r.o.cur = 0 THEN 0 ELSE r.o.chunks[r.o.cur][1]), (IF r.o.cur = 0 THEN 0 ELSE r.o.chunks[r.o.cur][5])>> # r.o.pp)
    \* the arena never touches bytes outside the blocks it was granted (guard gaps, released blocks)
    \/ r.a # "drop" /\ r.a # "final" /\ \E k \in 1..Len(r.o.writes) :
          ~InLiveGrant(gs, r.o.writes[k][1], r.o.writes[k][2])
    \/ r.a \in {"drop", "final"} /\ r.o.writes # <<>> /\ FALSE          \* (released blocks are poisoned by the harness)

(***************************************************************************)
(* C10  bookkeeping and statistics coherent                                *)
(***************************************************************************)
C10_Viol(r) ==
    IsStep(r) /\ r.a # "drop" /\
    LET cs == Chunks(r.o)  st == r.o.stats  gs == Grants(r.o) IN
    \/ Insane(r)
    \/ r.o.cur > Len(cs)
    \/ r.o.cur # 0 /\ LET c == cs[r.o.cur] IN c.pos < c.lo \/ c.pos > c.hi \/ c.pos % r.o.ma # 0
    \/ \E i \in 1..Len(cs) : LET c == cs[i] IN
          \/ c.size % 16 # 0
          \/ c.lo < c.start \/ c.hi > c.start + c.size \/ c.lo > c.hi           \* header + content inside the chunk
          \/ ~InLiveGrant(gs, c.start, c.start + c.size)                        \* chunk inside the granted block
          \/ c.pos < c.lo \/ c.pos > c.hi
          \/ c.capacity # c.hi - c.lo \/ c.allocated + c.remaining # c.capacity
    \/ \E i \in 1..(Len(cs) - 1) : cs[i + 1].size <= cs[i].size                 \* strictly increasing sizes
    \/ ~r.o.rev                                                                 \* forwards = reverse of backwards
    \/ st[4] + st[5] # st[3] \/ st[3] > st[2]                                   \* allocated + remaining = capacity <= size
    \/ st[1] # Len(cs)                                                          \* count = number of chunks
    \/ (r.o.cur = 0) /\ st # <<0, 0, 0, 0, 0>>                                  \* claimed / unallocated: all zero
    \/ (r.o.cur # 0) /\ (st[2] # SumOf(cs, LAMBDA c : c.size) \/ st[3] # SumOf(cs, LAMBDA c : c.capacity))
    \/ r.o.any # st \/ ~r.o.anyeq                                               \* type-erased = typed

(***************************************************************************)
(* C12 (arena clause)  a fresh chunk fits the request that caused it       *)
(***************************************************************************)
C12_Viol(r) ==
    IsStep(r) /\
    \/ NAllocEv(r) > 1 /\ r.a \notin {"iter_mut", "fmt_mut", "iter_grow", "fmt_grow"}                                      \* at most one chunk per request (the one-shot
                                                                                \* helper is a whole fill: several requests)
    \/ AllocLike(r) /\ Ok(r) /\ NAllocEv(r) = 1 /\
         LET ev == CHOOSE k \in 1..Len(r.o.base) : r.o.base[k][1] = "alloc" IN
         ~(r.o.addr >= r.o.base[ev][4] /\ r.o.addr + r.args.sz <= r.o.base[ev][4] + r.o.base[ev][5])
    \/ \E i \in 1..(Len(r.o.chunks) - 1) : r.o.chunks[i + 1][2] < 2 * r.o.chunks[i][2] - 16   \* growth
    \* with_capacity(layout): the chunk the constructor makes fits that layout
    \/ r.a = "ctor" /\ r.args.k = "with_capacity" /\ Ok(r) /\ Len(r.o.chunks) >= 1 /\
         LET c == Chunk(r.o.chunks[1])  n == r.args.n  al == r.args.al IN
         IF r.cfg.up THEN ((c.lo + al - 1) \div al) * al + n > c.hi
                     ELSE c.hi < n \/ (c.hi - n) - ((c.hi - n) % al) < c.lo

(***************************************************************************)
(* C13  reclaiming the newest allocation; opt-outs honoured                *)
(***************************************************************************)
MayDecrease(r) ==
    \/ r.a \in {"exit", "guard_reset", "reset_to", "reset", "reset_to_start", "drop", "final"}
    \/ r.a \in {"dealloc", "grow", "shrink"} /\ r.exp.x.wastop
    \/ r.a \in {"vec_extend", "vec_shrink", "vec_drop", "vec_into"} /\ r.exp.x.wastop     \* "... or by a collection doing so"
ChunkOf(cs, addr) == CHOOSE i \in 1..Len(cs) : addr >= cs[i].lo /\ addr <= cs[i].hi
C13_Viol(r) ==
    IsStep(r) /\ r.a # "ctor" /\
    \* allocated bytes decrease only through reclaiming the most recent allocation, leaving a scope, or a reset
    \/ r.o.stats[4] < r.o.pa /\ ~MayDecrease(r) /\ ~r.o.claimed
    \* opt-outs: deallocate never changes it, shrink never decreases it
    \/ r.a = "dealloc" /\ r.exp.x.optout /\ r.o.stats[4] # r.o.pa
    \/ r.a = "shrink" /\ r.exp.x.optout /\ Ok(r) /\ r.o.stats[4] < r.o.pa
    \* dealloc + same request (composite step "realloc"): same address when the antecedent holds
    \/ r.a = "alloc" /\ Has(r.args, "reuse") /\ r.args.reuse /\ Ok(r) /\ Has(r.o, "freed") /\ r.o.addr # r.o.freed
    \* growing the most recent allocation in an upward arena with room: same address
    \/ r.a = "grow" /\ Ok(r) /\ r.cfg.up /\ r.exp.x.waslast /\ r.args.osz % r.o.ma = 0 /\ r.o.oaddr % r.o.ma = 0 /\ r.o.oaddr % r.args.al = 0
         /\ LET cs == Chunks(r.o) IN
            (\E i \in 1..Len(cs) : r.o.oaddr >= cs[i].lo /\ r.o.oaddr + r.args.sz <= cs[i].hi) /\ r.o.addr # r.o.oaddr
    \* any other deallocate reclaims nothing
    \/ r.a = "dealloc" /\ ~r.exp.x.wastop /\ r.o.stats[4] # r.o.pa
    \* the same through a growable vector: dropping it deallocates, shrink_to_fit / into_boxed_slice shrink, growth grows
    \/ r.a = "vec_drop" /\ VecStep(r) /\ (r.exp.x.optout \/ ~r.exp.x.wastop) /\ r.o.stats[4] # r.o.pa
    \/ r.a \in {"vec_shrink", "vec_into"} /\ VecStep(r) /\ r.exp.x.optout /\ r.o.stats[4] < r.o.pa
    \/ r.a = "vec_extend" /\ VecStep(r) /\ Ok(r) /\ r.args.grows /\ r.args.osz > 0 /\ r.cfg.up /\ r.exp.x.waslast
         /\ r.args.osz % r.o.ma = 0 /\ r.o.oaddr % r.o.ma = 0
         /\ LET cs == Chunks(r.o) IN
            (\E i \in 1..Len(cs) : r.o.oaddr >= cs[i].lo /\ r.o.oaddr + r.args.ncap * r.args.esz <= cs[i].hi) /\ r.o.vaddr # r.o.oaddr

(***************************************************************************)
(* C07  allocation failure is an error and leaves the arena working        *)
(***************************************************************************)
ScriptedFail(r) == \E k \in 1..Len(r.o.base) : r.o.base[k][1] = "fail" /\ r.o.base[k][4] = 1
C07_Viol(r) ==
    IsStep(r) /\
    \* the base allocator refused / the size computation overflows: an error, never success, never a panic of a try_ / allocator call
    \/ ScriptedFail(r) /\ (r.o.res = "ok" \/ (r.v # "panicking" /\ r.o.res # "err"))
    \/ (r.a = "alloc_huge" \/ (r.a = "prep_reserve" /\ Has(r.args, "huge"))) /\ (r.o.res = "ok" \/ (r.v # "panicking" /\ r.o.res # "err"))
    \* the collection whose reserve overflowed has its previous length and capacity
    \/ r.a = "prep_reserve" /\ Has(r.args, "huge") /\ (r.o.plen # r.exp.x.len \/ r.o.pcap < r.o.plen)
    \* a reserve that overflows, and any request beyond the capacity of a fixed-capacity vector, is refused
    \/ r.a = "vec_extend" /\ VecStep(r) /\ (Has(r.args, "huge") \/ (r.args.fixed /\ r.args.grows)) /\ r.o.res # "err"
    \* splice with a replacement that cannot fit: an unwinding panic (never a normal return), the vector keeps buffer, length, capacity
    \/ r.a = "vec_splice_huge" /\ VecStep(r) /\ (r.o.res # "panic" \/ r.o.vaddr # r.o.oaddr \/ r.o.vlen # r.o.plen \/ r.o.vcap # r.o.pcap)
    \* a vector whose growth failed is unchanged (same buffer, length, capacity; its elements are covered by C02 below)
    \/ r.a = "vec_extend" /\ VecStep(r) /\ r.o.res = "err" /\ (r.o.vaddr # r.o.oaddr \/ r.o.vlen # r.o.plen \/ r.o.vcap # r.o.pcap)
    \* after a failure: earlier allocations intact, invariants hold, nothing leaked or released twice ...
    \/ (r.exp.fails > 0 \/ r.a = "alloc_huge" \/ Has(r.args, "huge")) /\ (C01_Viol(r) \/ C02_Viol(r) \/ C05_Viol(r) \/ C10_Viol(r))
    \* ... and the arena keeps working: a later request that the model can serve is served
    \/ r.exp.fails > 0 /\ r.exp.res = "ok" /\ r.o.res # "ok" /\ ~ScriptedFail(r)

(***************************************************************************)
(* C14  a claimed allocator is inert until the claim ends, then resumes    *)
(***************************************************************************)
CurPos(o) == IF o.cur = 0 THEN <<0, 0>> ELSE <<o.chunks[o.cur][1], o.chunks[o.cur][5]>>
C14_Viol(r) ==
    \/ r.a = "claimed_op" /\
         \/ r.args.op \in {"alloc", "reserve", "grow"} /\ r.o.res = "ok"          \* every request for memory fails
         \/ r.args.op \in {"alloc", "reserve", "grow"} /\ r.v # "panicking" /\ r.o.res # "err"
         \/ r.args.op = "claim" /\ r.o.res # "panic"                              \* a second claim panics
         \/ r.args.op \in {"dealloc", "shrink"} /\ (r.o.stats[4] # r.o.pa \/ CurPos(r.o) # r.o.pp)   \* do nothing
         \/ r.args.op = "shrink" /\ r.o.res = "ok" /\ r.o.addr # r.o.oaddr
         \/ r.args.op = "dealloc" /\ r.o.res # "ok"
         \/ r.o.cstats # <<0, 0, 0, 0, 0>> \/ r.o.cany # <<0, 0, 0, 0, 0>> \/ ~r.o.cclaimed   \* stats report an empty arena
         \/ r.o.damaged # <<>>
    \* the guard takes over exactly where the handle was, and hands back exactly where it stopped
    \/ r.a \in {"enter", "exit"} /\ r.args.kind = "claim" /\
         (r.o.res # "ok" \/ r.o.stats[4] # r.o.pa \/ CurPos(r.o) # r.o.pp \/ r.o.claimed \/ r.o.damaged # <<>>)
    \* everything allocated through the guard (and before) stays live and intact while and after the claim
    \/ IsStep(r) /\ r.exp.inclaim /\ (r.o.damaged # <<>> \/ C01_Viol(r))

(***************************************************************************)
(* C18  changing the minimum alignment                                     *)
(***************************************************************************)
AlignedFrame(r) == r.a \in {"enter", "exit"} /\ r.args.kind \in {"aligned", "saligned", "bmws", "bvws"}
PosAligned(o, n) == o.cur = 0 \/ o.chunks[o.cur][5] % n = 0
C18_Viol(r) ==
    \/ r.a = "enter" /\ AlignedFrame(r) /\ (r.o.res # "ok" \/ r.o.ma # r.args.n \/ ~PosAligned(r.o, r.args.n))
    \/ IsStep(r) /\ r.a # "drop" /\ r.exp.inaligned /\ ~PosAligned(r.o, r.o.ma)       \* after every allocation inside
    \/ r.a = "exit" /\ AlignedFrame(r) /\ (r.o.res # "ok" \/ ~PosAligned(r.o, r.o.ma))     \* outer alignment again
    \/ r.a = "exit" /\ r.args.kind = "saligned" /\ C03_Viol(r)                          \* exactly the entry position
    \/ IsStep(r) /\ (r.exp.inaligned \/ AlignedFrame(r)) /\ (r.o.damaged # <<>> \/ C01_Viol(r))
    \* Bump::with_settings: panics exactly when the new settings are guaranteed-allocated and the arena is unallocated;
    \* otherwise the position is a multiple of the new minimum alignment and every block is intact
    \/ r.a = "with_settings" /\
         \/ (r.args.ga /\ r.o.pp = <<0, 0>>) # (r.o.res = "panic")
         \/ r.o.res \notin {"ok", "panic"}
         \/ r.o.res = "ok" /\ (r.o.ma # r.args.ma \/ ~PosAligned(r.o, r.args.ma) \/ r.o.damaged # <<>> \/ C01_Viol(r))

(***************************************************************************)
(* C15  exclusive-borrow collections use free space without moving the     *)
(*      pointer; finalising advances it by the contents plus padding       *)
(***************************************************************************)
PrepFill(r) == (r.a = "enter" /\ r.args.kind = "prep") \/ r.a \in {"prep_push", "prep_reserve", "prep_extend", "prep_map", "prep_drop"}
Abs(x) == IF x < 0 THEN 0 - x ELSE x
C15_Viol(r) ==
    \/ PrepFill(r) /\ Has(r.o, "echunks") /\
         LET ec == r.o.echunks  cs == r.o.chunks IN
         \/ Len(cs) < Len(ec)
         \* the chunk that was current at creation and all earlier chunks: position unchanged
         \/ \E k \in 1..Len(ec) : k <= r.o.ecur /\ (cs[k][1] # ec[k][1] \/ cs[k][5] # ec[k][2])
         \* at most a later, still empty chunk became the current one
         \/ r.o.cur < r.o.ecur
         \/ r.o.cur # r.o.ecur /\ r.o.cur # 0 /\ cs[r.o.cur][6] # 0
         \* the collection never holds more elements than the free space it was given
         \/ r.a # "prep_drop" /\ r.o.plen > r.o.pcap
         \/ r.o.res = "panic" /\ ~(Has(r.args, "huge") /\ r.v = "panicking")
         \/ r.o.res = "err" /\ ~ScriptedFail(r) /\ ~Has(r.args, "huge")
    \/ r.a = "prep_commit" /\
         \/ r.o.res # "ok"
         \/ ~r.o.content_ok                                       \* exactly the pushed elements (reversed for rev)
         \/ r.o.len # r.exp.x.len * r.exp.x.esz
         \/ r.o.len > 0 /\ r.o.cur # 0 /\ r.o.pp[1] = r.o.chunks[r.o.cur][1] /\
              LET adv == Abs(r.o.chunks[r.o.cur][5] - r.o.pp[2]) IN
              \* (padding: for the alignment the buffer was prepared for - map_in_place may have lowered the element alignment since)
              adv < r.o.len \/ adv > r.o.len + (Max(r.exp.x.eal, r.exp.x.eal0) - 1) + (r.o.ma - 1)
         \/ r.o.len > 0 /\ r.o.addr % r.exp.x.eal # 0
         \/ r.o.damaged # <<>>
    \* alloc_try_with_mut whose closure unwinds: nothing was finalised - the chunk that was current keeps its position and a
    \* different current chunk is empty
    \/ r.a = "try_with" /\ r.args.mut /\ Has(r.args, "pan") /\ r.args.pan /\ r.exp.res = "panic" /\
         \/ r.o.res # "panic"
         \/ r.o.damaged # <<>>
         \/ r.o.pp[1] # 0 /\ ~\E k \in 1..Len(r.o.chunks) : r.o.chunks[k][1] = r.o.pp[1] /\ r.o.chunks[k][5] = r.o.pp[2]
         \/ r.o.cur # 0 /\ r.o.chunks[r.o.cur][1] # r.o.pp[1] /\ r.o.chunks[r.o.cur][6] # 0
    \* the one-shot helpers alloc_iter_mut(_rev): exactly the yielded elements (reversed for rev) whatever the size hint said;
    \* the position advances by the contents plus padding -- in the chunk that was current, or in a later chunk that was empty
    \* alloc_fmt_mut / alloc_cstr_fmt_mut: exactly the written text (plus one NUL), position advanced by it plus padding
    \/ r.a = "fmt_mut" /\
         \/ r.o.res # "ok" \/ ~r.o.content_ok \/ r.o.len # r.exp.x.len \/ r.o.damaged # <<>>
         \/ r.o.len > 0 /\ r.o.cur # 0 /\
              LET c == r.o.chunks[r.o.cur]
                  adv == IF r.o.pp[1] = c[1] THEN Abs(c[5] - r.o.pp[2]) ELSE c[6]
              IN adv < r.o.len \/ adv > r.o.len + (r.o.ma - 1)
         \/ r.o.pp[1] # 0 /\ \E k \in 1..Len(r.o.chunks) :
              r.o.chunks[k][1] = r.o.pp[1] /\ k # r.o.cur /\ r.o.chunks[k][5] # r.o.pp[2]
    \/ r.a = "iter_mut" /\
         \/ r.o.res # "ok" \/ ~r.o.content_ok \/ r.o.len # r.args.n * r.args.esz
         \/ r.o.damaged # <<>>
         \/ r.o.len > 0 /\ r.o.addr % r.args.eal # 0
         \/ r.o.len > 0 /\ r.o.cur # 0 /\
              LET c == r.o.chunks[r.o.cur]
                  adv == IF r.o.pp[1] = c[1] THEN Abs(c[5] - r.o.pp[2]) ELSE c[6]
              IN adv < r.o.len \/ adv > r.o.len + (r.args.eal - 1) + (r.o.ma - 1)
         \/ r.o.pp[1] # 0 /\ \E k \in 1..Len(r.o.chunks) :
              r.o.chunks[k][1] = r.o.pp[1] /\ k # r.o.cur /\ r.o.chunks[k][5] # r.o.pp[2]   \* the earlier chunk keeps its position

(***************************************************************************)
(* C16 (memory level)  split-off parts are independent allocations         *)
(***************************************************************************)
\* while split-off parts are live: operating on one part (or on anything else) never changes the contents of
\* another, parts stay inside the arena and disjoint from every other live block, reallocation of a part keeps its prefix
C16_Viol(r) ==
    IsStep(r) /\ r.exp.nparts > 0 /\
    \/ r.o.damaged # <<>>
    \/ Has(r.o, "prefix_ok") /\ ~r.o.prefix_ok
    \/ C01_Viol(r)

(***************************************************************************)
(* DRIFT: the observation differs from the model's exact prediction        *)
(***************************************************************************)
Drift(r) ==
    IsStep(r) /\
    \/ r.o.res # r.exp.res /\ ~(r.v = "panicking" /\ r.exp.res = "err" /\ r.o.res = "panic")   \* (the panicking twin reports a refusal by unwinding)
    \/ AllocLike(r) /\ Ok(r) /\ r.o.addr # r.exp.addr
    \/ r.a \in {"vec_new", "vec_extend", "vec_shrink", "vec_truncate"} /\ VecStep(r) /\ Has(r.o, "vlen") /\
         (r.o.vlen # r.exp.x.len \/ r.o.vcap # r.exp.x.cap \/ (r.o.vcap > 0 /\ r.o.vaddr # r.exp.addr))
    \/ r.a \in {"iter_grow", "fmt_grow"} /\ Ok(r) /\ r.o.addr # r.exp.addr
    \/ r.a = "vec_into" /\ Ok(r) /\ (r.o.addr # r.exp.addr \/ r.o.len # r.exp.x.len * r.o.vesz)
    \/ VecStep(r) /\ r.o.res = "skipped"
    \/ r.a # "drop" /\ (r.o.cur # r.exp.cur \/ r.o.stats[4] # r.exp.allocated \/ r.o.stats[1] # r.exp.count
                        \/ (r.o.cur # 0 /\ r.o.chunks[r.o.cur][5] # r.exp.pos)
                        \/ Len(r.o.chunks) # r.exp.nchunks)

Idx == 1..Len(Rec)
Init == /\ done = TRUE
        /\ PrintT(<<"CHECKED", Len(Rec)>>)
        /\ PrintT(<<"BAD_C01", {i \in Idx : C01_Viol(Rec[i])}>>)
        /\ PrintT(<<"BAD_C02", {i \in Idx : C02_Viol(Rec[i])}>>)
        /\ PrintT(<<"BAD_C03", {i \in Idx : C03_Viol(Rec[i]) \/ C03_Again(Rec[i])}>>)
        /\ PrintT(<<"N_TRYWITH_ERR", Cardinality({i \in Idx : Rec[i].a = "try_with" /\ Rec[i].o.res = "errval" /\ ~Rec[i].args.inner})>>)
        /\ PrintT(<<"N_VALUE", Cardinality({i \in Idx : Rec[i].a = "alloc" /\ Has(Rec[i].args, "fam") /\ Rec[i].args.fam # ""})>>)
        /\ PrintT(<<"N_AGAIN", Cardinality({i \in Idx : Rec[i].a = "alloc" /\ Has(Rec[i].args, "again") /\ Rec[i].args.again})>>)
        /\ PrintT(<<"BAD_C05", {i \in Idx : C05_Viol(Rec[i])}>>)
        /\ PrintT(<<"BAD_C10", {i \in Idx : C10_Viol(Rec[i])}>>)
        /\ PrintT(<<"BAD_C12", {i \in Idx : C12_Viol(Rec[i])}>>)
        /\ PrintT(<<"BAD_C13", {i \in Idx : C13_Viol(Rec[i])}>>)
        /\ PrintT(<<"BAD_C07", {i \in Idx : C07_Viol(Rec[i])}>>)
        /\ PrintT(<<"BAD_C14", {i \in Idx : C14_Viol(Rec[i])}>>)
        /\ PrintT(<<"BAD_C18", {i \in Idx : C18_Viol(Rec[i])}>>)
        /\ PrintT(<<"BAD_C15", {i \in Idx : C15_Viol(Rec[i])}>>)
        /\ PrintT(<<"BAD_C16", {i \in Idx : C16_Viol(Rec[i])}>>)
        /\ PrintT(<<"N_PARTS", Cardinality({i \in Idx : IsStep(Rec[i]) /\ Rec[i].exp.nparts > 0})>>)
        /\ PrintT(<<"N_PREP", Cardinality({i \in Idx : PrepFill(Rec[i]) \/ Rec[i].a = "prep_commit"})>>)
        /\ PrintT(<<"N_ITERMUT", Cardinality({i \in Idx : Rec[i].a = "iter_mut" /\ Rec[i].o.len > 0})>>)
        /\ PrintT(<<"N_COMMIT", Cardinality({i \in Idx : Rec[i].a = "prep_commit" /\ Rec[i].o.len > 0})>>)
        /\ PrintT(<<"N_FAIL", Cardinality({i \in Idx : IsStep(Rec[i]) /\ (ScriptedFail(Rec[i]) \/ Rec[i].a = "alloc_huge")})>>)
        /\ PrintT(<<"N_CLAIMED_OP", Cardinality({i \in Idx : Rec[i].a = "claimed_op"})>>)
        /\ PrintT(<<"N_ALIGNED", Cardinality({i \in Idx : IsStep(Rec[i]) /\ Rec[i].exp.inaligned})>>)
        /\ PrintT(<<"N_REUSE", Cardinality({i \in Idx : Rec[i].a = "alloc" /\ Has(Rec[i].args, "reuse") /\ Rec[i].args.reuse})>>)
        /\ PrintT(<<"DRIFT", {i \in Idx : Drift(Rec[i])}>>)
        /\ PrintT(<<"N_EXIT", Cardinality({i \in Idx : IsExit(Rec[i])})>>)
        /\ PrintT(<<"N_REALLOC", Cardinality({i \in Idx : AllocLike(Rec[i]) /\ Rec[i].a # "alloc" /\ Ok(Rec[i])})>>)
        /\ PrintT(<<"N_NEWCHUNK", Cardinality({i \in Idx : IsStep(Rec[i]) /\ NAllocEv(Rec[i]) = 1})>>)
        /\ PrintT(<<"N_TRYWITH_PANIC", Cardinality({i \in Idx : Rec[i].a = "try_with" /\ Rec[i].o.res = "panic"})>>)
        /\ PrintT(<<"N_VEC_REFUSED", Cardinality({i \in Idx : Rec[i].a = "vec_extend" /\ VecStep(Rec[i]) /\ Rec[i].o.res = "err"})>>)
        /\ PrintT(<<"N_GROWHELPER", Cardinality({i \in Idx : Rec[i].a \in {"iter_grow", "fmt_grow"} /\ Rec[i].o.len > 0})>>)
        /\ PrintT(<<"N_VEC", Cardinality({i \in Idx : VecStep(Rec[i])})>>)
        /\ PrintT(<<"N_VEC_RELOC", Cardinality({i \in Idx : Rec[i].a = "vec_extend" /\ VecStep(Rec[i]) /\ Rec[i].o.res = "ok" /\ Rec[i].o.oaddr # 0
                                                          /\ Rec[i].o.vaddr # Rec[i].o.oaddr})>>)
        /\ PrintT(<<"ABORTED", {i \in Idx : Rec[i].a = "final" /\ Has(Rec[i].o, "aborted")}>>)
        /\ PrintT(<<"N_RECLAIM", Cardinality({i \in Idx : Rec[i].a = "dealloc" /\ Rec[i].o.stats[4] < Rec[i].o.pa})>>)
Next == UNCHANGED done
Spec == Init /\ [][Next]_done
=============================================================================
