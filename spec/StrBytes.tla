------------------------------ MODULE StrBytes ------------------------------
(***************************************************************************)
(* C09 -- the implementation-shaped layer: bump-scope's byte-level         *)
(* algorithms, transcribed from src/bump_box.rs (impl BumpBox<str>),       *)
(* src/bump_string.rs / fixed_bump_string.rs (insert_bytes,                *)
(* generic_replace_range, generic_extend_from_within, generic_into_cstr)   *)
(* and src/owned_str/drain.rs, operating on a byte buffer                  *)
(*       buf = [b |-> <<bytes>> (the whole capacity), len |-> n].          *)
(* Memory beyond `len` is "garbage" (the byte GARBAGE = 255, which can     *)
(* never occur in UTF-8), so an algorithm that exposes uninitialised or    *)
(* stale bytes produces an invalid string here.                            *)
(*                                                                         *)
(* MC_StrBytes checks the REFINEMENT: for every string over the alphabet   *)
(* up to the bound and every argument that passes the character-boundary   *)
(* assertions, the byte-level algorithm produces exactly the UTF-8         *)
(* encoding of what the character-level specification (StrOps.tla)         *)
(* says -- including retain with a predicate that panics at the k-th call  *)
(* (the SetLenOnDrop guard) and the four rotation cases of split_off.      *)
(***************************************************************************)
EXTENDS StrOps

GARBAGE == 255

Buf(bytes, cap) == [b |-> bytes \o [i \in 1..(cap - Len(bytes)) |-> GARBAGE], len |-> Len(bytes)]
Content(buf)    == SubSeq(buf.b, 1, buf.len)

\* ptr::copy(src, dst, n) inside one buffer (memmove; offsets are 0-based)
CopyWithin(b, src, dst, n) ==
    [i \in 1..Len(b) |-> IF i - 1 >= dst /\ i - 1 < dst + n THEN b[src + (i - 1 - dst) + 1] ELSE b[i]]
\* ptr::copy_nonoverlapping(bytes, b + at, Len(bytes))
WriteAt(b, at, bytes) ==
    [i \in 1..Len(b) |-> IF i - 1 >= at /\ i - 1 < at + Len(bytes) THEN bytes[i - at] ELSE b[i]]

\* reserve(additional): a growable buffer is reallocated (contents copied, the rest is garbage)
Reserve(buf, additional) ==
    IF buf.len + additional <= Len(buf.b) THEN buf
    ELSE [buf EXCEPT !.b = @ \o [i \in 1..(buf.len + additional - Len(@)) |-> GARBAGE]]

\* width of the character that starts at offset i (str[i..].chars().next())
WidthAt(b, i) == DecodeAt(b, i + 1).n
CharAt(b, i)  == DecodeAt(b, i + 1).cp
\* offset of the last character (chars().next_back()): the largest boundary below len
LastStart(buf) == CHOOSE i \in 0..(buf.len - 1) : ~IsCont(buf.b[i + 1]) /\ \A j \in (i + 1)..(buf.len - 1) : IsCont(buf.b[j + 1])

-----------------------------------------------------------------------------
\* BumpString::insert_bytes (after assert_char_boundary(idx))
BInsertBytes(buf0, idx, bytes) ==
    LET amt == Len(bytes)
        buf == Reserve(buf0, amt)
        moved == CopyWithin(buf.b, idx, idx + amt, buf.len - idx)
    IN [b |-> WriteAt(moved, idx, bytes), len |-> buf.len + amt]

\* BumpBox<str>::remove (after the slicing self[idx..] succeeded); returns <<buffer, char>>
BRemove(buf, idx) ==
    LET w == WidthAt(buf.b, idx)
        next == idx + w
    IN << [b |-> CopyWithin(buf.b, next, idx, buf.len - next), len |-> buf.len - (next - idx)], CharAt(buf.b, idx) >>

\* BumpBox<str>::pop (non-empty)
BPop(buf) == LET i == LastStart(buf) IN << [buf EXCEPT !.len = i], CharAt(buf.b, i) >>

BTruncate(buf, n) == [buf EXCEPT !.len = n]

\* BumpBox<str>::retain.  The guard (SetLenOnDrop) sets len = idx - del_bytes when it is dropped, i.e. at the end or when the
\* predicate panics.  keep: verdicts per character, pat: 0 or the call that panics.  State of the loop: <<b, idx, del, call>>.
RECURSIVE BRetainLoop(_, _, _, _, _, _, _)
BRetainLoop(b, len, idx, del, call, keep, pat) ==
    IF idx >= len THEN [b |-> b, len |-> idx - del]
    ELSE LET w == WidthAt(b, idx) IN
         IF call = pat THEN [b |-> b, len |-> idx - del]                       \* f(ch) panics: the guard is dropped
         ELSE IF ~KeepAt(keep, call) THEN BRetainLoop(b, len, idx + w, del + w, call + 1, keep, pat)
         ELSE IF del > 0
              THEN BRetainLoop(WriteAt(b, idx - del, SubSeq(b, idx + 1, idx + w)), len, idx + w, del, call + 1, keep, pat)
              ELSE BRetainLoop(b, len, idx + w, del, call + 1, keep, pat)
BRetain(buf, keep, pat) == BRetainLoop(buf.b, buf.len, 0, 0, 1, keep, pat)

\* Drain::drop -> BumpBox<[u8]>::drain(start..end) (tail shifted down)
BDrainDrop(buf, lo, hi) == [b |-> CopyWithin(buf.b, hi, lo, buf.len - hi), len |-> buf.len - (hi - lo)]

\* generic_replace_range (after the assertions)
BReplaceRange(buf0, lo, hi, bytes) ==
    LET rangeLen == hi - lo
        given == Len(bytes)
        buf == Reserve(buf0, Max2(0, given - rangeLen))
        moved == IF rangeLen # given THEN CopyWithin(buf.b, hi, lo + given, buf.len - hi) ELSE buf.b
    IN [b |-> WriteAt(moved, lo, bytes), len |-> buf.len + given - rangeLen]

\* generic_extend_from_within -> extend_from_within_copy(lo..hi)
BExtendFromWithin(buf0, lo, hi) ==
    LET buf == Reserve(buf0, hi - lo) IN
    [b |-> WriteAt(buf.b, buf.len, SubSeq(buf.b, lo + 1, hi)), len |-> buf.len + (hi - lo)]

\* slice rotations
RotateRight(s, k) == [i \in 1..Len(s) |-> s[((i - 1 - k + Len(s)) % Len(s)) + 1]]
RotateLeft(s, k)  == [i \in 1..Len(s) |-> s[((i - 1 + k) % Len(s)) + 1]]

\* BumpBox<str>::split_off(lo..hi) (range already resolved and in bounds): <<bytes of self, bytes of the returned string>>
BSplitOff(buf, lo, hi) ==
    LET len == buf.len
        s == Content(buf)
    IN IF hi = len THEN << SubSeq(s, 1, lo), SubSeq(s, lo + 1, len) >>
       ELSE IF lo = 0 THEN << SubSeq(s, hi + 1, len), SubSeq(s, 1, hi) >>
       ELSE IF lo = hi THEN << s, <<>> >>
       ELSE LET rangeLen == hi - lo
                remaining == len - rangeLen
            IN IF lo < len - hi
               THEN \* move the range to the start: self[..hi].rotate_right(range_len)
                    LET r == RotateRight(SubSeq(s, 1, hi), rangeLen) \o SubSeq(s, hi + 1, len)
                    IN << SubSeq(r, rangeLen + 1, len), SubSeq(r, 1, rangeLen) >>
               ELSE \* move the range to the end: self[lo..].rotate_left(range_len)
                    LET r == SubSeq(s, 1, lo) \o RotateLeft(SubSeq(s, lo + 1, len), rangeLen)
                    IN << SubSeq(r, 1, remaining), SubSeq(r, remaining + 1, len) >>

\* generic_push
BPush(buf0, c) == LET e == Utf8(c)  buf == Reserve(buf0, Len(e)) IN [b |-> WriteAt(buf.b, buf.len, e), len |-> buf.len + Len(e)]

\* generic_into_cstr: bytes of the C string with terminator
BIntoCstr(buf) ==
    LET s == Content(buf) IN
    IF \E i \in 1..Len(s) : s[i] = 0
    THEN SubSeq(s, 1, CHOOSE i \in 1..Len(s) : s[i] = 0 /\ \A j \in 1..(i - 1) : s[j] # 0)
    ELSE Content(BPush(buf, 0))

-----------------------------------------------------------------------------
(* the refinement statement, one conjunct per operation; s ranges over strings, slack = spare capacity *)

St0(s) == [chars |-> s, cap |-> INF]
B0(s, slack) == Buf(Utf8Seq(s), BLen(s) + slack)
Bounds(s) == {OffAt(s, k) : k \in 0..Len(s)}
BRanges(s) == {<<lo, hi>> \in Bounds(s) \X Bounds(s) : lo <= hi}
R(lo, hi) == [lo |-> lo, hi |-> hi, inc |-> FALSE]

RefinesAt(s, slack, Alphabet, Texts) ==
    LET buf == B0(s, slack)  st == St0(s) IN
    /\ \A i \in Bounds(s), t \in Texts :
          Content(BInsertBytes(buf, i, Utf8Seq(t))) = Utf8Seq(OpInsertStr(st, i, t).chars)
    /\ \A i \in Bounds(s) \ {BLen(s)} :
          LET r == BRemove(buf, i)  e == OpRemove(st, i) IN Content(r[1]) = Utf8Seq(e.chars) /\ <<r[2]>> = e.ret
    /\ s # <<>> => LET r == BPop(buf)  e == OpPop(st) IN Content(r[1]) = Utf8Seq(e.chars) /\ <<r[2]>> = e.ret
    /\ \A i \in Bounds(s) : Content(BTruncate(buf, i)) = Utf8Seq(OpTruncate(st, i).chars)
    /\ \A keep \in [1..Len(s) -> BOOLEAN], pat \in 0..Len(s) :
          LET r == BRetain(buf, keep, pat) IN
          /\ Content(r) = Utf8Seq(OpRetain(st, keep, pat).chars)
          /\ ValidUtf8(Content(r))
    /\ \A p \in BRanges(s) :
          /\ Content(BDrainDrop(buf, p[1], p[2])) = Utf8Seq(OpDrain(st, R(p[1], p[2]), 0, 0, "drop").chars)
          /\ Content(BExtendFromWithin(buf, p[1], p[2])) = Utf8Seq(OpExtendFromWithin(st, R(p[1], p[2])).chars)
          /\ \A t \in Texts :
                Content(BReplaceRange(buf, p[1], p[2], Utf8Seq(t))) = Utf8Seq(OpReplaceRange(st, R(p[1], p[2]), t).chars)
          /\ LET r == BSplitOff(buf, p[1], p[2])  e == OpSplitOff(st, R(p[1], p[2]), "self") IN
             r[1] = Utf8Seq(e.chars) /\ r[2] = Utf8Seq(e.ret)
    /\ \A c \in Alphabet : Content(BPush(buf, c)) = Utf8Seq(OpPush(st, c).chars)
    /\ BIntoCstr(buf) = Utf8Seq(OpIntoCstr(st).ret)

=============================================================================
