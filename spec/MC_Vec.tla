------------------------------ MODULE MC_Vec ------------------------------
(* Model-checking / behaviour-emission wrapper for Vec.tla. *)
EXTENDS Vec, Json

\* always-true invariant that prints every completed behaviour as one JSON object
Emit == (phase = "done") => PrintT(<<"REPLAY", ToJson([cfg |-> cfg, key |-> key, steps |-> hist])>>)

\* keep counting without printing (model-checking configurations)
Quiet == TRUE
=============================================================================
