---------------------------- MODULE MC_ResetLoop ----------------------------
(***************************************************************************)
(* C03, liveness clause: "a fixed workload run in a reset() loop stops     *)
(* requesting chunks after finitely many rounds".                          *)
(* One step = one round: allocate the workload, then Bump::reset() (which  *)
(* keeps only the largest chunk).  Checked under weak fairness, without a  *)
(* state constraint: the temporal property <>[]quiet.                      *)
(***************************************************************************)
EXTENDS MC_Arena

VARIABLES wl, quiet
lvars == <<vars, wl, quiet>>

LInit == Init /\ wl \in Workloads /\ quiet = FALSE

Round ==
    /\ ~dropped
    /\ LET r  == RunAllocs(chunks, cur, base, wl, 1, 1, {}, <<>>, FALSE)
           n  == Len(r.chunks)
       IN /\ chunks' = IF r.cur = 0 THEN r.chunks ELSE <<[r.chunks[n] EXCEPT !.pos = ResetPos(r.chunks[n]), !.g = 1]>>
          /\ cur' = IF r.cur = 0 THEN 0 ELSE 1
          \* the ledger is irrelevant here: keep only the next address so that the state space stays finite
          /\ base' = [next |-> r.base.next, grants |-> IF r.cur = 0 THEN <<>> ELSE <<[r.base.grants[r.chunks[n].g] EXCEPT !.live = TRUE]>>]
          /\ quiet' = (Len(r.base.grants) = Len(base.grants))
    /\ UNCHANGED <<cfg, ma, frames, blocks, cps, nextId, order, parts, last, fails, dropped, nops, hist, wl>>

LSpec == LInit /\ [][Round]_lvars /\ WF_lvars(Round)

EventuallyQuiet == <>[]quiet
=============================================================================
