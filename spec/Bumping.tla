------------------------------ MODULE Bumping ------------------------------
(***************************************************************************)
(* Bump-pointer arithmetic of bump-scope (src/bumping.rs), property C11.   *)
(*                                                                         *)
(* Two layers:                                                             *)
(*  - the DECLARATIVE layer says what a bump computation must return, in   *)
(*    plain (unbounded) integer arithmetic: Fits / NearestUp / NearestDown *)
(*    / NewPos... / PrepareMax.  It is the contract of C11 and is what     *)
(*    PureObs.tla evaluates on results recorded from the real 64-bit code. *)
(*  - the ALGORITHM layer transcribes bump_up / bump_down /                *)
(*    bump_prepare_up / bump_prepare_down branch by branch over a W-bit    *)
(*    machine word (wrapping, saturating and `as isize` operations are     *)
(*    explicit; every plain + or - that would overflow the word raises the *)
(*    `ovf` flag, which is what a debug build would panic on and a release *)
(*    build would silently wrap).                                          *)
(* MC_Bumping checks algorithm = declarative for every valid input of a    *)
(* small word.                                                             *)
(***************************************************************************)
EXTENDS Integers, Sequences, FiniteSets, TLC

CONSTANT W          \* word size in bits (6..12 in the model-checking configurations)

Pow2(n) == 2^n
WordMod   == Pow2(W)
MaxU      == WordMod - 1
IsizeMax  == Pow2(W-1) - 1
MinChunkAlign == 16

Min(a, b) == IF a < b THEN a ELSE b
Max(a, b) == IF a > b THEN a ELSE b

IsPow2(a) == \E k \in 0..30 : a = Pow2(k)

DownAlign(x, a) == x - (x % a)
UpAlign(x, a)   == ((x + a - 1) \div a) * a          \* mathematical; may exceed the word

(***************************************************************************)
(* Declarative layer (unbounded integers; addresses may be relative to any *)
(* base that is a multiple of every alignment involved).                   *)
(***************************************************************************)

\* The free range is start..end ; upward bumping allocates at `start`, the position.
\* A request (size, align) fits upward iff the first aligned address at or after start leaves room.
PtrUp(start, align)            == UpAlign(start, align)
FitsUp(start, end, size, align) == start <= end /\ PtrUp(start, align) + size <= end
\* "exactly when no suitably aligned block of that size exists in the range"
ExistsBlock(start, end, size, align) ==
    \E a \in start..end : a % align = 0 /\ a + size <= end
NewPosUp(start, size, align, ma) == UpAlign(PtrUp(start, align) + size, ma)

\* Downward bumping allocates below `end`, the position; the returned pointer is the new position,
\* so it must also be a multiple of the minimum alignment.
PtrDown(end, size, align, ma)  == DownAlign(end - size, Max(align, ma))
FitsDown(start, end, size, align, ma) == start <= end /\ end - size >= 0 /\ PtrDown(end, size, align, ma) >= start

\* Largest sub-range whose two ends are multiples of align.
PrepLo(start, align) == UpAlign(start, align)
PrepHi(end, align)   == DownAlign(end, align)
PrepFits(start, end, size, align) == start <= end /\ PrepLo(start, align) + size <= PrepHi(end, align)

(***************************************************************************)
(* The contract of C11 on one recorded call (used on model results and, by *)
(* PureObs, on results of the real functions).                             *)
(*   r = [fit |-> BOOLEAN, ptr |-> Int, np |-> Int]     for bump_up/_down  *)
(*   r = [fit |-> BOOLEAN, lo |-> Int, hi |-> Int]      for prepare        *)
(***************************************************************************)
UpOk(start, end, size, align, ma, r) ==
    /\ r.fit = FitsUp(start, end, size, align)
    /\ r.fit =>
        /\ r.ptr = PtrUp(start, align)                 \* nearest aligned block to the position
        /\ r.ptr % align = 0
        /\ r.ptr >= start /\ r.ptr + size <= end       \* inside the range
        /\ r.np >= r.ptr + size /\ r.np <= end         \* new position past the block, inside the range
        /\ r.np % ma = 0
        /\ r.np = NewPosUp(start, size, align, ma)     \* tight: no more padding than needed

DownOk(start, end, size, align, ma, r) ==
    /\ r.fit = FitsDown(start, end, size, align, ma)
    /\ r.fit =>
        /\ r.ptr = PtrDown(end, size, align, ma)
        /\ r.ptr % align = 0 /\ r.ptr % ma = 0
        /\ r.ptr >= start /\ r.ptr + size <= end

PrepOk(start, end, size, align, r) ==
    /\ r.fit = PrepFits(start, end, size, align)
    /\ r.fit =>
        /\ r.lo = PrepLo(start, align) /\ r.hi = PrepHi(end, align)
        /\ r.lo % align = 0 /\ r.hi % align = 0
        /\ r.lo >= start /\ r.hi <= end
        /\ r.hi - r.lo >= size

(***************************************************************************)
(* Input domain: BumpProps::debug_assert_valid + Layout's own rules.       *)
(***************************************************************************)
ValidLayout(size, align) == IsPow2(align) /\ align <= Pow2(W-1) /\ size >= 0 /\ size <= Pow2(W-1) - align

IsDummy(start, end) == start = end + 16 /\ start % 16 = 0 /\ end % 16 = 0
ValidRange(start, end, ma, up) ==
    /\ start # 0 /\ end # 0 /\ start <= MaxU /\ end <= MaxU
    /\ \/ IsDummy(start, end)
       \/ /\ start <= end /\ end - start <= IsizeMax
          /\ IF up THEN start % ma = 0 /\ end % 16 = 0
                   ELSE start % 16 = 0 /\ end % ma = 0

\* Hints are truthful: "size multiple of align" may only be claimed when it is.
ValidHints(size, align, ac, sc, sm) == sm => (size % align = 0)

(***************************************************************************)
(* Algorithm layer: W-bit machine arithmetic.                              *)
(***************************************************************************)
Wrap(x)      == x % WordMod                       \* wrapping result
AsIsize(x)   == IF x > IsizeMax THEN x - WordMod ELSE x
SatAdd(a, b) == IF a + b > MaxU THEN MaxU ELSE a + b
SatSub(a, b) == IF a - b < 0 THEN 0 ELSE a - b
Ovf(x)       == x < 0 \/ x > MaxU                 \* a plain + or - left the word

None == [fit |-> FALSE, ptr |-> 0, np |-> 0, ovf |-> FALSE]

\* fn bump_up(props) -> Option<BumpUp>     (src/bumping.rs l.166)
BumpUpAlg(start, end, size, align, ma, ac, sc, sm) ==
  LET SmallConstAlign == ac /\ align <= MinChunkAlign
      \* ---- branch A: constant, small alignment fast path
      A_start   == IF align <= ma THEN start ELSE Wrap(start + (align - 1)) - (Wrap(start + (align - 1)) % align)
      A_ovf1    == ~(align <= ma) /\ Ovf(start + (align - 1))
      A_small   == sc /\ size < MinChunkAlign
      A1_np     == A_start + size
      A1_none   == end < Wrap(A1_np)
      A2_remain == AsIsize(Wrap(end - A_start))
      A2_none   == AsIsize(size) > A2_remain
      A2_np     == A_start + size
      \* ---- branch B: alignment > 16 or not const
      B_ad      == DownAlign(start - 1, align)
      B_np      == SatAdd(B_ad, align + size)
      B_none    == B_np > end
      B_start   == B_ad + align
      \* ---- common tail
      Aligned   == (ac /\ sm /\ align >= ma) \/ (sc /\ (size % ma = 0))
      Finish(st, np, ovf) ==
          LET np2 == IF Aligned THEN np ELSE Wrap(np + (ma - 1)) - (Wrap(np + (ma - 1)) % ma)
              o2  == ovf \/ (~Aligned /\ Ovf(np + (ma - 1)))
          IN [fit |-> TRUE, ptr |-> st, np |-> np2, ovf |-> o2]
  IN IF SmallConstAlign
     THEN IF A_small
          THEN IF A1_none THEN [None EXCEPT !.ovf = A_ovf1 \/ Ovf(A1_np)]
               ELSE Finish(A_start, A1_np, A_ovf1 \/ Ovf(A1_np))
          ELSE IF A2_none THEN [None EXCEPT !.ovf = A_ovf1]
               ELSE Finish(A_start, A2_np, A_ovf1 \/ Ovf(A2_np))
     ELSE IF B_none THEN [None EXCEPT !.ovf = Ovf(align + size)]
          ELSE Finish(B_start, B_np, Ovf(align + size) \/ Ovf(B_start))

\* fn bump_down(props) -> Option<usize>    (src/bumping.rs l.270)
BumpDownAlg(start, end, size, align, ma, ac, sc, sm) ==
  LET ElideLayout == sm /\ ac /\ align <= ma
      ElideMin    == (sm /\ ac /\ align >= ma) \/ (sc /\ (size % ma = 0))
      NeedsAlign  == ~(ElideLayout /\ ElideMin)
      AL          == Max(align, ma)
      \* ---- branch A: size const and <= 16
      A_e1   == end - size
      A_e2   == IF NeedsAlign THEN DownAlign(Wrap(A_e1), AL) ELSE Wrap(A_e1)
      \* ---- branch B: const small alignment
      B_rem  == AsIsize(Wrap(end - start))
      B_none == AsIsize(size) > B_rem
      B_e1   == end - size
      B_e2   == IF NeedsAlign THEN DownAlign(Wrap(B_e1), AL) ELSE Wrap(B_e1)
      \* ---- branch C: generic
      C_e    == DownAlign(SatSub(end, size), AL)
  IN IF sc /\ size <= MinChunkAlign
     THEN IF A_e2 < start THEN [None EXCEPT !.ovf = Ovf(A_e1)]
          ELSE [fit |-> TRUE, ptr |-> A_e2, np |-> A_e2, ovf |-> Ovf(A_e1)]
     ELSE IF ac /\ align <= MinChunkAlign
          THEN IF B_none THEN None
               ELSE [fit |-> TRUE, ptr |-> B_e2, np |-> B_e2, ovf |-> Ovf(B_e1)]
          ELSE IF C_e < start THEN None
               ELSE [fit |-> TRUE, ptr |-> C_e, np |-> C_e, ovf |-> FALSE]

PNone == [fit |-> FALSE, lo |-> 0, hi |-> 0, ovf |-> FALSE]

\* fn bump_prepare_up(props) -> Option<Range<usize>>     (src/bumping.rs l.380)
PrepUpAlg(start, end, size, align, ma, ac) ==
  LET Suff   == ac /\ align <= ma
      Small  == ac /\ align <= MinChunkAlign
      S_s    == Wrap(start + (align - 1)) - (Wrap(start + (align - 1)) % align)   \* up_align_unchecked
      S_ovf  == Ovf(start + (align - 1))
      C_ok   == start + (align - 1) <= MaxU          \* checked up_align: None on overflow ...
      C_s    == DownAlign(start + (align - 1), align)
      C_none == ~C_ok \/ C_s = 0 \/ C_s > end        \* ... or zero, or past the end
      st     == IF Suff THEN start ELSE IF Small THEN S_s ELSE C_s
      ovf    == ~Suff /\ Small /\ S_ovf
      rem    == AsIsize(Wrap(end - st))
  IN IF ~Suff /\ ~Small /\ C_none THEN PNone
     ELSE IF AsIsize(size) > rem THEN [PNone EXCEPT !.ovf = ovf]
     ELSE [fit |-> TRUE, lo |-> st, hi |-> DownAlign(end, align), ovf |-> ovf]

\* fn bump_prepare_down(props) -> Option<Range<usize>>   (src/bumping.rs l.441)
PrepDownAlg(start, end, size, align, ma, ac) ==
  LET Suff  == ac /\ align <= ma
      Small == ac /\ align <= MinChunkAlign
      e1    == IF Suff THEN end ELSE DownAlign(end, align)
      none1 == ~Suff /\ ~Small /\ e1 < start
      rem   == AsIsize(Wrap(e1 - start))
      lo    == Wrap(start + (align - 1)) - (Wrap(start + (align - 1)) % align)
      ovf   == Ovf(start + (align - 1))
  IN IF none1 THEN PNone
     ELSE IF AsIsize(size) > rem THEN PNone
     ELSE [fit |-> TRUE, lo |-> lo, hi |-> e1, ovf |-> ovf]

=============================================================================
