------------------------------ MODULE PoolTrace ------------------------------
(***************************************************************************)
(* Trace specification: is a recorded execution of the real BumpPool       *)
(* (harness/pool, NDJSON events) a behaviour of Pool.tla?                  *)
(*                                                                         *)
(* Conventional form: every logged event is matched by the Pool action it  *)
(* witnesses, with the logged fields bound to the action's parameters and  *)
(* to the model state (IsEvent /\ bind /\ Action).  One event = one        *)
(* action, so the search is a single path; the run is accepted iff all     *)
(* events are consumed (POSTCONDITION Accepted, deadlock checking off).    *)
(* All state invariants of Pool.tla are checked in every state reached     *)
(* (PoolTrace.cfg), i.e. at every step of every recorded execution.        *)
(* Many executions are concatenated in one file; `run_start` re-initialises *)
(* the model.                                                              *)
(*                                                                         *)
(* Order of events: forced runs are given in the order in which the        *)
(* controller executed the steps (one thread runs at a time); free-running *)
(* runs are linearised by the sequence number taken under the pool mutex   *)
(* (critical-section events) with each thread's other events placed right  *)
(* after its previous event -- they only touch the thread's own state and  *)
(* the arena it owns exclusively.  No clock is involved.                   *)
(*                                                                         *)
(* A rejected trace is NOT yet a violation of C19: the model is stricter   *)
(* than the property (LIFO order of the idle stack, exact idle length,     *)
(* statistics of an arena unchanged while idle, ...).  PoolContract.tla    *)
(* evaluates the C19 clauses themselves on the same events; rejected here  *)
(* but clean there = MODEL-DRIFT.                                          *)
(***************************************************************************)
EXTENDS Pool, Integers, TLC, Json, IOUtils

VARIABLES i,        \* index of the next event
          seen,     \* [arena -> last observed statistics [n, sz, al, first]]
          nfrees,   \* number of base-allocator frees that the pool-wide resets so far account for
          mycs      \* [Threads -> sequence number of the thread's latest critical section]

tvars == <<vars, i, seen, nfrees, mycs>>

Trace == ndJsonDeserialize(IOEnv.TRACE)
N     == Len(Trace)
ev    == Trace[i]
Is(k) == i <= N /\ Trace[i].ev = k
Adv   == i' = i + 1

ObsRec(o)        == [n |-> o.n, sz |-> o.sz, al |-> o.al, first |-> o.first]
TwinAgrees(o, w) == w.a = o.a /\ w.n = o.n /\ w.sz = o.sz /\ w.al = o.al
See(a, o)        == seen' = [x \in DOMAIN seen \cup {a} |-> IF x = a THEN ObsRec(o) ELSE seen[x]]

RECURSIVE SumTo(_, _)
SumTo(f, n) == IF n = 0 THEN 0 ELSE f[n] + SumTo(f, n - 1)

TInit == Init /\ i = 1 /\ seen = <<>> /\ nfrees = 0 /\ mycs = [t \in Threads |-> 0]

TRunStart ==
    /\ Is("run_start")
    /\ pc' = [t \in Threads |-> "idle"] /\ mutex' = NoThread /\ idle' = <<>> /\ used' = {}
    /\ has' = [t \in Threads |-> NoArena] /\ fresh' = [t \in Threads |-> FALSE]
    /\ blocks' = <<>> /\ chunks' = <<>> /\ round' = [t \in Threads |-> 0] /\ phase' = 0 /\ alive' = TRUE
    /\ nseq' = 0 /\ peak' = 0 /\ speak' = 0 /\ written' = {} /\ everCreated' = 0 /\ leaked' = {} /\ poisoned' = FALSE
    /\ seen' = <<>> /\ nfrees' = 0 /\ mycs' = [t \in Threads |-> 0] /\ Adv

Keep == UNCHANGED <<seen, nfrees, mycs>> /\ Adv

TGetWant  == Is("get_want")  /\ GetCall(ev.t) /\ Keep
TGetCs    == Is("get_cs")    /\ GetLock(ev.t) /\ ev.seq = nseq + 1 /\ ev.idle = Len(idle)
             /\ mycs' = [mycs EXCEPT ![ev.t] = ev.seq] /\ UNCHANGED <<seen, nfrees>> /\ Adv
TCreate   == Is("create")    /\ GetCreateBegin(ev.t, ev.arena) /\ Keep
TGetPost  == Is("get_post")  /\ (GetPop(ev.t) \/ GetCreateEnd(ev.t)) /\ Keep
TGetFail  == Is("get_fail")  /\ GetCreateFail(ev.t) /\ Keep
TGetPanic == Is("get_panic") /\ GetPanic(ev.t) /\ Keep
TGetDone ==
    /\ Is("get_done")
    /\ LET t == ev.t IN
       /\ GetReturn(t)
       /\ ev.arena = has[t] /\ ev.obs.a = ev.arena /\ ev.created = fresh[t]
       /\ ev.damaged = <<>>
       /\ TwinAgrees(ev.obs, ev.twin)
       /\ ev.obs.n = chunks[has[t]]
       \* a fresh arena: its first chunk was requested inside the thread's own critical section (no other critical section
       \* was entered since) and, in particular, while no arena was idle
       /\ IF fresh[t] THEN ev.obs.al = 0 /\ ev.at_alloc.cs = mycs[t]
                           /\ NoIdleAtCreationC(ev.at_alloc.pushed - ev.at_alloc.pops)
                      ELSE ev.arena \in DOMAIN seen /\ ObsRec(ev.obs) = seen[ev.arena]   \* untouched while idle
       /\ See(ev.arena, ev.obs)
    /\ UNCHANGED <<nfrees, mycs>> /\ Adv
TUse ==
    /\ Is("use")
    /\ LET t == ev.t  a == has[ev.t] IN
       /\ ev.arena = a /\ ev.obs.a = a /\ ev.tag = <<t, phase, round[t]>>
       /\ ev.damaged = <<>>
       /\ TwinAgrees(ev.obs, ev.twin)
       /\ a \in DOMAIN seen /\ ev.obs.al > seen[a].al /\ ev.obs.first = seen[a].first
       /\ Use(t, ev.obs.n - chunks[a])
       /\ See(a, ev.obs)
    /\ UNCHANGED <<nfrees, mycs>> /\ Adv
TDropWant == Is("drop_want") /\ DropCall(ev.t) /\ Keep
TDropCs   == Is("drop_cs")   /\ DropLock(ev.t) /\ ev.seq = nseq + 1 /\ ev.idle = Len(idle) /\ Keep
TDropPost == Is("drop_post") /\ DropPush(ev.t) /\ Keep
TDropDone == Is("drop_done") /\ DropReturn(ev.t) /\ Keep
TForget   == Is("forget")    /\ ev.arena = has[ev.t] /\ Forget(ev.t) /\ Keep

IdleObsOK(arenas, twins) ==
    /\ Len(arenas) = Len(idle) /\ Len(twins) = Len(idle)
    /\ \A j \in DOMAIN idle :
          /\ arenas[j].a = idle[j] /\ arenas[j].n = chunks[idle[j]]
          /\ idle[j] \in DOMAIN seen /\ ObsRec(arenas[j]) = seen[idle[j]]
          /\ TwinAgrees(arenas[j], twins[j])

LedgerClean(l) == l.dfree = 0 /\ l.bfree = 0 /\ l.outstanding = l.total_allocs - l.total_frees

TCheck ==                      \* the owner of the pool looks at it (`&mut self`): a stuttering step of the model
    /\ Is("check") /\ alive /\ Quiescent
    /\ ev.idle = idle
    /\ ev.damaged = <<>>
    /\ IdleObsOK(ev.arenas, ev.twins)
    /\ LedgerClean(ev.ledger) /\ ev.ledger.total_frees = nfrees
    /\ \A j \in DOMAIN idle : ev.ledger.allocs[j] - ev.ledger.frees[j] = chunks[idle[j]]
    /\ UNCHANGED vars /\ Keep

AfterOf(a) == ev.after[CHOOSE j \in DOMAIN idle : idle[j] = a]

TPoolReset ==
    /\ Is("pool_reset") /\ PoolReset
    /\ ev.idle = idle /\ Len(ev.before) = Len(idle) /\ Len(ev.after) = Len(idle)
    /\ \A j \in DOMAIN idle : LET b == ev.before[j]  a == ev.after[j] IN
          /\ b.a = idle[j] /\ a.a = idle[j]
          /\ a.n = 1 /\ a.al = 0 /\ a.sz <= b.sz
          /\ (b.n = 1 => a.sz = b.sz /\ a.first = b.first)
          /\ TwinAgrees(a, ev.twins[j])
          /\ ev.ledger.frees[j] - ev.ledger_before.frees[j] = b.n - 1
          /\ ev.ledger.allocs[j] = ev.ledger_before.allocs[j]
    /\ LedgerClean(ev.ledger)
    /\ ev.ledger.total_frees = nfrees + SumTo([j \in DOMAIN idle |-> ev.before[j].n - 1], Len(idle))
    /\ nfrees' = ev.ledger.total_frees
    /\ ev.damaged = <<>>                      \* what lives in leaked arenas survives the reset
    /\ seen' = [a \in DOMAIN seen |-> IF InIdle(a) THEN ObsRec(AfterOf(a)) ELSE seen[a]]
    /\ UNCHANGED mycs /\ Adv

TPoolResetToStart ==
    /\ Is("pool_reset_to_start") /\ PoolResetToStart
    /\ ev.idle = idle /\ Len(ev.before) = Len(idle) /\ Len(ev.after) = Len(idle)
    /\ \A j \in DOMAIN idle : LET b == ev.before[j]  a == ev.after[j] IN
          /\ b.a = idle[j] /\ a.a = idle[j]
          /\ a.n = b.n /\ a.sz = b.sz /\ a.al = 0 /\ a.first = b.first
          /\ TwinAgrees(a, ev.twins[j])
          /\ ev.ledger.frees[j] = ev.ledger_before.frees[j]
          /\ ev.ledger.allocs[j] = ev.ledger_before.allocs[j]
    /\ LedgerClean(ev.ledger) /\ ev.ledger.total_frees = nfrees
    /\ ev.damaged = <<>>
    /\ seen' = [a \in DOMAIN seen |-> IF InIdle(a) THEN ObsRec(AfterOf(a)) ELSE seen[a]]
    /\ UNCHANGED <<nfrees, mycs>> /\ Adv

TPoolDrop ==
    /\ Is("pool_drop") /\ PoolDrop
    /\ ev.idle = idle
    /\ \A j \in DOMAIN idle :
          /\ ev.ledger.frees[j] - ev.ledger_before.frees[j] = chunks[idle[j]]
          /\ ev.ledger.frees[j] = ev.ledger.allocs[j]
    /\ LedgerClean(ev.ledger)
    /\ Range(ev.leaked) = leaked
    /\ \A j \in 1..ev.ever :                     \* arena ids are 1..ever (ids of failed creations have no grants)
          IF j \in leaked THEN ev.ledger_all.allocs[j] - ev.ledger_all.frees[j] = chunks[j]   \* nothing released since
                          ELSE ev.ledger_all.frees[j] = ev.ledger_all.allocs[j]
    /\ ev.ledger.outstanding = SumTo([j \in 1..ev.ever |-> IF j \in leaked THEN chunks[j] ELSE 0], ev.ever)
    /\ ev.damaged = <<>>                      \* blocks in leaked arenas outlive the pool
    /\ Keep

TNext == \/ TRunStart \/ TGetWant \/ TGetCs \/ TCreate \/ TGetPost \/ TGetFail \/ TGetPanic \/ TGetDone \/ TUse
         \/ TDropWant \/ TDropCs \/ TDropPost \/ TDropDone \/ TForget
         \/ TCheck \/ TPoolReset \/ TPoolResetToStart \/ TPoolDrop

TSpec == TInit /\ [][TNext]_tvars

\* accepted iff every event was consumed; the number consumed is reported either way
Accepted ==
    LET d == TLCGet("stats").diameter IN
    /\ PrintT(<<"CONSUMED", d - 1, N>>)
    /\ d - 1 = N
=============================================================================
