SPECIFICATION PSpec
CONSTANTS
    Threads = {1, 2}
    MaxRounds = 1
    MaxChunks = 100
    MaxPoolOps = 1
    CreateUnderLock = TRUE
    MayFail = TRUE
    MayForget = TRUE
INVARIANT Emit
