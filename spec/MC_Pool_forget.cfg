\* quick tier, leaked guards: 2 threads x 2 rounds, no pool-wide reset; a guard may be passed to mem::forget instead of being dropped
SPECIFICATION Spec
CONSTANTS
    Threads = {t1, t2}
    MaxRounds = 2
    MaxChunks = 1
    MaxPoolOps = 0
    CreateUnderLock = TRUE
    MayFail = FALSE
    MayForget = TRUE
    MayPanic = TRUE
SYMMETRY Symm
INVARIANTS TypeOK MutexOK OwnerOK Exclusive IdleDisjoint Conservation ReuseOK ReuseTight DataIntact
PROPERTIES DecideCreateOnlyWhenIdleEmpty CreatedOnlyWhenIdleEmpty BlocksOnlyForgottenByPoolOps ResetRewindsAll DropReleasesAll LeakedStayValid
