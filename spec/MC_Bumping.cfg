SPECIFICATION Spec
CONSTANT W = 8
INVARIANT AlgorithmMeetsContract
CHECK_DEADLOCK FALSE
