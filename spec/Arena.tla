------------------------------- MODULE Arena -------------------------------
(***************************************************************************)
(* The allocator state machine of bump-scope (src/raw_bump.rs,             *)
(* src/allocator_impl.rs, src/bump_scope_guard.rs, src/bump_claim_guard.rs,*)
(* src/bump_align_guard.rs, src/without_dealloc.rs, src/stats.rs) as an    *)
(* implementation-shaped, deterministic model over exact (virtual)         *)
(* addresses, together with a specified base allocator.                    *)
(*                                                                         *)
(* One action per public operation.  The configuration (settings + base    *)
(* allocator flavour) is chosen in Init, so that one TLC run covers the    *)
(* whole settings matrix.                                                  *)
(*                                                                         *)
(* The CONTRACT operators at the end of the module say what the listed     *)
(* properties state; MC_Arena checks them as invariants / action           *)
(* properties of this model, ArenaObs evaluates them on executions         *)
(* recorded from the real code.                                            *)
(***************************************************************************)
EXTENDS Integers, Sequences, FiniteSets, TLC

CONSTANTS
    Cfgs,        \* set of configurations, records
                 \*   [up, ma, ga, dealloc, shrinks, mcs : settings; hs, ha : chunk header layout (base allocator flavour);
                 \*    extra : bytes the base allocator grants beyond the request; skew : BOOLEAN base addresses are odd multiples of the alignment]
    Ctors,       \* set of constructor descriptions [k |-> "new" | "with_size" | "with_capacity" | "unallocated", n, al]
    Layouts,     \* set of [sz, al] used by Alloc / Grow / Shrink
    MaxOps,      \* bound on the number of operations of a behaviour (state constraint in MC modules)
    MaxBlocks,   \* bound on live blocks
    MaxDepth,    \* bound on frame nesting
    MaxFail,     \* budget of injected base allocator failures
    RecordHist   \* TRUE: keep the history of steps (behaviour emission); FALSE: model checking (history not needed)

W == 30
CS == INSTANCE ChunkSize WITH W <- 30
B  == INSTANCE Bumping   WITH W <- 30

Max(a, b) == IF a > b THEN a ELSE b
Min(a, b) == IF a < b THEN a ELSE b
DownAlign(x, a) == x - (x % a)
UpAlign(x, a)   == ((x + a - 1) \div a) * a
RECURSIVE SumSeq(_)
SumSeq(s) == IF s = <<>> THEN 0 ELSE Head(s) + SumSeq(Tail(s))

VARIABLES
    cfg,      \* the configuration of this behaviour
    base,     \* base allocator: [next |-> address, grants |-> Seq([addr, req, size, align, live])]
    chunks,   \* Seq([g : grant index, start, size, lo, hi, pos]) in list order (small to big)
    cur,      \* index of the current chunk; 0 = unallocated dummy
    ma,       \* effective minimum alignment (changes inside aligned regions)
    frames,   \* LIFO of open frames, see Frame* below
    blocks,   \* live blocks: function id -> [addr, sz, al]   (domain = live ids)
    cps,      \* unsafe-API checkpoints taken in the current frame: Seq([chunk, pos, live : set of ids, ncps])
    nextId,   \* next block id
    order,    \* live block ids in allocation order (a reallocated block counts as newly allocated); its last element is
              \* "the most recent live allocation" (history label for C13)
    parts,    \* ids of live blocks that are split-off parts of an allocation (C16)
    last,     \* id of the most recent allocation if nothing moved the position since, else 0 (history label for C13)
    fails,    \* number of base allocator failures injected so far
    dropped,  \* TRUE after DropArena
    nops,     \* number of operations so far
    hist      \* history of steps (outside the VIEW): what the replayer executes and what the model expects

vars == <<cfg, base, chunks, cur, ma, frames, blocks, cps, nextId, order, parts, last, fails, dropped, nops, hist>>
view == <<cfg, base, chunks, cur, ma, frames, blocks, cps, order, parts, last, fails, dropped>>

(***************************************************************************)
(* Base allocator (specified environment): bump through a region, never    *)
(* reuse, 48 bytes of guard gap before every block, optional over-grant    *)
(* and optional "skew" (block addresses are odd multiples of the requested *)
(* alignment, i.e. as badly aligned as the contract allows).               *)
(***************************************************************************)
Gap == 48
BaseAddr(next, align) ==
    LET a == UpAlign(next + Gap, align)
    IN IF cfg.skew /\ (a \div align) % 2 = 0 THEN a + align ELSE a

\* result of base.allocate(size, align): [addr, granted] ; the new base state
BaseAlloc(b, size, align) ==
    LET a == BaseAddr(b.next, align)
        g == size + cfg.extra
    IN [addr |-> a, granted |-> g,
        b |-> [next |-> a + g,
               grants |-> Append(b.grants, [addr |-> a, req |-> size, size |-> g, align |-> align, live |-> TRUE])]]

BaseFree(b, gi) == [b EXCEPT !.grants[gi].live = FALSE]

(***************************************************************************)
(* Chunks                                                                  *)
(***************************************************************************)
CC == [up |-> cfg.up, hs |-> cfg.hs, ha |-> cfg.ha]

\* NonDummyChunk::new : a chunk of requested size `req` (already a valid ChunkSize)
MkChunk(b, req) ==
    LET r    == BaseAlloc(b, req, cfg.ha)
        size == CS!AlignSize(CC, r.granted)
        gi   == Len(r.b.grants)
        c    == IF cfg.up
                THEN [g |-> gi, start |-> r.addr, size |-> size, lo |-> r.addr + cfg.hs, hi |-> r.addr + size,
                      pos |-> r.addr + cfg.hs]
                ELSE [g |-> gi, start |-> r.addr, size |-> size, lo |-> r.addr, hi |-> r.addr + size - cfg.hs,
                      pos |-> r.addr + size - cfg.hs]
    IN [b |-> r.b, c |-> c]

ResetPos(c) == IF cfg.up THEN c.lo ELSE c.hi
Capacity(c) == c.hi - c.lo
ChunkAllocated(c) == IF cfg.up THEN c.pos - c.lo ELSE c.hi - c.pos
ChunkRemaining(c) == IF cfg.up THEN c.hi - c.pos ELSE c.pos - c.lo

\* Does (sz, al) fit in chunk c at its current position (RawChunk::alloc) and where?
Fits(c, sz, al, m) ==
    IF cfg.up THEN B!FitsUp(c.pos, c.hi, sz, al) ELSE B!FitsDown(c.lo, c.pos, sz, al, m)
PtrIn(c, sz, al, m) ==
    IF cfg.up THEN B!PtrUp(c.pos, al) ELSE B!PtrDown(c.pos, sz, al, m)
PosAfter(c, sz, al, m) ==
    IF cfg.up THEN B!NewPosUp(c.pos, sz, al, m) ELSE B!PtrDown(c.pos, sz, al, m)

(***************************************************************************)
(* The slow path  RawBump::in_another_chunk  for an allocation.            *)
(* Returns [ok, chunks, cur, base, addr].  `fail` = the base allocator     *)
(* refuses the (single) chunk request of this operation.                   *)
(***************************************************************************)
RECURSIVE WalkAlloc(_, _, _, _, _)
\* walk the later chunks: reset each, make it current, try it
WalkAlloc(chs, i, sz, al, m) ==
    IF i > Len(chs) THEN [found |-> FALSE, chunks |-> chs, cur |-> Len(chs)]
    ELSE LET c1   == [chs[i] EXCEPT !.pos = ResetPos(chs[i])]
             chs1 == [chs EXCEPT ![i] = c1]
         IN IF Fits(c1, sz, al, m)
            THEN [found |-> TRUE, cur |-> i, addr |-> PtrIn(c1, sz, al, m),
                  chunks |-> [chs1 EXCEPT ![i].pos = PosAfter(c1, sz, al, m)]]
            ELSE WalkAlloc(chs1, i + 1, sz, al, m)

ErrRes(chs, c, b) == [ok |-> FALSE, chunks |-> chs, cur |-> c, base |-> b, addr |-> 0]

SlowAlloc(chs, c, b, sz, al, m, fail) ==
    IF c = 0
    THEN \* unallocated: first chunk from ChunkSize::from_capacity(layout)
         LET req == CS!FromCapacity(CC, cfg.mcs, sz, al)
         IN IF req = CS!NoneV \/ ~CS!LayoutOk(CC, req) \/ fail THEN ErrRes(chs, c, b)
            ELSE LET mk == MkChunk(b, req)
                     c1 == mk.c
                 IN [ok |-> TRUE, base |-> mk.b, cur |-> 1, addr |-> PtrIn(c1, sz, al, m),
                     chunks |-> <<[c1 EXCEPT !.pos = PosAfter(c1, sz, al, m)]>>]
    ELSE LET w == WalkAlloc(chs, c + 1, sz, al, m)
         IN IF w.found THEN [ok |-> TRUE, base |-> b, cur |-> w.cur, addr |-> w.addr, chunks |-> w.chunks]
            ELSE \* append a chunk to the last one (when that fails, the later chunks stay reset but the current chunk is restored)
                 LET lastc == w.chunks[Len(w.chunks)]
                     req   == CS!AppendSize(CC, cfg.mcs, lastc.size, sz, al)
                 IN IF req = CS!NoneV \/ ~CS!LayoutOk(CC, req) \/ fail THEN ErrRes(w.chunks, c, b)   \* the current chunk is restored
                    ELSE LET mk == MkChunk(b, req)
                             c1 == mk.c
                         IN [ok |-> TRUE, base |-> mk.b, cur |-> Len(w.chunks) + 1, addr |-> PtrIn(c1, sz, al, m),
                             chunks |-> Append(w.chunks, [c1 EXCEPT !.pos = PosAfter(c1, sz, al, m)])]

\* RawBump::alloc : fast path in the current chunk, else slow path
DoAlloc(chs, c, b, sz, al, m, fail) ==
    IF c # 0 /\ Fits(chs[c], sz, al, m)
    THEN [ok |-> TRUE, base |-> b, cur |-> c, addr |-> PtrIn(chs[c], sz, al, m),
          chunks |-> [chs EXCEPT ![c].pos = PosAfter(chs[c], sz, al, m)]]
    ELSE SlowAlloc(chs, c, b, sz, al, m, fail)

\* does the operation reach the base allocator (so that a failure can be injected)?
NeedsBase(chs, c, sz, al, m) ==
    ~(c # 0 /\ Fits(chs[c], sz, al, m)) /\
    (c = 0 \/ ~WalkAlloc(chs, c + 1, sz, al, m).found)

(***************************************************************************)
(* is_last / deallocate / grow / shrink   (src/allocator_impl.rs)          *)
(***************************************************************************)
IsLast(chs, c, addr, sz) ==
    c # 0 /\ IF cfg.up THEN addr + sz = chs[c].pos ELSE addr = chs[c].pos

AlignPos(p, m) == IF cfg.up THEN UpAlign(p, m) ELSE DownAlign(p, m)

\* position after deallocate_assume_last
DeallocPos(addr, sz, m) == IF cfg.up THEN UpAlign(addr, m) ELSE DownAlign(addr + sz, m)

\* deallocate: [chunks]  (wd = called through WithoutDealloc)
DoDealloc(chs, c, addr, sz, m, wd) ==
    IF wd \/ ~cfg.dealloc \/ ~IsLast(chs, c, addr, sz) THEN chs
    ELSE [chs EXCEPT ![c].pos = DeallocPos(addr, sz, m)]

\* grow: returns [ok, chunks, cur, base, addr, moved]
DoGrow(chs, c, b, addr, osz, nsz, nal, m, fail) ==
    IF cfg.up
    THEN IF IsLast(chs, c, addr, osz) /\ addr % nal = 0
         THEN IF nsz <= chs[c].hi - addr
              THEN [ok |-> TRUE, chunks |-> [chs EXCEPT ![c].pos = UpAlign(addr + nsz, m)], cur |-> c, base |-> b, addr |-> addr]
              ELSE SlowAlloc(chs, c, b, nsz, nal, m, fail)
         ELSE DoAlloc(chs, c, b, nsz, nal, m, fail)
    ELSE IF IsLast(chs, c, addr, osz)
         THEN LET q0 == IF addr - (nsz - osz) < 0 THEN 0 ELSE addr - (nsz - osz)
                  q  == DownAlign(q0, Max(nal, m))
              IN IF q >= chs[c].lo
                 THEN [ok |-> TRUE, chunks |-> [chs EXCEPT ![c].pos = q], cur |-> c, base |-> b, addr |-> q]
                 ELSE SlowAlloc(chs, c, b, nsz, nal, m, fail)
         ELSE DoAlloc(chs, c, b, nsz, nal, m, fail)

\* does grow reach the base allocator?
GrowNeedsBase(chs, c, addr, osz, nsz, nal, m) ==
    IF cfg.up
    THEN IF IsLast(chs, c, addr, osz) /\ addr % nal = 0
         THEN ~(nsz <= chs[c].hi - addr) /\ (c = 0 \/ ~WalkAlloc(chs, c + 1, nsz, nal, m).found)
         ELSE NeedsBase(chs, c, nsz, nal, m)
    ELSE IF IsLast(chs, c, addr, osz)
         THEN LET q0 == IF addr - (nsz - osz) < 0 THEN 0 ELSE addr - (nsz - osz)
              IN ~(DownAlign(q0, Max(nal, m)) >= chs[c].lo) /\ (c = 0 \/ ~WalkAlloc(chs, c + 1, nsz, nal, m).found)
         ELSE NeedsBase(chs, c, nsz, nal, m)

\* shrink: returns [ok, chunks, cur, base, addr, rsz]  (rsz = size of the returned slice)
\* ws = called through WithoutShrink, wd = through WithoutDealloc (only forwards)
DoShrink(chs, c, b, addr, osz, nsz, nal, m, ws, fail) ==
    IF ws
    THEN \* WithoutShrink::shrink
         IF addr % nal = 0
         THEN [ok |-> TRUE, chunks |-> chs, cur |-> c, base |-> b, addr |-> addr, rsz |-> nsz]
         ELSE LET r == DoAlloc(chs, c, b, nsz, nal, m, fail) IN
              [ok |-> r.ok, chunks |-> r.chunks, cur |-> r.cur, base |-> r.base, addr |-> r.addr, rsz |-> nsz]
    ELSE IF addr % nal # 0
    THEN \* shrink_unfit
         IF cfg.shrinks /\ IsLast(chs, c, addr, osz)
         THEN LET chs1 == IF cfg.dealloc THEN [chs EXCEPT ![c].pos = DeallocPos(addr, osz, m)] ELSE chs
              IN IF Fits(chs1[c], nsz, nal, m)
                 THEN [ok |-> TRUE, base |-> b, cur |-> c, addr |-> PtrIn(chs1[c], nsz, nal, m), rsz |-> nsz,
                       chunks |-> [chs1 EXCEPT ![c].pos = PosAfter(chs1[c], nsz, nal, m)]]
                 ELSE LET r == SlowAlloc(chs, c, b, nsz, nal, m, fail) IN     \* old position restored first
                      [ok |-> r.ok, chunks |-> r.chunks, cur |-> r.cur, base |-> r.base, addr |-> r.addr, rsz |-> nsz]
         ELSE LET r == DoAlloc(chs, c, b, nsz, nal, m, fail) IN
              [ok |-> r.ok, chunks |-> r.chunks, cur |-> r.cur, base |-> r.base, addr |-> r.addr, rsz |-> nsz]
    ELSE IF ~cfg.shrinks \/ ~IsLast(chs, c, addr, osz)
    THEN [ok |-> TRUE, chunks |-> chs, cur |-> c, base |-> b, addr |-> addr, rsz |-> osz]
    ELSE IF cfg.up
    THEN [ok |-> TRUE, chunks |-> [chs EXCEPT ![c].pos = UpAlign(addr + nsz, m)], cur |-> c, base |-> b, addr |-> addr, rsz |-> nsz]
    ELSE LET q == DownAlign(addr + osz - nsz, Max(nal, m))
         IN [ok |-> TRUE, chunks |-> [chs EXCEPT ![c].pos = q], cur |-> c, base |-> b, addr |-> q, rsz |-> nsz]

ShrinkNeedsBase(chs, c, addr, osz, nsz, nal, m, ws) ==
    /\ addr % nal # 0
    /\ IF ~ws /\ cfg.shrinks /\ IsLast(chs, c, addr, osz)
       THEN LET chs1 == IF cfg.dealloc THEN [chs EXCEPT ![c].pos = DeallocPos(addr, osz, m)] ELSE chs
            IN ~Fits(chs1[c], nsz, nal, m) /\ ~WalkAlloc(chs, c + 1, nsz, nal, m).found
       ELSE NeedsBase(chs, c, nsz, nal, m)

(***************************************************************************)
(* reserve (typed entry point, RawBump::reserve)                           *)
(***************************************************************************)
RECURSIVE LaterCapacity(_, _)
LaterCapacity(chs, i) == IF i > Len(chs) THEN 0 ELSE Capacity(chs[i]) + LaterCapacity(chs, i + 1)

\* how many bytes are still missing after the current chunk's rest and all later chunks' capacities
ReserveRest(chs, c, n) ==
    IF c = 0 THEN n
    ELSE LET have == ChunkRemaining(chs[c]) + LaterCapacity(chs, c + 1) IN IF n > have THEN n - have ELSE 0

\* NB the code subtracts chunk by chunk and stops early; a positive rest at the end appends one chunk
DoReserve(chs, c, b, n, fail) ==
    IF c = 0
    THEN LET req == CS!FromCapacity(CC, cfg.mcs, n, 1)
         IN IF req = CS!NoneV \/ ~CS!LayoutOk(CC, req) \/ fail THEN [ok |-> FALSE, chunks |-> chs, cur |-> c, base |-> b]
            ELSE LET mk == MkChunk(b, req) IN [ok |-> TRUE, chunks |-> <<mk.c>>, cur |-> 1, base |-> mk.b]
    ELSE LET rest == ReserveRest(chs, c, n)
         IN IF rest = 0 THEN [ok |-> TRUE, chunks |-> chs, cur |-> c, base |-> b]
            ELSE LET lastc == chs[Len(chs)]
                     req   == CS!AppendSize(CC, cfg.mcs, lastc.size, rest, 1)
                 IN IF req = CS!NoneV \/ ~CS!LayoutOk(CC, req) \/ fail THEN [ok |-> FALSE, chunks |-> chs, cur |-> c, base |-> b]
                    ELSE LET mk == MkChunk(b, req) IN [ok |-> TRUE, chunks |-> Append(chs, mk.c), cur |-> c, base |-> mk.b]

ReserveNeedsBase(chs, c, n) == c = 0 \/ ReserveRest(chs, c, n) > 0

(***************************************************************************)
(* Statistics as the accessors compute them (src/stats.rs)                 *)
(***************************************************************************)
StatAllocated(chs, c) == IF c = 0 THEN 0 ELSE ChunkAllocated(chs[c]) + SumSeq([i \in 1..(c-1) |-> Capacity(chs[i])])
StatRemaining(chs, c) == IF c = 0 THEN 0 ELSE ChunkRemaining(chs[c]) + LaterCapacity(chs, c + 1)
StatCapacity(chs, c)  == IF c = 0 THEN 0 ELSE SumSeq([i \in 1..Len(chs) |-> Capacity(chs[i])])
StatSize(chs, c)      == IF c = 0 THEN 0 ELSE SumSeq([i \in 1..Len(chs) |-> chs[i].size])
StatCount(chs, c)     == IF c = 0 THEN 0 ELSE Len(chs)

(***************************************************************************)
(* Frames.  kind:                                                          *)
(*   "scope"    closure of scoped(): checkpoint at entry, reset_to at exit  *)
(*   "guard"    scope_guard() + guard.scope(): same, plus GuardReset        *)
(*   "aligned"  aligned::<N>(): alignment raised (position aligned at entry)*)
(*              or lowered (re-aligned to the outer alignment at exit)      *)
(*   "saligned" scoped_aligned::<N>(): checkpoint BEFORE aligning           *)
(*   "claim"    claim(): the outer handle is inert until the guard drops    *)
(* Every frame records the checkpoint (chunk index or 0 = unallocated, and *)
(* position), the ids live at entry, the outer minimum alignment and the   *)
(* checkpoints of the enclosing frame.                                     *)
(***************************************************************************)
Checkpoint == [chunk |-> cur, pos |-> IF cur = 0 THEN 0 ELSE chunks[cur].pos]

\* RawBump::reset_to(cp)
ResetToCp(chs, cp) ==
    IF cp.chunk = 0
    THEN \* checkpoint of an unallocated arena: reset_to_start
         IF Len(chs) = 0 THEN [chunks |-> chs, cur |-> 0]
         ELSE [chunks |-> [chs EXCEPT ![1].pos = ResetPos(chs[1])], cur |-> 1]
    ELSE [chunks |-> [chs EXCEPT ![cp.chunk].pos = cp.pos], cur |-> cp.chunk]

Depth == Len(frames)
InClaim == \E i \in 1..Len(frames) : frames[i].kind = "claim"
LiveIds == DOMAIN blocks
Restrict(f, S) == [x \in (DOMAIN f) \cap S |-> f[x]]

\* A block that is reallocated (grow / shrink) inside a frame is a NEW allocation made inside that frame: it dies with
\* the frame (and with every checkpoint taken before), whatever its history.
SelectIds(sq, S) == SelectSeq(sq, LAMBDA x : x \in S)
Without(sq, id) == SelectSeq(sq, LAMBDA x : x # id)
\* the most recent live allocation that owns at least one byte (empty blocks do not occupy the arena)
Top(sq) == LET nz == SelectSeq(sq, LAMBDA x : blocks[x].sz > 0) IN IF nz = <<>> THEN 0 ELSE nz[Len(nz)]
AddSibling(S, id, nid) == IF id \in S THEN S \cup {nid} ELSE S
CpsAddSibling(cs, id, nid) == [k \in 1..Len(cs) |-> [cs[k] EXCEPT !.live = AddSibling(cs[k].live, id, nid)]]
StripCps(cs, id) == [k \in 1..Len(cs) |-> [cs[k] EXCEPT !.live = @ \ {id}]]
ForgetInFrames(id) == [i \in 1..Len(frames) |-> [frames[i] EXCEPT !.live = @ \ {id}, !.cps = StripCps(@, id)]]

(***************************************************************************)
(* History entries (what the replayer executes + what the model expects).  *)
(* Step must be the LAST conjunct of an action: it reads primed variables. *)
(***************************************************************************)
Exp(res, addr, extra) ==
    [res |-> res, addr |-> addr, cur |-> cur', pos |-> IF cur' = 0 THEN 0 ELSE chunks'[cur'].pos,
     allocated |-> StatAllocated(chunks', cur'), count |-> StatCount(chunks', cur'),
     nchunks |-> Len(chunks'), live |-> DOMAIN blocks', ma |-> ma', x |-> extra,
     fails |-> fails',                                                       \* injected failures so far
     nparts |-> Cardinality(parts'),                                         \* live split-off parts
     inaligned |-> \E i \in 1..Len(frames') : frames'[i].kind \in {"aligned", "saligned", "bmws", "bvws"},
     inclaim |-> \E i \in 1..Len(frames') : frames'[i].kind = "claim",
     inprep |-> Len(frames') > 0 /\ frames'[Len(frames')].kind = "prep"]

\* the same record for an explicitly given state (used by composite actions that append several history entries)
ExpS(res, addr, extra, chs, c, liveset, frs, nparts) ==
    [res |-> res, addr |-> addr, cur |-> c, pos |-> IF c = 0 THEN 0 ELSE chs[c].pos,
     allocated |-> StatAllocated(chs, c), count |-> StatCount(chs, c), nchunks |-> Len(chs), live |-> liveset, ma |-> ma,
     x |-> extra, fails |-> fails, nparts |-> nparts,
     inaligned |-> \E i \in 1..Len(frs) : frs[i].kind \in {"aligned", "saligned", "bmws", "bvws"},
     inclaim |-> \E i \in 1..Len(frs) : frs[i].kind = "claim",
     inprep |-> FALSE]

\* (TLC evaluates operator arguments lazily: with RecordHist = FALSE the expectation records are never built)
Step(a, args, exp) == (hist' = IF RecordHist THEN Append(hist, [a |-> a, args |-> args, exp |-> exp]) ELSE hist) /\ nops' = nops + 1

NoX == [none |-> TRUE]

(***************************************************************************)
(* Initial states: configuration and constructor                            *)
(***************************************************************************)
CtorSize(c, k) ==
    LET cc == [up |-> c.up, hs |-> c.hs, ha |-> c.ha] IN
    CASE k.k = "new"           -> CS!CalcSize(cc, c.mcs, c.mcs)      \* Bump::new_in = with_size_in(MINIMUM_CHUNK_SIZE)
      [] k.k = "with_size"     -> CS!CalcSize(cc, c.mcs, k.n)
      [] k.k = "with_capacity" -> CS!FromCapacity(cc, c.mcs, k.n, k.al)
      [] OTHER                 -> CS!NoneV

InitWith(c, k) ==
    /\ cfg = c
    /\ ma = c.ma
    /\ frames = <<>> /\ blocks = <<>> /\ cps = <<>> /\ nextId = 1 /\ order = <<>> /\ parts = {} /\ last = 0 /\ fails = 0 /\ dropped = FALSE /\ nops = 0
    /\ IF k.k = "unallocated"
       THEN /\ ~c.ga
            /\ base = [next |-> 65536, grants |-> <<>>] /\ chunks = <<>> /\ cur = 0
       ELSE LET req == CtorSize(c, k)
                mk  == MkChunk([next |-> 65536, grants |-> <<>>], req)
            IN /\ req # CS!NoneV
               /\ base = mk.b /\ chunks = <<mk.c>> /\ cur = 1
    /\ hist = <<[a |-> "ctor", args |-> k, cfg0 |-> c,     \* (the configuration may change later: Bump::with_settings)
                 exp |-> [res |-> "ok", addr |-> 0, cur |-> cur, pos |-> IF cur = 0 THEN 0 ELSE chunks[cur].pos,
                          allocated |-> 0, count |-> StatCount(chunks, cur), nchunks |-> Len(chunks), live |-> {},
                          ma |-> ma, x |-> NoX, fails |-> 0, nparts |-> 0, inaligned |-> FALSE, inclaim |-> FALSE, inprep |-> FALSE]]>>

Init == \E c \in Cfgs : \E k \in Ctors : InitWith(c, k)

(***************************************************************************)
(* Actions                                                                 *)
(***************************************************************************)
Active == ~dropped
\* while an exclusive-borrow collection is being filled nothing else can touch the arena
Free == ~(Len(frames) > 0 /\ frames[Len(frames)].kind = "prep")
CanFail == fails < MaxFail
WD(wrap) == wrap \in {"wd", "both"}       \* through WithoutDealloc
WS(wrap) == wrap \in {"ws", "both"}       \* through WithoutShrink

\* growable vectors (BumpVec<T, A>, A a shared handle possibly wrapped): their buffer is a live block that carries the
\* element size, the length and the wrapper; a vector without buffer (capacity 0) has addr = 0, sz = 0
IsVec(b) == "vlen" \in DOMAIN b
VecIds == {i \in DOMAIN blocks : IsVec(blocks[i])}
FrameLive == IF Len(frames) = 0 THEN {} ELSE frames[Len(frames)].live
\* a vector borrows the handle it was created from (shared): while a vector created in the current frame is alive the
\* handle cannot be borrowed exclusively (scoped, aligned, exclusive-borrow collections, reset ...) and its frame cannot end
NoVecsHere == VecIds \subseteq FrameLive
OwnVec(id) == id \in VecIds /\ id \notin FrameLive
PlainBlock(id) == id \in DOMAIN blocks /\ ~IsVec(blocks[id])

\* ---- allocate / allocate_zeroed -----------------------------------------------------------------
\* fam / n: the value-level entry point family that carries the request ("" = the allocator interface), see ValueLayout
AllocG(l, zeroed, fail, fam, n) ==
    /\ Active /\ Free /\ Cardinality(LiveIds) < MaxBlocks
    /\ fail => (CanFail /\ NeedsBase(chunks, cur, l.sz, l.al, ma))
    /\ LET r == DoAlloc(chunks, cur, base, l.sz, l.al, ma, fail)
       IN /\ chunks' = r.chunks /\ cur' = r.cur /\ base' = r.base
          /\ blocks' = IF r.ok THEN [i \in LiveIds \cup {nextId} |-> IF i = nextId THEN [addr |-> r.addr, sz |-> l.sz, al |-> l.al] ELSE blocks[i]]
                       ELSE blocks
          /\ nextId' = IF r.ok THEN nextId + 1 ELSE nextId
          /\ last' = IF r.ok THEN nextId ELSE 0
          /\ order' = IF r.ok THEN Append(order, nextId) ELSE order
          /\ parts' = parts \cap DOMAIN blocks'
          /\ fails' = IF fail THEN fails + 1 ELSE fails
          /\ UNCHANGED <<cfg, ma, frames, cps, dropped>>
          /\ Step("alloc", [id |-> IF r.ok THEN nextId ELSE 0, sz |-> l.sz, al |-> l.al, zeroed |-> zeroed, fail |-> fail, fam |-> fam, n |-> n],
                  Exp(IF r.ok THEN "ok" ELSE "err", r.addr, [newchunk |-> Len(r.chunks) > Len(chunks)]))

Alloc(l, zeroed, fail) == AllocG(l, zeroed, fail, "", 0)

\* value-level entry points that perform exactly one allocation of a statically known layout
ValueLayout(fam, n) ==
    CASE fam \in {"u64", "with_u64", "uninit_u64"}   -> [sz |-> 8, al |-> 8]
      [] fam = "default_u32"                          -> [sz |-> 4, al |-> 4]
      [] fam \in {"copy_u8", "fill_with_u8", "str"}   -> [sz |-> n, al |-> 1]
      [] fam \in {"cstr_from_str", "cstr"}            -> [sz |-> n + 1, al |-> 1]
      [] fam \in {"clone_u16", "uninit_for_u16"}      -> [sz |-> 2 * n, al |-> 2]
      [] fam \in {"move_u32", "uninit_slice_u32"}     -> [sz |-> 4 * n, al |-> 4]
      [] fam \in {"fill_u64", "iter_exact_u64"}       -> [sz |-> 8 * n, al |-> 8]
ValueFams == {"u64", "with_u64", "uninit_u64", "default_u32", "copy_u8", "fill_with_u8", "str", "cstr_from_str", "cstr", "clone_u16", "uninit_for_u16",
              "move_u32", "uninit_slice_u32", "fill_u64", "iter_exact_u64"}
AllocValue(fam, n, fail) == n >= 1 /\ AllocG(ValueLayout(fam, n), FALSE, fail, fam, n)

\* ---- alloc_try_with / alloc_try_with_mut ---------------------------------------------------------------------
\* Result<T, E> is allocated (prepared, for _mut) first, the closure writes into it; Ok: the allocation is shrunk to the
\* T inside; Err: the arena is rewound to the checkpoint taken before -- unless the closure allocated on its own.
\* tw = [rsz, ral : layout of Result<T, E>; off : offset of the Ok payload; tsz, tal : layout of T]
TwFams == { [name |-> "u64_u64",   rsz |-> 16, ral |-> 8,  off |-> 8,  tsz |-> 8,  tal |-> 8],
            [name |-> "b24_u8",    rsz |-> 25, ral |-> 1,  off |-> 1,  tsz |-> 24, tal |-> 1],
            [name |-> "a32_u8",    rsz |-> 64, ral |-> 32, off |-> 32, tsz |-> 32, tal |-> 32] }

\* pan: the closure panics (unwinds): the slot allocated by alloc_try_with stays behind; alloc_try_with_mut only prepared it
AllocTryWithP(tw, isOk, isMut, inner, fail, pan) ==
    /\ Active /\ Free /\ Cardinality(LiveIds) + 1 < MaxBlocks
    /\ pan => (~inner /\ ~fail)
    /\ isMut => (~inner /\ NoVecsHere)                      \* with &mut access the closure cannot reach the allocator
    /\ fail => (CanFail /\ NeedsBase(chunks, cur, tw.rsz, tw.ral, ma))
    /\ LET cp == Checkpoint
           \* non-mut: a real allocation; mut: a prepared one (same address computation, the position does not move yet)
           r  == DoAlloc(chunks, cur, base, tw.rsz, tw.ral, ma, fail)
           chsP == IF isMut /\ r.ok THEN [r.chunks EXCEPT ![r.cur].pos = IF r.cur = cur THEN chunks[cur].pos ELSE ResetPos(r.chunks[r.cur])]
                   ELSE r.chunks
           \* the closure's own allocation (8 bytes, align 8), through the same handle
           ri == IF inner /\ r.ok THEN DoAlloc(chsP, r.cur, r.base, 8, 8, ma, FALSE) ELSE [ok |-> FALSE, chunks |-> chsP, cur |-> r.cur, base |-> r.base, addr |-> 0]
           canShrink == ~(inner /\ r.ok /\ ri.ok)
           chsI == IF inner /\ r.ok /\ ri.ok THEN ri.chunks ELSE chsP
           curI == IF inner /\ r.ok /\ ri.ok THEN ri.cur ELSE r.cur
           baseI == IF inner /\ r.ok /\ ri.ok THEN ri.base ELSE r.base
           taddr == r.addr + tw.off
           npos == IF cfg.up THEN UpAlign(taddr + tw.tsz, ma) ELSE DownAlign(taddr, ma)
           fin == IF ~r.ok THEN [chunks |-> r.chunks, cur |-> r.cur]
                  ELSE IF pan THEN [chunks |-> chsI, cur |-> curI]
                  ELSE IF isOk THEN (IF canShrink THEN [chunks |-> [chsI EXCEPT ![curI].pos = npos], cur |-> curI] ELSE [chunks |-> chsI, cur |-> curI])
                  ELSE (IF canShrink THEN ResetToCp(chsI, cp) ELSE [chunks |-> chsI, cur |-> curI])
           tid == nextId
           iid == IF r.ok /\ isOk /\ ~pan THEN nextId + 1 ELSE nextId
           newblocks == (IF r.ok /\ isOk /\ ~pan THEN {tid} ELSE {}) \cup (IF inner /\ r.ok /\ ri.ok THEN {iid} ELSE {})
       IN /\ ~(inner /\ r.ok /\ ~ri.ok)
          /\ chunks' = fin.chunks /\ cur' = fin.cur /\ base' = baseI
          /\ blocks' = [i \in LiveIds \cup newblocks |->
                          IF i \in LiveIds THEN blocks[i]
                          ELSE IF i = tid /\ r.ok /\ isOk /\ ~pan THEN [addr |-> taddr, sz |-> tw.tsz, al |-> tw.tal]
                          ELSE [addr |-> ri.addr, sz |-> 8, al |-> 8]]
          /\ nextId' = nextId + Cardinality(newblocks)
          /\ order' = order \o (IF r.ok /\ isOk /\ ~pan THEN <<tid>> ELSE <<>>) \o (IF inner /\ r.ok /\ ri.ok THEN <<iid>> ELSE <<>>)
          /\ parts' = parts
          /\ last' = 0
          /\ fails' = IF fail THEN fails + 1 ELSE fails
          /\ UNCHANGED <<cfg, ma, frames, cps, dropped>>
          /\ Step("try_with", [fam |-> tw.name, ok |-> isOk, mut |-> isMut, inner |-> inner, fail |-> fail, pan |-> pan,
                               tid |-> IF r.ok /\ isOk /\ ~pan THEN tid ELSE 0, iid |-> IF inner /\ r.ok /\ ri.ok THEN iid ELSE 0,
                               tsz |-> tw.tsz, tal |-> tw.tal],
                  Exp(IF ~r.ok THEN "err" ELSE IF pan THEN "panic" ELSE IF isOk THEN "ok" ELSE "errval", IF r.ok /\ isOk /\ ~pan THEN taddr ELSE 0,
                      [rewinds |-> r.ok /\ ~isOk /\ ~pan /\ canShrink, iaddr |-> IF inner /\ r.ok /\ ri.ok THEN ri.addr ELSE 0,
                       newchunk |-> Len(fin.chunks) > Len(chunks)]))

AllocTryWith(tw, isOk, isMut, inner, fail) == AllocTryWithP(tw, isOk, isMut, inner, fail, FALSE)

\* ---- deallocate ---------------------------------------------------------------------------------
Dealloc(id, wrap) ==
    /\ Active /\ Free /\ PlainBlock(id)
    /\ LET b == blocks[id]
           reclaims == ~WD(wrap) /\ cfg.dealloc /\ IsLast(chunks, cur, b.addr, b.sz)
       IN \* C13 (design level): the most recent allocation of a size that is a multiple of the minimum alignment is reclaimed;
          \* a block that is not the most recent live allocation is never reclaimed
          \* (a block returned by an allocation call starts at a multiple of the minimum alignment in force; the T inside the Result
          \*  of alloc_try_with, split-off parts and blocks allocated under a lower minimum alignment need not)
          /\ Assert((last = id /\ b.sz % ma = 0 /\ b.addr % ma = 0 /\ cfg.dealloc /\ ~WD(wrap)) => reclaims, "C13: most recent allocation not reclaimed")
          /\ Assert(reclaims /\ b.sz > 0 => Top(order) = id, "C13: a block that is not the most recent live allocation was reclaimed")
          /\ chunks' = DoDealloc(chunks, cur, b.addr, b.sz, ma, WD(wrap))
          /\ blocks' = Restrict(blocks, LiveIds \ {id})
          /\ last' = 0
          /\ order' = Without(order, id)
          /\ parts' = parts \cap DOMAIN blocks'
          /\ UNCHANGED <<cfg, base, cur, ma, frames, cps, nextId, fails, dropped>>
          /\ Step("dealloc", [id |-> id, wrap |-> wrap, sz |-> b.sz, al |-> b.al],
                  Exp("ok", 0, [waslast |-> last = id, wastop |-> Top(order) = id, reclaim |-> reclaims, optout |-> WD(wrap) \/ ~cfg.dealloc]))

\* ---- grow / grow_zeroed -------------------------------------------------------------------------
Grow(id, l, zeroed, wrap, fail) ==
    /\ Active /\ Free /\ PlainBlock(id)
    /\ LET b == blocks[id] IN
       /\ l.sz >= b.sz
       /\ fail => (CanFail /\ GrowNeedsBase(chunks, cur, b.addr, b.sz, l.sz, l.al, ma))
       /\ LET r == DoGrow(chunks, cur, base, b.addr, b.sz, l.sz, l.al, ma, fail)
          IN /\ Assert((last = id /\ cfg.up /\ b.sz % ma = 0 /\ b.addr % ma = 0 /\ b.addr % l.al = 0 /\ l.sz <= chunks[cur].hi - b.addr) => (r.ok /\ r.addr = b.addr),
                       "C13: growing the most recent allocation with room did not happen in place")
             /\ chunks' = r.chunks /\ cur' = r.cur /\ base' = r.base
             /\ blocks' = IF r.ok THEN [blocks EXCEPT ![id] = [addr |-> r.addr, sz |-> l.sz, al |-> l.al]] ELSE blocks
             /\ last' = IF r.ok THEN id ELSE 0
             /\ order' = IF r.ok THEN Append(Without(order, id), id) ELSE order
             /\ parts' = parts \cap DOMAIN blocks'
             /\ fails' = IF fail THEN fails + 1 ELSE fails
             /\ frames' = IF r.ok THEN ForgetInFrames(id) ELSE frames
             /\ cps' = IF r.ok THEN StripCps(cps, id) ELSE cps
             /\ UNCHANGED <<cfg, ma, nextId, dropped>>
             /\ Step("grow", [id |-> id, sz |-> l.sz, al |-> l.al, zeroed |-> zeroed, wrap |-> wrap, fail |-> fail,
                              osz |-> b.sz, oal |-> b.al],
                     Exp(IF r.ok THEN "ok" ELSE "err", r.addr,
                         [waslast |-> last = id, wastop |-> Top(order) = id, inplace |-> r.ok /\ r.addr = b.addr, newchunk |-> Len(r.chunks) > Len(chunks)]))

\* ---- shrink -------------------------------------------------------------------------------------
Shrink(id, l, wrap, fail) ==
    /\ Active /\ Free /\ PlainBlock(id)
    /\ LET b == blocks[id] IN
       /\ l.sz <= b.sz
       /\ fail => (CanFail /\ ShrinkNeedsBase(chunks, cur, b.addr, b.sz, l.sz, l.al, ma, WS(wrap)))
       /\ LET r == DoShrink(chunks, cur, base, b.addr, b.sz, l.sz, l.al, ma, WS(wrap), fail)
          IN /\ chunks' = r.chunks /\ cur' = r.cur /\ base' = r.base
             \* the caller owns a block described by the NEW layout afterwards (Allocator::shrink contract:
             \* the returned slice may be longer than requested, but only new_layout.size() bytes are the caller's)
             /\ blocks' = IF r.ok THEN [blocks EXCEPT ![id] = [addr |-> r.addr, sz |-> l.sz, al |-> l.al]] ELSE blocks
             /\ last' = 0
             /\ order' = IF r.ok /\ r.addr # b.addr THEN Append(Without(order, id), id) ELSE order
             /\ parts' = parts \cap DOMAIN blocks'
             /\ fails' = IF fail THEN fails + 1 ELSE fails
             /\ frames' = IF r.ok THEN ForgetInFrames(id) ELSE frames
             /\ cps' = IF r.ok THEN StripCps(cps, id) ELSE cps
             /\ UNCHANGED <<cfg, ma, nextId, dropped>>
             /\ Step("shrink", [id |-> id, sz |-> l.sz, al |-> l.al, wrap |-> wrap, fail |-> fail, osz |-> b.sz, oal |-> b.al],
                     Exp(IF r.ok THEN "ok" ELSE "err", r.addr,
                         [rsz |-> r.rsz, optout |-> WS(wrap) \/ ~cfg.shrinks, wastop |-> Top(order) = id, inplace |-> r.ok /\ r.addr = b.addr,
                          newchunk |-> Len(r.chunks) > Len(chunks)]))

\* ---- reserve ------------------------------------------------------------------------------------
Reserve(n, fail) ==
    /\ Active /\ Free
    /\ fail => (CanFail /\ ReserveNeedsBase(chunks, cur, n))
    /\ LET r == DoReserve(chunks, cur, base, n, fail)
       IN /\ chunks' = r.chunks /\ cur' = r.cur /\ base' = r.base
          /\ fails' = IF fail THEN fails + 1 ELSE fails
          /\ UNCHANGED <<cfg, ma, frames, blocks, cps, nextId, order, parts, last, dropped>>
          /\ Step("reserve", [n |-> n, fail |-> fail],
                  Exp(IF r.ok THEN "ok" ELSE "err", 0, [newchunk |-> Len(r.chunks) > Len(chunks)]))

\* ---- scopes -------------------------------------------------------------------------------------
EnterFrame(kind) ==
    /\ Active /\ Free /\ NoVecsHere /\ Depth < MaxDepth
    /\ kind \in {"scope", "guard"}
    /\ frames' = Append(frames, [kind |-> kind, cp |-> Checkpoint, live |-> LiveIds, ma |-> ma, cps |-> cps, alloc0 |-> StatAllocated(chunks, cur)])
    /\ cps' = <<>>
    /\ last' = 0
    /\ UNCHANGED <<cfg, base, chunks, cur, ma, blocks, nextId, order, parts, fails, dropped>>
    /\ Step("enter", [kind |-> kind], Exp("ok", 0, NoX))

\* exit of a scoped() closure / drop of a scope guard; how \in {"return", "unwind"}
ExitScope(how) ==
    /\ Active /\ Free /\ NoVecsHere /\ Depth > 0
    /\ LET f == frames[Depth] IN
       /\ f.kind \in {"scope", "guard"}
       /\ LET r == ResetToCp(chunks, f.cp)
          IN /\ Assert(StatAllocated(r.chunks, r.cur) = f.alloc0, "C03: leaving the scope does not restore the allocated byte count")
             /\ chunks' = r.chunks /\ cur' = r.cur
             /\ blocks' = Restrict(blocks, f.live)
             /\ order' = SelectIds(order, f.live)
             /\ parts' = parts \cap DOMAIN blocks'
             /\ frames' = SubSeq(frames, 1, Depth - 1)
             /\ cps' = f.cps
             /\ ma' = f.ma
             /\ last' = 0
             /\ UNCHANGED <<cfg, base, nextId, fails, dropped>>
             /\ Step("exit", [kind |-> f.kind, how |-> how],
                     Exp("ok", 0, [entry_cur |-> f.cp.chunk, entry_pos |-> f.cp.pos]))

\* BumpScopeGuard::reset : rewind but keep the frame open
GuardReset ==
    /\ Active /\ Free /\ NoVecsHere /\ Depth > 0
    /\ LET f == frames[Depth] IN
       /\ f.kind = "guard"
       /\ LET r == ResetToCp(chunks, f.cp)
          IN /\ Assert(StatAllocated(r.chunks, r.cur) = f.alloc0, "C03: guard reset does not restore the allocated byte count")
             /\ chunks' = r.chunks /\ cur' = r.cur
             /\ blocks' = Restrict(blocks, f.live)
             /\ order' = SelectIds(order, f.live)
             /\ parts' = parts \cap DOMAIN blocks'
             /\ cps' = <<>>
             /\ last' = 0
             /\ UNCHANGED <<cfg, base, ma, frames, nextId, fails, dropped>>
             /\ Step("guard_reset", [none |-> TRUE], Exp("ok", 0, [entry_cur |-> f.cp.chunk, entry_pos |-> f.cp.pos]))

\* ---- unsafe checkpoint API ----------------------------------------------------------------------
TakeCheckpoint ==
    /\ Active /\ Free /\ Len(cps) < 2
    /\ cps' = Append(cps, [chunk |-> cur, pos |-> IF cur = 0 THEN 0 ELSE chunks[cur].pos, live |-> LiveIds, alloc0 |-> StatAllocated(chunks, cur)])
    /\ UNCHANGED <<cfg, base, chunks, cur, ma, frames, blocks, nextId, order, parts, last, fails, dropped>>
    /\ Step("checkpoint", [k |-> Len(cps) + 1], Exp("ok", 0, NoX))

\* reset_to(checkpoint k of the current frame): later checkpoints die
ResetTo(k) ==
    /\ Active /\ Free /\ k \in 1..Len(cps)
    /\ LET cp == cps[k]
           r  == ResetToCp(chunks, cp)
       IN /\ Assert(StatAllocated(r.chunks, r.cur) = cp.alloc0, "C03: reset_to does not restore the allocated byte count")
          /\ chunks' = r.chunks /\ cur' = r.cur
          /\ blocks' = Restrict(blocks, cp.live)
          /\ order' = SelectIds(order, cp.live)
          /\ parts' = parts \cap DOMAIN blocks'
          /\ cps' = SubSeq(cps, 1, k)
          /\ last' = 0
          /\ UNCHANGED <<cfg, base, ma, frames, nextId, fails, dropped>>
          /\ Step("reset_to", [k |-> k], Exp("ok", 0, [entry_cur |-> cp.chunk, entry_pos |-> cp.pos]))

\* ---- Bump::reset / reset_to_start (need &mut Bump: only outside every frame) ---------------------
Reset ==
    /\ Active /\ Free /\ NoVecsHere /\ Depth = 0
    /\ IF cur = 0 THEN UNCHANGED <<chunks, cur, base>>
       ELSE LET n == Len(chunks)
                lastc == chunks[n]
            IN /\ chunks' = <<[lastc EXCEPT !.pos = ResetPos(lastc)]>>
               /\ cur' = 1
               /\ base' = [base EXCEPT !.grants = [i \in 1..Len(base.grants) |->
                              IF \E j \in 1..(n-1) : chunks[j].g = i THEN [base.grants[i] EXCEPT !.live = FALSE] ELSE base.grants[i]]]
    /\ blocks' = <<>> /\ cps' = <<>> /\ last' = 0 /\ order' = <<>> /\ parts' = {}
    /\ UNCHANGED <<cfg, ma, frames, nextId, fails, dropped>>
    /\ Step("reset", [none |-> TRUE], Exp("ok", 0, [kept |-> IF cur = 0 THEN 0 ELSE chunks[Len(chunks)].start]))

ResetToStart ==
    /\ Active /\ Free /\ NoVecsHere /\ Depth = 0
    /\ IF cur = 0 THEN UNCHANGED <<chunks, cur>>
       ELSE /\ chunks' = [chunks EXCEPT ![1].pos = ResetPos(chunks[1])] /\ cur' = 1
    /\ blocks' = <<>> /\ cps' = <<>> /\ last' = 0 /\ order' = <<>> /\ parts' = {}
    /\ UNCHANGED <<cfg, base, ma, frames, nextId, fails, dropped>>
    /\ Step("reset_to_start", [none |-> TRUE], Exp("ok", 0, NoX))

\* ---- Bump::into_raw / Bump::from_raw (only outside every frame): ownership round trip, nothing changes ------------------
RawRoundtrip ==
    /\ Active /\ Free /\ NoVecsHere /\ Depth = 0
    /\ last' = last
    /\ UNCHANGED <<cfg, base, chunks, cur, ma, frames, blocks, cps, nextId, order, parts, fails, dropped>>
    /\ Step("raw_roundtrip", [none |-> TRUE], Exp("ok", 0, NoX))

\* ---- drop ---------------------------------------------------------------------------------------
DropArena ==
    /\ Active /\ Free /\ NoVecsHere /\ Depth = 0
    /\ dropped' = TRUE
    /\ base' = [base EXCEPT !.grants = [i \in 1..Len(base.grants) |-> [base.grants[i] EXCEPT !.live = FALSE]]]
    /\ blocks' = <<>> /\ cps' = <<>> /\ last' = 0 /\ order' = <<>> /\ parts' = {}
    /\ UNCHANGED <<cfg, chunks, cur, ma, frames, nextId, fails>>
    /\ Step("drop", [none |-> TRUE],
            [res |-> "ok", addr |-> 0, cur |-> 0, pos |-> 0, allocated |-> 0, count |-> 0,
             nchunks |-> 0, live |-> {}, ma |-> ma, x |-> NoX, fails |-> fails, nparts |-> 0, inaligned |-> FALSE, inclaim |-> FALSE, inprep |-> FALSE])

\* ---- exclusive-borrow collections: prepare / fill / commit (MutBumpVec, MutBumpVecRev, *_mut helpers) ------------
\* prepare_allocation_range: the largest sub-range of the free space whose ends are multiples of the element alignment;
\* the position does not move.  Slow path as for allocations (later chunks are reset and become current; a chunk is
\* appended for (cap * esz, eal)).
PFits(c, sz, al) == IF cfg.up THEN B!PrepFits(c.pos, c.hi, sz, al) ELSE B!PrepFits(c.lo, c.pos, sz, al)
PLo(c, al) == IF cfg.up THEN B!PrepLo(c.pos, al) ELSE B!PrepLo(c.lo, al)
PHi(c, al) == IF cfg.up THEN B!PrepHi(c.hi, al) ELSE B!PrepHi(c.pos, al)

RECURSIVE WalkPrep(_, _, _, _)
WalkPrep(chs, i, sz, al) ==
    IF i > Len(chs) THEN [found |-> FALSE, chunks |-> chs, cur |-> Len(chs)]
    ELSE LET c1   == [chs[i] EXCEPT !.pos = ResetPos(chs[i])]
             chs1 == [chs EXCEPT ![i] = c1]
         IN IF PFits(c1, sz, al) THEN [found |-> TRUE, cur |-> i, chunks |-> chs1]
            ELSE WalkPrep(chs1, i + 1, sz, al)

\* returns [ok, chunks, cur, base, lo, hi]
DoPrep(chs, c, b, sz, al, fail) ==
    IF c # 0 /\ PFits(chs[c], sz, al)
    THEN [ok |-> TRUE, chunks |-> chs, cur |-> c, base |-> b, lo |-> PLo(chs[c], al), hi |-> PHi(chs[c], al)]
    ELSE IF c = 0
    THEN LET req == CS!FromCapacity(CC, cfg.mcs, sz, al)
         IN IF req = CS!NoneV \/ ~CS!LayoutOk(CC, req) \/ fail
            THEN [ok |-> FALSE, chunks |-> chs, cur |-> c, base |-> b, lo |-> 0, hi |-> 0]
            ELSE LET mk == MkChunk(b, req)
                 IN [ok |-> TRUE, chunks |-> <<mk.c>>, cur |-> 1, base |-> mk.b, lo |-> PLo(mk.c, al), hi |-> PHi(mk.c, al)]
    ELSE LET w == WalkPrep(chs, c + 1, sz, al)
         IN IF w.found
            THEN [ok |-> TRUE, chunks |-> w.chunks, cur |-> w.cur, base |-> b,
                  lo |-> PLo(w.chunks[w.cur], al), hi |-> PHi(w.chunks[w.cur], al)]
            ELSE LET lastc == w.chunks[Len(w.chunks)]
                     req   == CS!AppendSize(CC, cfg.mcs, lastc.size, sz, al)
                 IN IF req = CS!NoneV \/ ~CS!LayoutOk(CC, req) \/ fail
                    THEN [ok |-> FALSE, chunks |-> w.chunks, cur |-> c, base |-> b, lo |-> 0, hi |-> 0]   \* the current chunk is restored
                    ELSE LET mk == MkChunk(b, req)
                         IN [ok |-> TRUE, chunks |-> Append(w.chunks, mk.c), cur |-> Len(w.chunks) + 1, base |-> mk.b,
                             lo |-> PLo(mk.c, al), hi |-> PHi(mk.c, al)]

PrepNeedsBase(chs, c, sz, al) ==
    ~(c # 0 /\ PFits(chs[c], sz, al)) /\ (c = 0 \/ ~WalkPrep(chs, c + 1, sz, al).found)

HugeSz == 1073741824    \* stands for isize::MAX - 64 in the replayer
MinNonZeroCap(esz) == IF esz = 1 THEN 8 ELSE IF esz <= 1024 THEN 4 ELSE 1

InPrep == Depth > 0 /\ frames[Depth].kind = "prep"

\* a collection is created with capacity `c0` (0 = `new_in`: nothing is prepared until the first push)
\* e = [sz, al] element layout (sz a positive multiple of al); rev = MutBumpVecRev
\* str = MutBumpString (bytes, forward only): the same state machine as MutBumpVec<u8>
\* init: from_elem_in(value, c0) -- created with capacity c0 and filled with c0 elements without a further capacity check
EnterPrepG(e, rev, c0, fail, str, init) ==
    /\ Active /\ Free /\ NoVecsHere /\ Depth < MaxDepth /\ e.sz > 0 /\ e.sz % e.al = 0
    /\ str => (e.sz = 1 /\ ~rev)
    /\ init => (c0 > 0 /\ ~str)
    /\ fail => (CanFail /\ c0 > 0 /\ PrepNeedsBase(chunks, cur, c0 * e.sz, e.al))
    /\ LET r == IF c0 = 0 THEN [ok |-> TRUE, chunks |-> chunks, cur |-> cur, base |-> base, lo |-> 0, hi |-> 0]
                ELSE DoPrep(chunks, cur, base, c0 * e.sz, e.al, fail)
           cap == IF c0 = 0 \/ ~r.ok THEN 0 ELSE (r.hi - r.lo) \div e.sz
       IN /\ chunks' = r.chunks /\ cur' = r.cur /\ base' = r.base
          /\ frames' = Append(frames, [kind |-> "prep", cp |-> Checkpoint, live |-> LiveIds, ma |-> ma, cps |-> cps, alloc0 |-> StatAllocated(chunks, cur),
                                        esz |-> e.sz, eal |-> e.al, eal0 |-> e.al, rev |-> rev, lo |-> r.lo, hi |-> r.hi, cap |-> cap,
                                        len |-> IF init /\ r.ok THEN c0 ELSE 0,
                                        failed |-> ~r.ok])
          /\ cps' = <<>> /\ last' = 0
          /\ fails' = IF fail THEN fails + 1 ELSE fails
          /\ UNCHANGED <<cfg, ma, blocks, nextId, order, parts, dropped>>
          /\ Step("enter", [kind |-> "prep", esz |-> e.sz, eal |-> e.al, rev |-> rev, cap |-> c0, fail |-> fail, str |-> str, init |-> init],
                  Exp(IF r.ok THEN "ok" ELSE "err", 0, [cap |-> cap, lo |-> r.lo, hi |-> r.hi, newchunk |-> Len(r.chunks) > Len(chunks)]))

EnterPrep(e, rev, c0, fail) == EnterPrepG(e, rev, c0, fail, FALSE, FALSE)

\* push one element; grows (re-prepares max(2 cap, len + 1, min_non_zero_cap) elements and copies) when full
PrepPush(fail) ==
    /\ Active /\ InPrep /\ ~frames[Depth].failed
    /\ LET f == frames[Depth]
           grows == f.len = f.cap
           ncap  == Max(Max(2 * f.cap, f.len + 1), MinNonZeroCap(f.esz))
       IN /\ f.len < 12
          /\ fail => (CanFail /\ grows /\ PrepNeedsBase(chunks, cur, ncap * f.esz, f.eal))
          /\ LET r == IF grows THEN DoPrep(chunks, cur, base, ncap * f.esz, f.eal, fail)
                       ELSE [ok |-> TRUE, chunks |-> chunks, cur |-> cur, base |-> base, lo |-> f.lo, hi |-> f.hi]
                 cap2 == IF grows /\ r.ok THEN (r.hi - r.lo) \div f.esz ELSE f.cap
             IN /\ chunks' = r.chunks /\ cur' = r.cur /\ base' = r.base
                /\ frames' = [frames EXCEPT ![Depth] = IF r.ok THEN [f EXCEPT !.lo = r.lo, !.hi = r.hi, !.cap = cap2, !.len = f.len + 1]
                                                         ELSE f]
                /\ fails' = IF fail THEN fails + 1 ELSE fails
                /\ UNCHANGED <<cfg, ma, blocks, cps, nextId, order, parts, last, dropped>>
                /\ Step("prep_push", [fail |-> fail, grows |-> grows, ncap |-> ncap],
                        Exp(IF r.ok THEN "ok" ELSE "err", 0,
                            [cap |-> cap2, lo |-> r.lo, hi |-> r.hi, len |-> IF r.ok THEN f.len + 1 ELSE f.len,
                             newchunk |-> Len(r.chunks) > Len(chunks)]))

\* try_reserve(additional): grows (amortised: max(2 cap, len + additional, min_non_zero_cap)) when the spare capacity is
\* smaller than `additional`
PrepReserve(additional, fail) ==
    /\ Active /\ InPrep /\ ~frames[Depth].failed /\ additional > 0
    /\ LET f == frames[Depth]
           grows == f.cap - f.len < additional
           ncap  == Max(Max(2 * f.cap, f.len + additional), MinNonZeroCap(f.esz))
       IN /\ fail => (CanFail /\ grows /\ PrepNeedsBase(chunks, cur, ncap * f.esz, f.eal))
          /\ LET r == IF grows THEN DoPrep(chunks, cur, base, ncap * f.esz, f.eal, fail)
                       ELSE [ok |-> TRUE, chunks |-> chunks, cur |-> cur, base |-> base, lo |-> f.lo, hi |-> f.hi]
                 cap2 == IF grows /\ r.ok THEN (r.hi - r.lo) \div f.esz ELSE f.cap
             IN /\ chunks' = r.chunks /\ cur' = r.cur /\ base' = r.base
                /\ frames' = [frames EXCEPT ![Depth] = IF r.ok THEN [f EXCEPT !.lo = r.lo, !.hi = r.hi, !.cap = cap2] ELSE f]
                /\ fails' = IF fail THEN fails + 1 ELSE fails
                /\ UNCHANGED <<cfg, ma, blocks, cps, nextId, order, parts, last, dropped>>
                /\ Step("prep_reserve", [n |-> additional, fail |-> fail, grows |-> grows, ncap |-> ncap],
                        Exp(IF r.ok THEN "ok" ELSE "err", 0,
                            [cap |-> cap2, lo |-> r.lo, hi |-> r.hi, len |-> f.len, newchunk |-> Len(r.chunks) > Len(chunks)]))

\* reserve of a number of elements whose chunk size computation overflows (the layout itself is valid): the slow path
\* walks the later chunks and then reports a capacity overflow -- an error of try_reserve, an unwinding panic of reserve.
\* Either way the collection and the current chunk are as before (the later chunks have been reset).
PrepReserveHuge ==
    /\ Active /\ InPrep /\ ~frames[Depth].failed
    /\ LET f == frames[Depth]
           r == DoPrep(chunks, cur, base, HugeSz, f.eal, TRUE)
       IN /\ ~r.ok
          /\ chunks' = r.chunks /\ cur' = r.cur
          /\ UNCHANGED <<cfg, base, ma, frames, blocks, cps, nextId, order, parts, last, fails, dropped>>
          /\ Step("prep_reserve", [n |-> 0, fail |-> FALSE, grows |-> TRUE, ncap |-> 0, huge |-> TRUE],
                  Exp("err", 0, [cap |-> f.cap, lo |-> f.lo, hi |-> f.hi, len |-> f.len, newchunk |-> FALSE]))

\* extend_from_slice_copy / push_str of k elements: reserve(k) (amortised), then the elements are copied without a further
\* capacity check
PrepExtend(k, fail) ==
    /\ Active /\ InPrep /\ ~frames[Depth].failed /\ k > 0
    /\ LET f == frames[Depth]
           grows == f.cap - f.len < k
           ncap  == Max(Max(2 * f.cap, f.len + k), MinNonZeroCap(f.esz))
       IN /\ f.len + k <= 600
          /\ fail => (CanFail /\ grows /\ PrepNeedsBase(chunks, cur, ncap * f.esz, f.eal))
          /\ LET r == IF grows THEN DoPrep(chunks, cur, base, ncap * f.esz, f.eal, fail)
                       ELSE [ok |-> TRUE, chunks |-> chunks, cur |-> cur, base |-> base, lo |-> f.lo, hi |-> f.hi]
                 cap2 == IF grows /\ r.ok THEN (r.hi - r.lo) \div f.esz ELSE f.cap
             IN /\ chunks' = r.chunks /\ cur' = r.cur /\ base' = r.base
                /\ frames' = [frames EXCEPT ![Depth] = IF r.ok THEN [f EXCEPT !.lo = r.lo, !.hi = r.hi, !.cap = cap2, !.len = f.len + k] ELSE f]
                /\ fails' = IF fail THEN fails + 1 ELSE fails
                /\ UNCHANGED <<cfg, ma, blocks, cps, nextId, order, parts, last, dropped>>
                /\ Step("prep_extend", [k |-> k, fail |-> fail, grows |-> grows, ncap |-> ncap],
                        Exp(IF r.ok THEN "ok" ELSE "err", 0,
                            [cap |-> cap2, lo |-> r.lo, hi |-> r.hi, len |-> IF r.ok THEN f.len + k ELSE f.len,
                             newchunk |-> Len(r.chunks) > Len(chunks)]))

\* map_in_place to a smaller element type (u64 -> u32, [u8; 3] -> u8): the elements are rewritten in place from the start of the
\* buffer, the capacity is rescaled to the same bytes (capacity * size_of::<T>() / size_of::<U>()); nothing else moves
PrepMap ==
    /\ Active /\ InPrep /\ ~frames[Depth].failed /\ ~frames[Depth].rev /\ frames[Depth].esz \in {8, 3}
    /\ LET f == frames[Depth]
           nsz == IF f.esz = 8 THEN 4 ELSE 1
           nal == IF f.esz = 8 THEN 4 ELSE 1
           ncap == (f.cap * f.esz) \div nsz
       IN /\ frames' = [frames EXCEPT ![Depth] = [f EXCEPT !.esz = nsz, !.eal = nal, !.cap = ncap]]
          /\ UNCHANGED <<cfg, base, chunks, cur, ma, blocks, cps, nextId, order, parts, last, fails, dropped>>
          /\ Step("prep_map", [esz |-> nsz, eal |-> nal], Exp("ok", 0, [cap |-> ncap, lo |-> f.lo, hi |-> f.hi, len |-> f.len, newchunk |-> FALSE]))

\* into_slice / into_boxed_slice: the elements are moved to the bump side of the prepared range, the position is set
\* just past them (aligned to the minimum alignment only if the element alignment is smaller)
PrepCommit ==
    /\ Active /\ InPrep
    /\ LET f == frames[Depth]
           n == f.len * f.esz
           touched == f.cap > 0
           addr == IF ~touched THEN 0 ELSE IF cfg.up THEN f.lo ELSE f.hi - n
           npos == IF cfg.up THEN (IF f.eal < ma THEN UpAlign(f.lo + n, ma) ELSE f.lo + n)
                             ELSE (IF f.eal < ma THEN DownAlign(f.hi - n, ma) ELSE f.hi - n)
       IN /\ chunks' = IF touched THEN [chunks EXCEPT ![cur].pos = npos] ELSE chunks
          /\ blocks' = IF touched /\ n > 0
                       THEN [i \in LiveIds \cup {nextId} |-> IF i = nextId THEN [addr |-> addr, sz |-> n, al |-> f.eal] ELSE blocks[i]]
                       ELSE blocks
          /\ nextId' = IF touched /\ n > 0 THEN nextId + 1 ELSE nextId
          /\ order' = IF touched /\ n > 0 THEN Append(order, nextId) ELSE order
          /\ parts' = parts \cap DOMAIN blocks'
          /\ last' = 0
          /\ frames' = SubSeq(frames, 1, Depth - 1)
          /\ cps' = f.cps
          /\ UNCHANGED <<cfg, base, cur, ma, fails, dropped>>
          /\ Step("prep_commit", [id |-> IF touched /\ n > 0 THEN nextId ELSE 0],
                  Exp("ok", addr, [len |-> f.len, esz |-> f.esz, eal |-> f.eal, eal0 |-> f.eal0, rev |-> f.rev, touched |-> touched]))

\* ---- one-shot helpers: alloc_iter_mut / alloc_iter_mut_rev ----------------------------------------------------------
\* = MutBumpVec(Rev)::with_capacity_in(size_hint.0) ; push every element ; into_boxed_slice -- in one call.
\* `hint` is what the iterator claims (it may lie), `n` what it yields.
RECURSIVE PushN(_, _, _, _)
PushN(st, k, esz, eal) ==
    IF k = 0 \/ ~st.ok THEN st
    ELSE IF st.len < st.cap THEN PushN([st EXCEPT !.len = @ + 1], k - 1, esz, eal)
    ELSE LET ncap == Max(Max(2 * st.cap, st.len + 1), MinNonZeroCap(esz))
             r == DoPrep(st.chunks, st.cur, st.base, ncap * esz, eal, FALSE)
         IN IF ~r.ok THEN [st EXCEPT !.ok = FALSE]
            ELSE PushN([st EXCEPT !.chunks = r.chunks, !.cur = r.cur, !.base = r.base, !.lo = r.lo, !.hi = r.hi,
                                  !.cap = (r.hi - r.lo) \div esz, !.len = @ + 1], k - 1, esz, eal)

IterMut(e, rev, hint, n) ==
    /\ Active /\ Free /\ NoVecsHere /\ Cardinality(LiveIds) < MaxBlocks /\ e.sz > 0 /\ e.sz % e.al = 0
    /\ LET r0 == IF hint = 0 THEN [ok |-> TRUE, chunks |-> chunks, cur |-> cur, base |-> base, lo |-> 0, hi |-> 0]
                 ELSE DoPrep(chunks, cur, base, hint * e.sz, e.al, FALSE)
           st0 == [ok |-> r0.ok, chunks |-> r0.chunks, cur |-> r0.cur, base |-> r0.base, lo |-> r0.lo, hi |-> r0.hi,
                   cap |-> IF hint = 0 \/ ~r0.ok THEN 0 ELSE (r0.hi - r0.lo) \div e.sz, len |-> 0]
           st  == PushN(st0, n, e.sz, e.al)
           bytes == st.len * e.sz
           touched == st.cap > 0
           addr == IF ~touched THEN 0 ELSE IF cfg.up THEN st.lo ELSE st.hi - bytes
           npos == IF cfg.up THEN (IF e.al < ma THEN UpAlign(st.lo + bytes, ma) ELSE st.lo + bytes)
                             ELSE (IF e.al < ma THEN DownAlign(st.hi - bytes, ma) ELSE st.hi - bytes)
           made == st.ok /\ touched /\ bytes > 0
       IN /\ st.ok                                   \* (no failure injection inside the helper)
          /\ ~PrepNeedsBase(chunks, cur, Max(hint, 1) * e.sz, e.al) \/ TRUE
          /\ chunks' = IF touched THEN [st.chunks EXCEPT ![st.cur].pos = npos] ELSE st.chunks
          /\ cur' = st.cur /\ base' = st.base
          /\ blocks' = IF made THEN [i \in LiveIds \cup {nextId} |-> IF i = nextId THEN [addr |-> addr, sz |-> bytes, al |-> e.al] ELSE blocks[i]]
                       ELSE blocks
          /\ nextId' = IF made THEN nextId + 1 ELSE nextId
          /\ order' = IF made THEN Append(order, nextId) ELSE order
          /\ parts' = parts \cap DOMAIN blocks'
          /\ last' = 0
          /\ UNCHANGED <<cfg, ma, frames, cps, fails, dropped>>
          /\ Step("iter_mut", [esz |-> e.sz, eal |-> e.al, rev |-> rev, hint |-> hint, n |-> n, id |-> IF made THEN nextId ELSE 0],
                  Exp("ok", addr, [len |-> st.len, esz |-> e.sz, eal |-> e.al, rev |-> rev, touched |-> touched,
                                   newchunk |-> Len(st.chunks) > Len(chunks)]))

\* ---- one-shot helpers: alloc_fmt_mut / alloc_cstr_fmt_mut -----------------------------------------------------------
\* = MutBumpString::new_in ; one push_str per written piece (reserve(len of the piece), amortised, then copy) ;
\*   [cstr: push of the terminating NUL] ; into_boxed_str -- in one call.  pieces = lengths of the written pieces.
RECURSIVE ExtendN(_, _, _)
ExtendN(st, pieces, k) ==
    IF k > Len(pieces) \/ ~st.ok THEN st
    ELSE LET L == pieces[k] IN
         IF st.cap - st.len >= L THEN ExtendN([st EXCEPT !.len = @ + L], pieces, k + 1)
         ELSE LET ncap == Max(Max(2 * st.cap, st.len + L), MinNonZeroCap(1))
                  r == DoPrep(st.chunks, st.cur, st.base, ncap, 1, FALSE)
              IN IF ~r.ok THEN [st EXCEPT !.ok = FALSE]
                 ELSE ExtendN([st EXCEPT !.chunks = r.chunks, !.cur = r.cur, !.base = r.base, !.lo = r.lo, !.hi = r.hi,
                                         !.cap = r.hi - r.lo, !.len = @ + L], pieces, k + 1)

FmtMut(pieces, cstr) ==
    /\ Active /\ Free /\ NoVecsHere /\ Cardinality(LiveIds) < MaxBlocks /\ Len(pieces) >= 2
    /\ LET st0 == [ok |-> TRUE, chunks |-> chunks, cur |-> cur, base |-> base, lo |-> 0, hi |-> 0, cap |-> 0, len |-> 0]
           st  == ExtendN(st0, IF cstr THEN Append(pieces, 1) ELSE pieces, 1)
           bytes == st.len
           touched == st.cap > 0
           addr == IF ~touched THEN 0 ELSE IF cfg.up THEN st.lo ELSE st.hi - bytes
           npos == IF cfg.up THEN UpAlign(st.lo + bytes, ma) ELSE DownAlign(st.hi - bytes, ma)
           made == st.ok /\ touched /\ bytes > 0
       IN /\ st.ok
          /\ chunks' = IF touched THEN [st.chunks EXCEPT ![st.cur].pos = npos] ELSE st.chunks
          /\ cur' = st.cur /\ base' = st.base
          /\ blocks' = IF made THEN [i \in LiveIds \cup {nextId} |-> IF i = nextId THEN [addr |-> addr, sz |-> bytes, al |-> 1] ELSE blocks[i]]
                       ELSE blocks
          /\ nextId' = IF made THEN nextId + 1 ELSE nextId
          /\ order' = IF made THEN Append(order, nextId) ELSE order
          /\ parts' = parts \cap DOMAIN blocks'
          /\ last' = 0
          /\ UNCHANGED <<cfg, ma, frames, cps, fails, dropped>>
          /\ Step("fmt_mut", [pieces |-> pieces, cstr |-> cstr, id |-> IF made THEN nextId ELSE 0],
                  Exp("ok", addr, [len |-> bytes, newchunk |-> Len(st.chunks) > Len(chunks)]))

\* the collection is dropped (or unwound) without being finalised: nothing changes
PrepDrop(how) ==
    /\ Active /\ InPrep
    /\ frames' = SubSeq(frames, 1, Depth - 1)
    /\ cps' = frames[Depth].cps
    /\ last' = 0
    /\ UNCHANGED <<cfg, base, chunks, cur, ma, blocks, nextId, order, parts, fails, dropped>>
    /\ Step("prep_drop", [how |-> how], Exp("ok", 0, NoX))

\* ---- growable vectors: BumpVec<T, A> as a client of the allocator interface ------------------------------------
\* A = a shared reference to the handle, optionally inside WithoutDealloc / WithoutShrink (`wrap`).  The vector calls
\* allocate_slice (creation with capacity, first growth), Allocator::grow (amortised growth: max(2 cap, len + additional,
\* min_non_zero_cap), or exact), shrink_slice (shrink_to_fit, into_boxed_slice) and deallocate (drop).
\* Several vectors and plain allocations interleave freely; a vector that is not the most recent allocation relocates
\* when it grows.
\* fixed = FixedBumpVec: allocated once, never grows (a request beyond the capacity is refused), holds no allocator
VBlock(addr, cap, e, len, wrap, fixed) == [addr |-> addr, sz |-> cap * e.sz, al |-> e.al, esz |-> e.sz, vlen |-> len, wrap |-> wrap, fixed |-> fixed]
VCap(b) == b.sz \div b.esz

VecNewG(e, c0, wrap, fail, fixed) ==
    /\ Active /\ Free /\ Cardinality(LiveIds) < MaxBlocks /\ e.sz > 0 /\ e.sz % e.al = 0
    /\ fixed => (c0 >= 1 /\ wrap = "none")
    /\ fail => (CanFail /\ c0 > 0 /\ NeedsBase(chunks, cur, c0 * e.sz, e.al, ma))
    /\ LET r == IF c0 = 0 THEN [ok |-> TRUE, chunks |-> chunks, cur |-> cur, base |-> base, addr |-> 0]
                ELSE DoAlloc(chunks, cur, base, c0 * e.sz, e.al, ma, fail)
       IN /\ chunks' = r.chunks /\ cur' = r.cur /\ base' = r.base
          /\ blocks' = IF r.ok THEN [i \in LiveIds \cup {nextId} |-> IF i = nextId THEN VBlock(r.addr, c0, e, 0, wrap, fixed) ELSE blocks[i]]
                       ELSE blocks
          /\ nextId' = IF r.ok THEN nextId + 1 ELSE nextId
          /\ last' = IF c0 = 0 THEN last ELSE IF r.ok THEN nextId ELSE 0
          /\ order' = IF r.ok THEN Append(order, nextId) ELSE order
          /\ parts' = parts
          /\ fails' = IF fail THEN fails + 1 ELSE fails
          /\ UNCHANGED <<cfg, ma, frames, cps, dropped>>
          /\ Step("vec_new", [id |-> IF r.ok THEN nextId ELSE 0, esz |-> e.sz, eal |-> e.al, cap |-> c0, wrap |-> wrap, fail |-> fail, fixed |-> fixed],
                  Exp(IF r.ok THEN "ok" ELSE "err", r.addr, [newchunk |-> Len(r.chunks) > Len(chunks), len |-> 0, cap |-> c0]))

VecNew(e, c0, wrap, fail) == VecNewG(e, c0, wrap, fail, FALSE)

\* how: "push" (k = 1), "extend_copy", "extend_clone", "within_copy", "within_clone" (the first k elements are appended
\* again), "resize", "reserve" (length unchanged), "reserve_exact" (length unchanged, exact growth)
VecHows == {"push", "extend_copy", "extend_clone", "within_copy", "within_clone", "resize", "reserve", "reserve_exact"}
VecExtend(id, k, how, fail) ==
    /\ Active /\ Free /\ OwnVec(id) /\ k >= 1 /\ how \in VecHows
    /\ how = "push" => k = 1
    /\ LET b == blocks[id]
           cap == VCap(b)
           grows == k > cap - b.vlen
           ncap == IF how = "reserve_exact" THEN b.vlen + k ELSE Max(Max(2 * cap, b.vlen + k), MinNonZeroCap(b.esz))
           keepsLen == how \in {"reserve", "reserve_exact"}
       IN /\ how \in {"within_copy", "within_clone"} => b.vlen >= k
          /\ b.vlen + k <= 40
          /\ fail => /\ CanFail /\ grows
                     /\ IF b.sz = 0 THEN NeedsBase(chunks, cur, ncap * b.esz, b.al, ma)
                                    ELSE GrowNeedsBase(chunks, cur, b.addr, b.sz, ncap * b.esz, b.al, ma)
          /\ b.fixed => (~fail /\ how # "reserve_exact")
          /\ LET r == IF ~grows THEN [ok |-> TRUE, chunks |-> chunks, cur |-> cur, base |-> base, addr |-> b.addr]
                      ELSE IF b.fixed THEN [ok |-> FALSE, chunks |-> chunks, cur |-> cur, base |-> base, addr |-> b.addr]   \* full
                      ELSE IF b.sz = 0 THEN DoAlloc(chunks, cur, base, ncap * b.esz, b.al, ma, fail)    \* no buffer yet: allocate_slice
                      ELSE DoGrow(chunks, cur, base, b.addr, b.sz, ncap * b.esz, b.al, ma, fail)
                 nlen == IF r.ok /\ ~keepsLen THEN b.vlen + k ELSE b.vlen
             IN /\ Assert((grows /\ ~b.fixed /\ b.sz > 0 /\ last = id /\ cfg.up /\ b.sz % ma = 0 /\ b.addr % ma = 0 /\ ncap * b.esz <= chunks[cur].hi - b.addr)
                              => (r.ok /\ r.addr = b.addr),
                          "C13: a vector that is the most recent allocation did not grow in place")
                /\ chunks' = r.chunks /\ cur' = r.cur /\ base' = r.base
                /\ blocks' = IF r.ok THEN [blocks EXCEPT ![id] = [b EXCEPT !.addr = r.addr, !.sz = IF grows THEN ncap * b.esz ELSE b.sz, !.vlen = nlen]]
                             ELSE blocks
                /\ last' = IF ~grows \/ b.fixed THEN last ELSE IF r.ok THEN id ELSE 0
                /\ order' = IF grows /\ r.ok THEN Append(Without(order, id), id) ELSE order
                /\ parts' = parts
                /\ fails' = IF fail THEN fails + 1 ELSE fails
                /\ frames' = IF grows /\ r.ok THEN ForgetInFrames(id) ELSE frames
                /\ cps' = IF grows /\ r.ok THEN StripCps(cps, id) ELSE cps
                /\ UNCHANGED <<cfg, ma, nextId, dropped>>
                /\ Step("vec_extend", [id |-> id, k |-> k, how |-> how, fail |-> fail, grows |-> grows, ncap |-> ncap,
                                       osz |-> b.sz, esz |-> b.esz, eal |-> b.al, wrap |-> b.wrap, fixed |-> b.fixed],
                        Exp(IF r.ok THEN "ok" ELSE "err", IF r.ok THEN r.addr ELSE b.addr,
                            [waslast |-> last = id, wastop |-> Top(order) = id, inplace |-> grows /\ r.ok /\ r.addr = b.addr,
                             newchunk |-> Len(r.chunks) > Len(chunks), len |-> nlen,
                             cap |-> IF grows /\ r.ok THEN ncap ELSE cap]))

\* a reserve that cannot be served: kind "max" = additional so large that len + additional overflows (refused before anything
\* is touched, fixed and growable vectors alike), kind "layout" = the largest valid array layout (growable vectors: the grow
\* request walks the later chunks and then fails to compute a chunk size: capacity overflow, current chunk restored)
VecReserveHuge(id, kind) ==
    /\ Active /\ Free /\ OwnVec(id) /\ kind \in {"max", "layout"}
    /\ LET b == blocks[id]
           r == IF kind = "max" THEN [ok |-> FALSE, chunks |-> chunks, cur |-> cur]
                ELSE IF b.sz = 0 THEN DoAlloc(chunks, cur, base, HugeSz, b.al, ma, TRUE)
                ELSE DoGrow(chunks, cur, base, b.addr, b.sz, HugeSz, b.al, ma, TRUE)
       IN /\ kind = "layout" => ~b.fixed
          /\ ~r.ok
          /\ chunks' = r.chunks /\ cur' = r.cur
          /\ last' = IF kind = "max" THEN last ELSE 0
          /\ UNCHANGED <<cfg, base, ma, frames, blocks, cps, nextId, order, parts, fails, dropped>>
          /\ Step("vec_extend", [id |-> id, k |-> 0, how |-> "reserve", fail |-> FALSE, grows |-> TRUE, ncap |-> 0, huge |-> kind,
                                 osz |-> b.sz, esz |-> b.esz, eal |-> b.al, wrap |-> b.wrap, fixed |-> b.fixed],
                  Exp("err", b.addr, [waslast |-> last = id, wastop |-> Top(order) = id, inplace |-> FALSE, newchunk |-> FALSE,
                                      len |-> b.vlen, cap |-> VCap(b)]))

\* splice(1..2, an iterator that honestly announces more elements than any vector can hold): the one removed element is
\* replaced, then making room for the rest reports a capacity overflow by an unwinding panic (splice has no try_ twin);
\* the vector keeps its buffer, length and capacity: head, one replacement, tail
VecSpliceHuge(id) ==
    /\ Active /\ Free /\ OwnVec(id)
    /\ LET b == blocks[id] IN
       /\ ~b.fixed /\ b.esz >= 8 /\ b.vlen >= 3
       /\ UNCHANGED <<cfg, base, chunks, cur, ma, frames, blocks, cps, nextId, order, parts, last, fails, dropped>>
       /\ Step("vec_splice_huge", [id |-> id, huge |-> "splice", esz |-> b.esz, eal |-> b.al, wrap |-> b.wrap],
               Exp("panic", b.addr, [len |-> b.vlen, cap |-> VCap(b)]))

\* the shrink of shrink_to_fit / into_boxed_slice: shrink_slice(ptr, cap, len) -- nothing unless the handle shrinks
\* and the buffer is the most recent allocation; WithoutShrink never shrinks
VecShrunk(b) == ~b.fixed /\ ~WS(b.wrap) /\ cfg.shrinks /\ VCap(b) > b.vlen /\ IsLast(chunks, cur, b.addr, b.sz)
VecShrinkRes(b) ==
    IF VecShrunk(b) THEN DoShrink(chunks, cur, base, b.addr, b.sz, b.vlen * b.esz, b.al, ma, FALSE, FALSE)
    ELSE [ok |-> TRUE, chunks |-> chunks, cur |-> cur, base |-> base, addr |-> b.addr, rsz |-> b.sz]

VecShrink(id) ==
    /\ Active /\ Free /\ OwnVec(id) /\ ~blocks[id].fixed
    /\ LET b == blocks[id]
           r == VecShrinkRes(b)
           sh == VecShrunk(b)
       IN /\ VCap(b) > b.vlen
          /\ chunks' = r.chunks /\ cur' = r.cur
          /\ blocks' = [blocks EXCEPT ![id] = [b EXCEPT !.addr = r.addr, !.sz = IF sh THEN b.vlen * b.esz ELSE b.sz]]
          /\ last' = 0
          /\ order' = IF sh /\ r.addr # b.addr THEN Append(Without(order, id), id) ELSE order
          /\ frames' = IF sh THEN ForgetInFrames(id) ELSE frames
          /\ cps' = IF sh THEN StripCps(cps, id) ELSE cps
          /\ UNCHANGED <<cfg, base, ma, nextId, parts, fails, dropped>>
          /\ Step("vec_shrink", [id |-> id, esz |-> b.esz, eal |-> b.al, wrap |-> b.wrap, osz |-> b.sz],
                  Exp("ok", r.addr, [wastop |-> Top(order) = id, shrunk |-> sh, optout |-> WS(b.wrap) \/ ~cfg.shrinks,
                                     len |-> b.vlen, cap |-> IF sh THEN b.vlen ELSE VCap(b)]))

\* truncate / pop / clear: no allocator call
VecTruncate(id, n) ==
    /\ Active /\ Free /\ OwnVec(id) /\ n < blocks[id].vlen
    /\ blocks' = [blocks EXCEPT ![id].vlen = n]
    /\ UNCHANGED <<cfg, base, chunks, cur, ma, frames, cps, nextId, order, parts, last, fails, dropped>>
    /\ Step("vec_truncate", [id |-> id, n |-> n], Exp("ok", blocks[id].addr, [len |-> n, cap |-> VCap(blocks[id])]))

\* drop: deallocate(ptr, cap * size) unless there is no buffer
VecDrop(id) ==
    /\ Active /\ Free /\ OwnVec(id)
    /\ LET b == blocks[id]
           reclaims == b.sz > 0 /\ ~b.fixed /\ ~WD(b.wrap) /\ cfg.dealloc /\ IsLast(chunks, cur, b.addr, b.sz)
       IN /\ Assert((b.sz > 0 /\ ~b.fixed /\ last = id /\ b.sz % ma = 0 /\ b.addr % ma = 0 /\ cfg.dealloc /\ ~WD(b.wrap)) => reclaims,
                    "C13: dropping the vector that is the most recent allocation does not reclaim its buffer")
          /\ Assert(reclaims => Top(order) = id, "C13: dropping a vector that is not the most recent live allocation reclaimed memory")
          /\ chunks' = IF b.sz > 0 /\ ~b.fixed THEN DoDealloc(chunks, cur, b.addr, b.sz, ma, WD(b.wrap)) ELSE chunks
          /\ blocks' = Restrict(blocks, LiveIds \ {id})
          /\ last' = IF b.sz > 0 /\ ~b.fixed THEN 0 ELSE last
          /\ order' = Without(order, id)
          /\ parts' = parts
          /\ UNCHANGED <<cfg, base, cur, ma, frames, cps, nextId, fails, dropped>>
          /\ Step("vec_drop", [id |-> id, wrap |-> b.wrap, sz |-> b.sz, fixed |-> b.fixed],
                  Exp("ok", 0, [waslast |-> last = id, wastop |-> Top(order) = id, reclaim |-> reclaims, optout |-> WD(b.wrap) \/ ~cfg.dealloc \/ b.fixed,
                                hadbuf |-> b.sz > 0]))

\* into_boxed_slice / into_slice: shrink_to_fit, then the first len elements are a plain allocation of the caller
\* (unused capacity that could not be given back stays allocated and unused; an empty vector leaves nothing)
VecInto(id) ==
    /\ Active /\ Free /\ OwnVec(id)
    /\ LET b == blocks[id]
           r == VecShrinkRes(b)
           sh == VecShrunk(b)
           keeps == b.vlen > 0          \* (an empty slice is a dangling pointer: it owns nothing)
       IN /\ chunks' = r.chunks /\ cur' = r.cur
          /\ blocks' = IF keeps THEN [blocks EXCEPT ![id] = [addr |-> r.addr, sz |-> b.vlen * b.esz, al |-> b.al]]
                       ELSE Restrict(blocks, LiveIds \ {id})
          /\ last' = 0
          /\ order' = IF ~keeps THEN Without(order, id) ELSE IF sh /\ r.addr # b.addr THEN Append(Without(order, id), id) ELSE order
          /\ frames' = IF sh THEN ForgetInFrames(id) ELSE frames
          /\ cps' = IF sh THEN StripCps(cps, id) ELSE cps
          /\ UNCHANGED <<cfg, base, ma, nextId, parts, fails, dropped>>
          /\ Step("vec_into", [id |-> id, esz |-> b.esz, eal |-> b.al, wrap |-> b.wrap, osz |-> b.sz, bid |-> IF keeps THEN id ELSE 0],
                  Exp("ok", IF keeps THEN r.addr ELSE 0,
                      [wastop |-> Top(order) = id, shrunk |-> sh, optout |-> WS(b.wrap) \/ ~cfg.shrinks \/ b.fixed, len |-> b.vlen, cap |-> 0]))

\* ---- one-shot helpers built on growable collections: alloc_iter, alloc_fmt, alloc_cstr_fmt -----------------------------
\* alloc_iter      = BumpVec::with_capacity_in(size_hint.0) ; push every element (amortised growth) ; into_boxed_slice
\* alloc_fmt       = BumpString::new_in ; one push_str per written piece (reserve, amortised) ; into_boxed_str
\* alloc_cstr_fmt  = the same, then push of the terminating NUL
\* st = [ok, chunks, cur, base, addr, cap, len] : the collection's buffer while the helper runs
VGrowTo(st, ncap, esz, eal) ==
    LET r == IF st.cap = 0 THEN DoAlloc(st.chunks, st.cur, st.base, ncap * esz, eal, ma, FALSE)
             ELSE DoGrow(st.chunks, st.cur, st.base, st.addr, st.cap * esz, ncap * esz, eal, ma, FALSE)
    IN IF ~r.ok THEN [st EXCEPT !.ok = FALSE]
       ELSE [st EXCEPT !.chunks = r.chunks, !.cur = r.cur, !.base = r.base, !.addr = r.addr, !.cap = ncap]

RECURSIVE VPushN(_, _, _, _)
VPushN(st, k, esz, eal) ==
    IF k = 0 \/ ~st.ok THEN st
    ELSE LET st1 == IF st.len < st.cap THEN st
                    ELSE VGrowTo(st, Max(Max(2 * st.cap, st.len + 1), MinNonZeroCap(esz)), esz, eal)
         IN IF ~st1.ok THEN st1 ELSE VPushN([st1 EXCEPT !.len = @ + 1], k - 1, esz, eal)

RECURSIVE VExtendN(_, _, _)
VExtendN(st, pieces, k) ==
    IF k > Len(pieces) \/ ~st.ok THEN st
    ELSE LET L == pieces[k]
             st1 == IF st.cap - st.len >= L THEN st
                    ELSE VGrowTo(st, Max(Max(2 * st.cap, st.len + L), MinNonZeroCap(1)), 1, 1)
         IN IF ~st1.ok THEN st1 ELSE VExtendN([st1 EXCEPT !.len = @ + L], pieces, k + 1)

\* shrink_to_fit at the end of the helper
VFinish(st, esz, eal) ==
    IF st.ok /\ st.cap > st.len /\ cfg.shrinks /\ IsLast(st.chunks, st.cur, st.addr, st.cap * esz)
    THEN LET r == DoShrink(st.chunks, st.cur, st.base, st.addr, st.cap * esz, st.len * esz, eal, ma, FALSE, FALSE)
         IN [st EXCEPT !.chunks = r.chunks, !.cur = r.cur, !.addr = r.addr, !.cap = st.len]
    ELSE st

GrowHelper(name, args, st, esz, eal) ==
    LET bytes == st.len * esz
        made  == st.ok /\ bytes > 0
    IN /\ st.ok                                   \* (no failure injection inside the helpers)
       /\ chunks' = st.chunks /\ cur' = st.cur /\ base' = st.base
       /\ blocks' = IF made THEN [i \in LiveIds \cup {nextId} |-> IF i = nextId THEN [addr |-> st.addr, sz |-> bytes, al |-> eal] ELSE blocks[i]]
                    ELSE blocks
       /\ nextId' = IF made THEN nextId + 1 ELSE nextId
       /\ order' = IF made THEN Append(order, nextId) ELSE order
       /\ parts' = parts
       /\ last' = 0
       /\ UNCHANGED <<cfg, ma, frames, cps, fails, dropped>>
       /\ Step(name, [a \in DOMAIN args \cup {"id"} |-> IF a = "id" THEN (IF made THEN nextId ELSE 0) ELSE args[a]],
               Exp("ok", IF made THEN st.addr ELSE 0, [len |-> bytes, newchunk |-> Len(st.chunks) > Len(chunks)]))

VSt0 == [ok |-> TRUE, chunks |-> chunks, cur |-> cur, base |-> base, addr |-> 0, cap |-> 0, len |-> 0]

IterGrow(e, hint, n) ==
    /\ Active /\ Free /\ Cardinality(LiveIds) < MaxBlocks /\ e.sz > 0 /\ e.sz % e.al = 0
    /\ LET st0 == IF hint = 0 THEN VSt0 ELSE VGrowTo(VSt0, hint, e.sz, e.al)
           st  == VFinish(VPushN(st0, n, e.sz, e.al), e.sz, e.al)
       IN GrowHelper("iter_grow", [esz |-> e.sz, eal |-> e.al, hint |-> hint, n |-> n], st, e.sz, e.al)

FmtGrow(pieces, cstr) ==
    /\ Active /\ Free /\ Cardinality(LiveIds) < MaxBlocks /\ Len(pieces) >= 2
    /\ LET st1 == VExtendN(VSt0, pieces, 1)
           st2 == IF cstr THEN VPushN(st1, 1, 1, 1) ELSE st1
           st  == VFinish(st2, 1, 1)
       IN GrowHelper("fmt_grow", [pieces |-> pieces, cstr |-> cstr], st, 1, 1)

\* ---- splitting a block (BumpBox<[T]>::split_off, split_at, FixedBumpVec::split_off ...) -----------------------
\* No allocator call: the caller from now on treats the two halves as separate allocations ("memory blocks can be
\* split", BumpAllocatorCore docs); both halves keep the alignment of the element type.
Split(id, at) ==
    /\ Active /\ Free /\ PlainBlock(id) /\ Cardinality(LiveIds) < MaxBlocks
    /\ LET b == blocks[id] IN
       /\ at > 0 /\ at < b.sz /\ at % b.al = 0
       /\ blocks' = [i \in LiveIds \cup {nextId} |->
                        IF i = id THEN [addr |-> b.addr, sz |-> at, al |-> b.al]
                        ELSE IF i = nextId THEN [addr |-> b.addr + at, sz |-> b.sz - at, al |-> b.al] ELSE blocks[i]]
       /\ nextId' = nextId + 1
       \* the second half lies on the far side in upward arenas, on the near side in downward ones
       /\ order' = LET k == CHOOSE k \in 1..Len(order) : order[k] = id
                   IN IF cfg.up THEN SubSeq(order, 1, k) \o <<nextId>> \o SubSeq(order, k + 1, Len(order))
                               ELSE SubSeq(order, 1, k - 1) \o <<nextId, id>> \o SubSeq(order, k + 1, Len(order))
       /\ parts' = (parts \cup {id, nextId})
       /\ last' = 0
       \* a split inside a frame: both halves die with the frame if the whole would
       /\ frames' = [i \in 1..Len(frames) |-> [frames[i] EXCEPT !.live = AddSibling(frames[i].live, id, nextId),
                                                               !.cps = CpsAddSibling(frames[i].cps, id, nextId)]]
       /\ cps' = CpsAddSibling(cps, id, nextId)
       /\ UNCHANGED <<cfg, base, chunks, cur, ma, fails, dropped>>
       /\ Step("split", [id |-> id, at |-> at, nid |-> nextId], Exp("ok", b.addr + at, NoX))

\* ---- composite workloads for C03 ------------------------------------------------------------------------------
\* A workload is a sequence of layouts allocated one after the other (no failures injected).
\* RunAllocs returns the final (chunks, cur, base) and the history entries of the allocations; ids firstId, firstId+1, ...
RECURSIVE RunAllocs(_, _, _, _, _, _, _, _, _)
RunAllocs(chs, c, b, ls, k, firstId, liveset, frs, flag) ==
    IF k > Len(ls) THEN [chunks |-> chs, cur |-> c, base |-> b, steps |-> <<>>, live |-> liveset]
    ELSE LET l == ls[k]
             r == DoAlloc(chs, c, b, l.sz, l.al, ma, FALSE)
             id == firstId + k - 1
             live2 == IF r.ok THEN liveset \cup {id} ELSE liveset
             e == [a |-> "alloc",
                   args |-> [id |-> IF r.ok THEN id ELSE 0, sz |-> l.sz, al |-> l.al, zeroed |-> FALSE, fail |-> FALSE, again |-> flag],
                   exp |-> ExpS(IF r.ok THEN "ok" ELSE "err", r.addr, [newchunk |-> Len(r.chunks) > Len(chs)],
                                r.chunks, r.cur, live2, frs, Cardinality(parts))]
             rest == RunAllocs(r.chunks, r.cur, r.base, ls, k + 1, firstId, live2, frs, flag)
         IN [rest EXCEPT !.steps = <<e>> \o @]

\* scoped(|s| W) twice in a row: the second execution of the same workload must not need new memory from the base
\* allocator (chunks acquired inside the first scope remain available).  2 * (Len(ls) + 2) replayer steps.
ScopeTwice(ls) ==
    /\ Active /\ Free /\ NoVecsHere /\ Depth < MaxDepth /\ Len(ls) > 0
    /\ LET fr   == [kind |-> "scope", cp |-> Checkpoint, live |-> LiveIds, ma |-> ma, cps |-> cps, alloc0 |-> StatAllocated(chunks, cur)]
           frs  == Append(frames, fr)
           n    == Len(ls)
           r1   == RunAllocs(chunks, cur, base, ls, 1, nextId, LiveIds, frs, FALSE)
           x1   == ResetToCp(r1.chunks, fr.cp)
           fr2  == [fr EXCEPT !.cp = [chunk |-> x1.cur, pos |-> IF x1.cur = 0 THEN 0 ELSE x1.chunks[x1.cur].pos]]
           r2   == RunAllocs(x1.chunks, x1.cur, r1.base, ls, 1, nextId + n, LiveIds, frs, TRUE)
           x2   == ResetToCp(r2.chunks, fr2.cp)
           enter(chs, c) == [a |-> "enter", args |-> [kind |-> "scope"], exp |-> ExpS("ok", 0, NoX, chs, c, LiveIds, frs, Cardinality(parts))]
           exit(chs, c, cp) == [a |-> "exit", args |-> [kind |-> "scope", how |-> "return"],
                                exp |-> ExpS("ok", 0, [entry_cur |-> cp.chunk, entry_pos |-> cp.pos], chs, c, LiveIds, frames, Cardinality(parts))]
       IN /\ chunks' = x2.chunks /\ cur' = x2.cur /\ base' = r2.base
          /\ nextId' = nextId + 2 * n
          /\ last' = 0
          /\ UNCHANGED <<cfg, ma, frames, blocks, cps, order, parts, fails, dropped>>
          /\ hist' = IF ~RecordHist THEN hist ELSE hist \o <<enter(chunks, cur)>> \o r1.steps \o <<exit(x1.chunks, x1.cur, fr.cp)>>
                           \o <<enter(x1.chunks, x1.cur)>> \o r2.steps \o <<exit(x2.chunks, x2.cur, fr2.cp)>>
          /\ nops' = nops + 2 * (n + 2)

\* `rounds` times: allocate the workload, then Bump::reset().  After finitely many rounds no chunk is requested any
\* more; the replayer marks the last round `quiet`.
RECURSIVE RunRounds(_, _, _, _, _, _, _)
RunRounds(chs, c, b, ls, k, rounds, firstId) ==
    IF k > rounds THEN [chunks |-> chs, cur |-> c, base |-> b, steps |-> <<>>]
    ELSE LET r  == RunAllocs(chs, c, b, ls, 1, firstId, {}, <<>>, k = rounds)
             n  == Len(r.chunks)
             chs2 == IF r.cur = 0 THEN r.chunks ELSE <<[r.chunks[n] EXCEPT !.pos = ResetPos(r.chunks[n])]>>
             c2 == IF r.cur = 0 THEN 0 ELSE 1
             b2 == IF r.cur = 0 THEN r.base
                   ELSE [r.base EXCEPT !.grants = [i \in 1..Len(r.base.grants) |->
                            IF \E j \in 1..(n - 1) : r.chunks[j].g = i THEN [r.base.grants[i] EXCEPT !.live = FALSE] ELSE r.base.grants[i]]]
             e  == [a |-> "reset", args |-> [none |-> TRUE, round |-> k, quiet |-> k = rounds],
                    exp |-> ExpS("ok", 0, [kept |-> IF r.cur = 0 THEN 0 ELSE r.chunks[n].start], chs2, c2, {}, <<>>, 0)]
             rest == RunRounds(chs2, c2, b2, ls, k + 1, rounds, firstId + Len(ls))
         IN [rest EXCEPT !.steps = r.steps \o <<e>> \o @]

ResetLoop(ls, rounds) ==
    /\ Active /\ Free /\ Depth = 0 /\ Len(ls) > 0 /\ LiveIds = {}
    /\ LET r == RunRounds(chunks, cur, base, ls, 1, rounds, nextId)
       IN /\ chunks' = r.chunks /\ cur' = r.cur /\ base' = r.base
          /\ nextId' = nextId + rounds * Len(ls)
          /\ blocks' = <<>> /\ cps' = <<>> /\ last' = 0 /\ order' = <<>> /\ parts' = {}
          /\ UNCHANGED <<cfg, ma, frames, fails, dropped>>
          /\ hist' = IF ~RecordHist THEN hist ELSE hist \o r.steps
          /\ nops' = nops + rounds * (Len(ls) + 1)

\* ---- requests whose size computation overflows (a layout close to isize::MAX) -----------------------
\* The fast path fails, the slow path walks the later chunks (resetting them and moving the current chunk forward)
\* and then fails to compute a chunk size: capacity overflow, reported as an error; the base allocator is not called.
AllocHuge(al) ==
    /\ Active /\ Free
    /\ LET r == DoAlloc(chunks, cur, base, HugeSz, al, ma, TRUE)
       IN /\ ~r.ok
          /\ chunks' = r.chunks /\ cur' = r.cur
          /\ last' = 0
          /\ UNCHANGED <<cfg, base, ma, frames, blocks, cps, nextId, order, parts, fails, dropped>>
          /\ Step("alloc_huge", [al |-> al], Exp("err", 0, NoX))

\* ---- deallocate the most recent allocation and request the same layout again (C13) -------------------
\* two steps of the replayer: "dealloc" then "alloc" with reuse = TRUE (the replayer reports the freed address)
Realloc(id, wrap) ==
    /\ Active /\ Free /\ PlainBlock(id)
    /\ LET b    == blocks[id]
           chs1 == DoDealloc(chunks, cur, b.addr, b.sz, ma, WD(wrap))
           r    == DoAlloc(chs1, cur, base, b.sz, b.al, ma, FALSE)
           antecedent == last = id /\ b.sz % ma = 0 /\ b.addr % ma = 0 /\ cfg.dealloc /\ ~WD(wrap)
       IN /\ ~NeedsBase(chs1, cur, b.sz, b.al, ma)
          /\ r.ok
          /\ Assert(antecedent => r.addr = b.addr, "C13: deallocate + same request does not return the same address")
          /\ chunks' = r.chunks /\ cur' = r.cur /\ base' = r.base
          /\ blocks' = [i \in (LiveIds \ {id}) \cup {nextId} |-> IF i = nextId THEN [addr |-> r.addr, sz |-> b.sz, al |-> b.al] ELSE blocks[i]]
          /\ nextId' = nextId + 1 /\ last' = nextId
          /\ order' = Append(Without(order, id), nextId)
          /\ parts' = parts \cap DOMAIN blocks'
          /\ UNCHANGED <<cfg, ma, frames, cps, fails, dropped>>
          /\ hist' = IF ~RecordHist THEN hist ELSE hist \o <<
                [a |-> "dealloc", args |-> [id |-> id, wrap |-> wrap, sz |-> b.sz, al |-> b.al],
                 exp |-> [res |-> "ok", addr |-> 0, cur |-> cur, pos |-> IF cur = 0 THEN 0 ELSE chs1[cur].pos,
                          allocated |-> StatAllocated(chs1, cur), count |-> StatCount(chs1, cur), nchunks |-> Len(chs1),
                          live |-> LiveIds \ {id}, ma |-> ma, fails |-> fails, nparts |-> Cardinality(parts \ {id}),
                          inaligned |-> \E i \in 1..Len(frames) : frames[i].kind \in {"aligned", "saligned", "bmws", "bvws"},
                          inclaim |-> \E i \in 1..Len(frames) : frames[i].kind = "claim", inprep |-> FALSE,
                          x |-> [waslast |-> last = id, wastop |-> Top(order) = id,
                                 reclaim |-> ~WD(wrap) /\ cfg.dealloc /\ IsLast(chunks, cur, b.addr, b.sz),
                                 optout |-> WD(wrap) \/ ~cfg.dealloc]]],
                [a |-> "alloc", args |-> [id |-> nextId, sz |-> b.sz, al |-> b.al, zeroed |-> FALSE, fail |-> FALSE,
                                           reuse |-> antecedent, of |-> id],
                 exp |-> Exp("ok", r.addr, [newchunk |-> FALSE])] >>
          /\ nops' = nops + 2

\* ---- claim --------------------------------------------------------------------------------------------
\* The guard (claimant) takes over the chunk pointer; the claimed handle is inert until the guard is dropped.
EnterClaim ==
    /\ Active /\ Free /\ Depth < MaxDepth
    /\ frames' = Append(frames, [kind |-> "claim", cp |-> Checkpoint, live |-> LiveIds, ma |-> ma, cps |-> cps, alloc0 |-> StatAllocated(chunks, cur)])
    /\ cps' = <<>>
    /\ last' = 0
    /\ UNCHANGED <<cfg, base, chunks, cur, ma, blocks, nextId, order, parts, fails, dropped>>
    /\ Step("enter", [kind |-> "claim"], Exp("ok", 0, NoX))

\* guard dropped (normally or by unwinding): the claimed handle continues exactly where the guard stopped
ExitClaim(how) ==
    /\ Active /\ Free /\ NoVecsHere /\ Depth > 0 /\ frames[Depth].kind = "claim"
    /\ frames' = SubSeq(frames, 1, Depth - 1)
    /\ cps' = frames[Depth].cps
    /\ last' = 0
    /\ UNCHANGED <<cfg, base, chunks, cur, ma, blocks, nextId, order, parts, fails, dropped>>
    /\ Step("exit", [kind |-> "claim", how |-> how], Exp("ok", 0, NoX))

ClaimLevels == {i \in 1..Len(frames) : frames[i].kind = "claim"}

\* an operation through a handle that is currently claimed (lvl = which claim frame, counted from the outermost frame)
\* op \in {"alloc", "reserve", "grow", "dealloc", "shrink", "stats", "claim"}
ClaimedOp(lvl, op, id, l) ==
    /\ Active /\ Free /\ lvl \in ClaimLevels
    /\ op \in {"grow", "dealloc", "shrink"} => PlainBlock(id)
    /\ op = "grow" => l.sz >= blocks[id].sz
    /\ op = "shrink" => l.sz <= blocks[id].sz
    /\ LET b == IF PlainBlock(id) THEN blocks[id] ELSE [addr |-> 0, sz |-> 0, al |-> 1]
           \* shrink through a claimed handle: the pointer is never "last" for the dummy chunk: aligned => unchanged
           \* (old size returned), unaligned => a fresh allocation, which fails
           shrinkOk == op = "shrink" /\ b.addr % l.al = 0
       IN /\ blocks' = CASE op = "dealloc" -> Restrict(blocks, LiveIds \ {id})
                         [] shrinkOk       -> [blocks EXCEPT ![id] = [addr |-> b.addr, sz |-> l.sz, al |-> l.al]]
                         [] OTHER          -> blocks
          /\ order' = IF op = "dealloc" THEN Without(order, id) ELSE order
          /\ parts' = parts \cap DOMAIN blocks'
          /\ last' = IF op \in {"dealloc", "shrink"} THEN 0 ELSE last
          /\ UNCHANGED <<cfg, base, chunks, cur, ma, frames, cps, nextId, fails, dropped>>
          /\ Step("claimed_op", [lvl |-> lvl, op |-> op, id |-> id, sz |-> l.sz, al |-> l.al, osz |-> b.sz, oal |-> b.al],
                  Exp(CASE op \in {"alloc", "reserve", "grow"} -> "err"
                        [] op = "claim" -> "panic"
                        [] op = "shrink" /\ ~shrinkOk -> "err"
                        [] OTHER -> "ok", IF shrinkOk THEN b.addr ELSE 0, NoX))

\* ---- aligned / scoped_aligned ---------------------------------------------------------------------------
EnterAligned(n, scoped) ==
    /\ Active /\ Free /\ NoVecsHere /\ Depth < MaxDepth /\ n \in {1, 2, 4, 8, 16} /\ n # ma
    /\ frames' = Append(frames, [kind |-> IF scoped THEN "saligned" ELSE "aligned", cp |-> Checkpoint, live |-> LiveIds,
                                  ma |-> ma, cps |-> cps, alloc0 |-> StatAllocated(chunks, cur)])
    /\ cps' = <<>>
    /\ ma' = n
    \* raising: the position is aligned before the stricter type is exposed (a dummy chunk is always aligned)
    /\ chunks' = IF n > ma /\ cur # 0 THEN [chunks EXCEPT ![cur].pos = AlignPos(@, n)] ELSE chunks
    /\ last' = 0
    /\ UNCHANGED <<cfg, base, cur, blocks, nextId, order, parts, fails, dropped>>
    /\ Step("enter", [kind |-> IF scoped THEN "saligned" ELSE "aligned", n |-> n], Exp("ok", 0, NoX))

\* borrow_mut_with_settings::<NewS>() with a higher minimum alignment (lowering is rejected at compile time): the position
\* is aligned like for aligned::<N>; nothing is undone when the borrow ends
\* byv: the same through an owned scope: by_value().with_settings::<NewS>() (BumpScope::with_settings; the arena must be allocated)
EnterBmwsG(n, byv) ==
    /\ Active /\ Free /\ NoVecsHere /\ Depth < MaxDepth /\ n \in {2, 4, 8, 16} /\ n > ma
    /\ byv => cur # 0
    /\ frames' = Append(frames, [kind |-> IF byv THEN "bvws" ELSE "bmws", cp |-> Checkpoint, live |-> LiveIds, ma |-> ma, cps |-> cps,
                                  alloc0 |-> StatAllocated(chunks, cur)])
    /\ cps' = <<>>
    /\ ma' = n
    /\ chunks' = IF cur # 0 THEN [chunks EXCEPT ![cur].pos = AlignPos(@, n)] ELSE chunks
    /\ last' = 0
    /\ UNCHANGED <<cfg, base, cur, blocks, nextId, order, parts, fails, dropped>>
    /\ Step("enter", [kind |-> IF byv THEN "bvws" ELSE "bmws", n |-> n], Exp("ok", 0, NoX))

EnterBmws(n) == EnterBmwsG(n, FALSE)

\* Bump::with_settings::<NewS>() (by value; only outside every frame): changes MIN_ALIGN and / or GUARANTEED_ALLOCATED.
\* Requires an allocated arena when NewS is guaranteed-allocated: otherwise it panics and the Bump, which was moved into
\* the call, is dropped by the unwinding.  Raising the alignment aligns the position, lowering needs nothing.
WithSettings(n, g) ==
    /\ Active /\ Free /\ NoVecsHere /\ Depth = 0 /\ n \in {1, 2, 4, 8, 16}
    /\ (n # cfg.ma \/ g # cfg.ga)
    /\ IF g /\ cur = 0
       THEN /\ dropped' = TRUE
            /\ blocks' = <<>> /\ cps' = <<>> /\ last' = 0 /\ order' = <<>> /\ parts' = {}
            /\ UNCHANGED <<cfg, base, chunks, cur, ma, frames, nextId, fails>>
            /\ Step("with_settings", [ma |-> n, ga |-> g],
                    [res |-> "panic", addr |-> 0, cur |-> 0, pos |-> 0, allocated |-> 0, count |-> 0, nchunks |-> 0, live |-> {},
                     ma |-> ma, x |-> NoX, fails |-> fails, nparts |-> 0, inaligned |-> FALSE, inclaim |-> FALSE, inprep |-> FALSE])
       ELSE /\ cfg' = [cfg EXCEPT !.ma = n, !.ga = g]
            /\ ma' = n
            /\ chunks' = IF n > ma /\ cur # 0 THEN [chunks EXCEPT ![cur].pos = AlignPos(@, n)] ELSE chunks
            /\ cps' = <<>> /\ last' = 0
            /\ UNCHANGED <<base, cur, frames, blocks, nextId, order, parts, fails, dropped>>
            /\ Step("with_settings", [ma |-> n, ga |-> g], Exp("ok", 0, NoX))

ExitAligned(how) ==
    /\ Active /\ Free /\ NoVecsHere /\ Depth > 0
    /\ LET f == frames[Depth] IN
       /\ f.kind \in {"aligned", "saligned", "bmws", "bvws"}
       /\ IF f.kind = "saligned"
          THEN LET r == ResetToCp(chunks, f.cp)
               IN /\ Assert(StatAllocated(r.chunks, r.cur) = f.alloc0, "C18/C03: scoped_aligned does not restore the entry position")
                  /\ chunks' = r.chunks /\ cur' = r.cur
                  /\ blocks' = Restrict(blocks, f.live)
                  /\ order' = SelectIds(order, f.live)
                  /\ parts' = parts \cap DOMAIN blocks'
          ELSE IF f.kind = "bvws"
          THEN \* the owned scope was a COPY of the handle (its own current-chunk pointer): when it is gone the handle is where it
               \* was - in the chunk that was current at entry, whose position is wherever the copy left it - and everything
               \* allocated through the copy has reached the end of its lifetime
               /\ cur' = f.cp.chunk
               /\ blocks' = Restrict(blocks, f.live)
               /\ order' = SelectIds(order, f.live)
               /\ parts' = parts \cap DOMAIN blocks'
               /\ UNCHANGED chunks
          ELSE \* lowered alignment: the guard re-aligns the then-current chunk to the outer alignment
               /\ chunks' = IF ma < f.ma /\ cur # 0 THEN [chunks EXCEPT ![cur].pos = AlignPos(@, f.ma)] ELSE chunks
               /\ UNCHANGED <<cur, blocks, order, parts>>
       /\ frames' = SubSeq(frames, 1, Depth - 1)
       /\ cps' = f.cps
       /\ ma' = f.ma
       /\ last' = 0
       /\ UNCHANGED <<cfg, base, nextId, fails, dropped>>
       /\ Step("exit", [kind |-> f.kind, how |-> how],
               Exp("ok", 0, [entry_cur |-> f.cp.chunk, entry_pos |-> f.cp.pos]))

(***************************************************************************)
(* CONTRACT: what the properties state, over a projected state.            *)
(* A projected state is a record                                           *)
(*   [chunks : Seq([start, size, lo, hi, pos]), cur, grants : Seq([addr,   *)
(*    size, live]), blocks : Seq([id, addr, sz, al]), ma, up]              *)
(* built from the model variables (ProjModel) or from an observation.      *)
(***************************************************************************)
BlockInLiveChunk(p, b) ==
    \E i \in 1..Len(p.chunks) : b.addr >= p.chunks[i].lo /\ b.addr + b.sz <= p.chunks[i].hi
ChunkInLiveGrant(p, c) ==
    \E g \in 1..Len(p.grants) : p.grants[g].live /\ c.start >= p.grants[g].addr
                                 /\ c.start + c.size <= p.grants[g].addr + p.grants[g].size
DisjointBlocks(b1, b2) == b1.sz = 0 \/ b2.sz = 0 \/ b1.addr + b1.sz <= b2.addr \/ b2.addr + b2.sz <= b1.addr

\* C01: every live block lies inside memory the arena owns, is aligned, and shares no byte with another live block
C01_Ok(p) ==
    /\ \A i \in 1..Len(p.blocks) :
          /\ BlockInLiveChunk(p, p.blocks[i])
          /\ p.blocks[i].addr % p.blocks[i].al = 0
    /\ \A i \in 1..Len(p.chunks) : ChunkInLiveGrant(p, p.chunks[i])
    /\ \A i, j \in 1..Len(p.blocks) : i < j => DisjointBlocks(p.blocks[i], p.blocks[j])

\* inductive strengthening (model only): no live non-empty block reaches into the free part of the current chunk,
\* and chunks after the current one hold no live block
C01_Strong(p) ==
    \A i \in 1..Len(p.blocks) : LET b == p.blocks[i] IN
        b.sz > 0 => \E k \in 1..p.cur :
            LET c == p.chunks[k] IN
            /\ b.addr >= c.lo /\ b.addr + b.sz <= c.hi
            /\ k = p.cur => IF p.up THEN b.addr + b.sz <= c.pos ELSE b.addr >= c.pos

\* C10: bookkeeping coherent (on the projected state; the statistics accessors are checked against it in ArenaObs)
C10_Ok(p) ==
    /\ p.cur \in 0..Len(p.chunks)
    /\ p.cur # 0 => LET c == p.chunks[p.cur] IN c.pos >= c.lo /\ c.pos <= c.hi /\ c.pos % p.ma = 0
    /\ \A i \in 1..Len(p.chunks) : LET c == p.chunks[i] IN
          /\ c.size % 16 = 0
          /\ c.lo >= c.start /\ c.hi <= c.start + c.size /\ c.lo <= c.hi
          /\ c.pos >= c.lo /\ c.pos <= c.hi
    /\ \A i \in 1..(Len(p.chunks) - 1) : p.chunks[i+1].size > p.chunks[i].size

RECURSIVE SortedIds(_)
SortedIds(S) == IF S = {} THEN <<>> ELSE LET m == CHOOSE x \in S : \A y \in S : x <= y IN <<m>> \o SortedIds(S \ {m})

ProjModel ==
    [chunks |-> chunks, cur |-> cur,
     grants |-> base.grants,
     blocks |-> LET ids == SortedIds({i \in LiveIds : blocks[i].addr # 0})     \* (a vector without buffer owns no memory)
                IN [i \in 1..Len(ids) |-> [id |-> ids[i], addr |-> blocks[ids[i]].addr, sz |-> blocks[ids[i]].sz, al |-> blocks[ids[i]].al]],
     ma |-> ma, up |-> cfg.up]

\* C15 (design level): while an exclusive-borrow collection is open, the creation chunk keeps its position and a
\* different current chunk is empty
Inv_C15 == (Len(frames) > 0 /\ frames[Len(frames)].kind = "prep") =>
              LET f == frames[Len(frames)] IN
              /\ f.cp.chunk # 0 => chunks[f.cp.chunk].pos = f.cp.pos
              /\ (cur # f.cp.chunk /\ cur # 0) => ChunkAllocated(chunks[cur]) = 0

Inv_C01 == ~dropped => C01_Ok(ProjModel) /\ C01_Strong(ProjModel)
Inv_C10 == ~dropped => C10_Ok(ProjModel)
\* C05 (model level): every grant that is not live was released exactly once is by construction of BaseFree;
\* chunks always refer to live grants; after drop nothing is live
Inv_C05 == /\ dropped => \A g \in 1..Len(base.grants) : ~base.grants[g].live
           /\ ~dropped => \A g \in 1..Len(base.grants) : base.grants[g].live <=> \E i \in 1..Len(chunks) : chunks[i].g = g

=============================================================================
