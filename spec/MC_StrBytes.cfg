SPECIFICATION Spec
CHECK_DEADLOCK FALSE
CONSTANT MaxChars = 3
