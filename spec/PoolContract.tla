----------------------------- MODULE PoolContract -----------------------------
(***************************************************************************)
(* The C19 contract evaluated on a recorded execution, independently of    *)
(* the implementation-shaped model: this monitor consumes EVERY event      *)
(* (it has no enabling conditions that an implementation could miss) and   *)
(* evaluates the clauses of the property as explicit predicates over the   *)
(* observed values.  Only a clause failing here is a VIOLATION of C19.      *)
(*                                                                         *)
(*  exclusive       no two live guards refer to the same arena (arena id   *)
(*                  and first-chunk address of a guard handed out differ   *)
(*                  from those of every arena currently owned by another   *)
(*                  thread; the idle vector holds no arena twice)          *)
(*  reuse           arenas created (or being created) never outnumber the  *)
(*                  peak number of simultaneous owners; an owner is a      *)
(*                  thread between the critical section of its get and the *)
(*                  critical section of its guard's drop (Pool.tla header) *)
(*  reuse_at_creation                                                      *)
(*                  at the instant an arena is created (first request to   *)
(*                  the base allocator for it) no arena returned by a      *)
(*                  completed guard drop is idle: the number of completed  *)
(*                  pushes minus the number of gets that entered their     *)
(*                  critical section with a non-empty idle vector, both    *)
(*                  read at that instant, is a lower bound of the number   *)
(*                  of idle arenas and must not be positive                *)
(*  intact          every block written through any guard reads back       *)
(*                  unchanged -- when its arena is handed out again, after *)
(*                  the next allocation and when the owner of the pool     *)
(*                  looks -- and no chunk is released while the pool lives *)
(*                  except by PoolReset                                    *)
(*  returns         get* hands out a guard (or Err when the arena cannot   *)
(*                  be created) and the guard's drop returns: no panic     *)
(*  reset / reset_to_start / drop                                          *)
(*                  every arena ever created is covered and ends up as     *)
(*                  Bump::reset / reset_to_start / drop leave a single     *)
(*                  arena: same statistics as the arena's single-arena     *)
(*                  twin, chunks released exactly once, none lost          *)
(*                                                                         *)
(* The ExclusiveC / ReuseC operators are the definitions that TLC verifies *)
(* as invariants of Pool.tla.                                              *)
(***************************************************************************)
EXTENDS PoolClauses, Integers, TLC, Json, IOUtils

CONSTANT Threads

VARIABLES i, own, ofirst, owners, mpeak, ids, pend, expFrees, nviol, lids, on, lch

cvars == <<i, own, ofirst, owners, mpeak, ids, pend, expFrees, nviol, lids, on, lch>>

Trace == ndJsonDeserialize(IOEnv.TRACE)
N     == Len(Trace)
ev    == Trace[i]

TwinAgrees(o, w) == w.a = o.a /\ w.n = o.n /\ w.sz = o.sz /\ w.al = o.al
PendIds(p)       == {p[t] : t \in Threads} \ {NoArena}
SeqSet(s)        == {s[j] : j \in DOMAIN s}
NoDup(s)         == \A j, k \in DOMAIN s : j # k => s[j] # s[k]
LedgerClean(l)   == l.dfree = 0 /\ l.bfree = 0

Fresh == /\ own' = [t \in Threads |-> NoArena] /\ ofirst' = [t \in Threads |-> 0] /\ owners' = {} /\ mpeak' = 0
         /\ ids' = {} /\ pend' = [t \in Threads |-> NoArena] /\ expFrees' = 0 /\ lids' = {}
         /\ on' = [t \in Threads |-> 0] /\ lch' = <<>>

CInit == /\ i = 1 /\ own = [t \in Threads |-> NoArena] /\ ofirst = [t \in Threads |-> 0] /\ owners = {} /\ mpeak = 0
         /\ ids = {} /\ pend = [t \in Threads |-> NoArena] /\ expFrees = 0 /\ nviol = 0 /\ lids = {}
         /\ on = [t \in Threads |-> 0] /\ lch = <<>>

\* report: set of violated clauses at this event
Report(bad) == /\ (IF bad = {} THEN TRUE ELSE PrintT(<<"VIOLATION", bad, i>>))
               /\ nviol' = nviol + Cardinality(bad)

\* every arena ever handed out, except those leaked with mem::forget (they are never returned to the pool)
CoversAll(obsSeq) == {obsSeq[j].a : j \in DOMAIN obsSeq} = ids \ lids /\ NoDup([j \in DOMAIN obsSeq |-> obsSeq[j].a])

ResetOK ==
    /\ Len(ev.before) = Len(ev.after) /\ Len(ev.twins) = Len(ev.after) /\ CoversAll(ev.after)
    /\ LedgerClean(ev.ledger) /\ ev.damaged = <<>>
    /\ \A j \in DOMAIN ev.after : LET b == ev.before[j]  a == ev.after[j] IN
          /\ a.a = b.a /\ a.n = 1 /\ a.al = 0
          /\ TwinAgrees(a, ev.twins[j])
          /\ ev.ledger.frees[j] - ev.ledger_before.frees[j] = b.n - 1
          /\ ev.ledger.allocs[j] = ev.ledger_before.allocs[j]

ResetToStartOK ==
    /\ Len(ev.before) = Len(ev.after) /\ Len(ev.twins) = Len(ev.after) /\ CoversAll(ev.after)
    /\ LedgerClean(ev.ledger) /\ ev.damaged = <<>>
    /\ \A j \in DOMAIN ev.after : LET b == ev.before[j]  a == ev.after[j] IN
          /\ a.a = b.a /\ a.n = b.n /\ a.sz = b.sz /\ a.al = 0
          /\ TwinAgrees(a, ev.twins[j])
          /\ ev.ledger.frees[j] = ev.ledger_before.frees[j]
          /\ ev.ledger.allocs[j] = ev.ledger_before.allocs[j]

RECURSIVE SumTo(_, _)
SumTo(f, n) == IF n = 0 THEN 0 ELSE f[n] + SumTo(f, n - 1)

\* every arena is released completely and exactly once, except the leaked ones, which are not released at all
DropOK ==
    /\ SeqSet(ev.idle) = ids \ lids /\ NoDup(ev.idle)
    /\ LedgerClean(ev.ledger) /\ ev.damaged = <<>>
    /\ \A j \in 1..ev.ever : IF j \in lids THEN ev.ledger_all.allocs[j] - ev.ledger_all.frees[j] = lch[j]
                                           ELSE ev.ledger_all.frees[j] = ev.ledger_all.allocs[j]
    /\ ev.ledger.outstanding = SumTo([j \in 1..ev.ever |-> IF j \in lids THEN lch[j] ELSE 0], ev.ever)

Step ==
    LET k == ev.ev  t == ev.t IN
    CASE k = "run_start" ->
            /\ Fresh /\ Report({})
      [] k = "get_cs" ->
            /\ owners' = owners \cup {t}
            /\ mpeak' = Max(mpeak, Cardinality(owners \cup {t}) + Cardinality(lids))   \* a forgotten guard stays live
            /\ UNCHANGED <<own, ofirst, ids, pend, expFrees, lids, on, lch>> /\ Report({})
      [] k = "create" ->
            LET pk == Max(mpeak, Cardinality(owners \cup {t}) + Cardinality(lids)) IN   \* (t is an owner since its get_cs)
            /\ pend' = [pend EXCEPT ![t] = ev.arena]
            /\ owners' = owners \cup {t} /\ mpeak' = pk
            /\ UNCHANGED <<own, ofirst, ids, expFrees, lids, on, lch>>
            /\ Report(IF ReuseC(Cardinality(ids \cup PendIds(pend) \cup {ev.arena}), pk) THEN {} ELSE {"reuse"})
      [] k \in {"get_fail", "get_panic"} ->   \* no guard: Err, or the documented panic of a size hint that overflows
            /\ pend' = [pend EXCEPT ![t] = NoArena]
            /\ owners' = owners \ {t}
            /\ UNCHANGED <<own, ofirst, mpeak, ids, expFrees, lids, on, lch>> /\ Report({})
      [] k = "get_done" ->
            LET others == [u \in Threads |-> IF u = t THEN NoArena ELSE own[u]]
                h      == [others EXCEPT ![t] = ev.arena]
                p2     == [pend EXCEPT ![t] = NoArena]
                ids2   == ids \cup {ev.arena}
                excl   == /\ ExclusiveC(h) /\ ev.arena \notin lids
                          /\ \A u \in Threads : (u # t /\ own[u] # NoArena) => ofirst[u] # ev.obs.first
                          /\ ev.obs.a = ev.arena
                pk     == Max(mpeak, Cardinality(owners \cup {t}) + Cardinality(lids))
                reuse  == ReuseC(Cardinality(ids2 \cup PendIds(p2)), pk)
                intact == ev.damaged = <<>>
                \* the arena was created (first request to the base allocator) at an instant at which at least
                \* pushed - pops arenas, returned by completed guard drops, were idle: they had to be reused first
                atcre  == ev.created => NoIdleAtCreationC(ev.at_alloc.pushed - ev.at_alloc.pops)
            IN
            /\ own' = [own EXCEPT ![t] = ev.arena]
            /\ ofirst' = [ofirst EXCEPT ![t] = ev.obs.first]
            /\ pend' = p2 /\ ids' = ids2
            /\ on' = [on EXCEPT ![t] = ev.obs.n]
            \* normally t became an owner at its get_cs; if that hook event is missing (a get path that bypasses the
            \* instrumented lock) the guard in hand still makes t an owner -- never undercount the peak
            /\ owners' = owners \cup {t}
            /\ mpeak' = pk
            /\ UNCHANGED <<expFrees, lids, lch>>
            /\ Report((IF excl THEN {} ELSE {"exclusive"}) \cup (IF reuse THEN {} ELSE {"reuse"})
                      \cup (IF intact THEN {} ELSE {"intact"}) \cup (IF atcre THEN {} ELSE {"reuse_at_creation"}))
      [] k = "use" ->
            /\ on' = [on EXCEPT ![t] = ev.obs.n]
            /\ UNCHANGED <<own, ofirst, owners, mpeak, ids, pend, expFrees, lids, lch>>
            /\ Report((IF ev.damaged = <<>> THEN {} ELSE {"intact"})
                      \cup (IF ev.arena = own[t] /\ ev.obs.a = ev.arena THEN {} ELSE {"exclusive"}))
      [] k = "drop_cs" ->
            /\ own' = [own EXCEPT ![t] = NoArena] /\ ofirst' = [ofirst EXCEPT ![t] = 0]
            /\ owners' = owners \ {t}
            /\ UNCHANGED <<mpeak, ids, pend, expFrees, lids, on, lch>> /\ Report({})
      [] k \in {"drop_post", "drop_done"} ->
            \* Normally ownership ended at drop_cs.  If that hook event is missing (a drop path that bypasses the
            \* instrumented lock) the position of these thread-local events relative to other threads is unknown
            \* (they are placed as early as possible): for exclusivity the arena counts as given back from here on,
            \* for the peak the thread stays an owner (until its next drop_cs or the end of the phase) -- each clause
            \* errs on the side that cannot raise a false alarm.
            /\ own' = [own EXCEPT ![t] = NoArena] /\ ofirst' = [ofirst EXCEPT ![t] = 0]
            /\ UNCHANGED <<owners, mpeak, ids, pend, expFrees, lids, on, lch>> /\ Report({})
      [] k = "forget" ->       \* mem::forget(guard): the arena is never handed out again, its owner count stays
            /\ own' = [own EXCEPT ![t] = NoArena] /\ ofirst' = [ofirst EXCEPT ![t] = 0]
            /\ owners' = owners \ {t}
            /\ lids' = lids \cup {ev.arena}
            /\ lch' = [a \in DOMAIN lch \cup {ev.arena} |-> IF a = ev.arena THEN on[t] ELSE lch[a]]   \* its chunks, for ever
            /\ UNCHANGED <<mpeak, ids, pend, expFrees, on>> /\ Report({})
      [] k = "check" ->        \* the owner of the pool has `&mut self`: no guard is alive
            /\ owners' = {}
            /\ UNCHANGED <<own, ofirst, mpeak, ids, pend, expFrees, lids, on, lch>>
            /\ Report((IF ev.damaged = <<>> /\ ev.ledger.total_frees = expFrees /\ LedgerClean(ev.ledger)
                          THEN {} ELSE {"intact"})
                      \cup (IF NoDup(ev.idle) /\ SeqSet(ev.idle) \subseteq ids \ lids THEN {} ELSE {"exclusive"})
                      \cup (IF ReuseC(Len(ev.idle), mpeak) /\ ReuseC(Cardinality(ids), mpeak) THEN {} ELSE {"reuse"}))
      [] k = "pool_reset" ->
            /\ expFrees' = ev.ledger.total_frees
            /\ UNCHANGED <<own, ofirst, owners, mpeak, ids, pend, lids, on, lch>>
            /\ Report(IF ResetOK THEN {} ELSE {"reset"})
      [] k = "pool_reset_to_start" ->
            /\ expFrees' = ev.ledger.total_frees
            /\ UNCHANGED <<own, ofirst, owners, mpeak, ids, pend, lids, on, lch>>
            /\ Report(IF ResetToStartOK THEN {} ELSE {"reset_to_start"})
      [] k = "pool_drop" ->
            /\ UNCHANGED <<own, ofirst, owners, mpeak, ids, pend, expFrees, lids, on, lch>>
            /\ Report(IF DropOK THEN {} ELSE {"drop"})
      [] k = "panic" ->        \* a get / drop (or an allocation through the guard) panicked instead of returning
            /\ UNCHANGED <<own, ofirst, owners, mpeak, ids, pend, expFrees, lids, on, lch>> /\ Report({"returns"})
      [] OTHER ->
            /\ UNCHANGED <<own, ofirst, owners, mpeak, ids, pend, expFrees, lids, on, lch>> /\ Report({})

CNext == i <= N /\ Step /\ i' = i + 1

CSpec == CInit /\ [][CNext]_cvars

Done ==
    LET d == TLCGet("stats").diameter IN
    /\ PrintT(<<"CONSUMED", d - 1, N>>)
    /\ d - 1 = N
=============================================================================
