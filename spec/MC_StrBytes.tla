---------------------------- MODULE MC_StrBytes ----------------------------
(***************************************************************************)
(* Refinement check: bump-scope's byte-level string algorithms             *)
(* (StrBytes.tla) implement the character-level specification              *)
(* (StrOps.tla) for every string of <= MaxChars characters over the        *)
(* alphabet, every boundary index / range, every retain mask and panic     *)
(* point, with and without spare capacity.                                 *)
(***************************************************************************)
EXTENDS StrBytes

CONSTANT MaxChars
VARIABLE done

Alphabet == {97, 0, 233, 8364, 128512}
Texts    == {<<>>, <<233>>, <<8364, 97>>, <<97, 0, 128512>>}
Strs     == UNION {[1..k -> Alphabet] : k \in 0..MaxChars}
Slacks   == {0, 5}

Bad == {x \in Strs \X Slacks : ~RefinesAt(x[1], x[2], Alphabet, Texts)}

Init == /\ done = TRUE
        /\ PrintT(<<"REFINE_CHECKED", Cardinality(Strs) * Cardinality(Slacks)>>)
        /\ PrintT(<<"REFINE_BAD", Cardinality(Bad)>>)
        /\ (Bad # {} => PrintT(<<"REFINE_EXAMPLE", CHOOSE x \in Bad : TRUE>>))
Next == UNCHANGED done
Spec == Init /\ [][Next]_done
=============================================================================
