------------------------------- MODULE StrOps -------------------------------
(***************************************************************************)
(* C09 -- strings over abstract characters: the meaning of the operations. *)
(* (Str.tla is the state machine built from these operators, StrObs.tla    *)
(* evaluates them on the observations recorded from the real code.)        *)
(*                                                                         *)
(* A string is a sequence of CODE POINTS; byte indices are derived: an     *)
(* index is a character boundary iff it is a prefix sum of UTF-8 widths.   *)
(* Every public operation of BumpBox<str> / FixedBumpString / BumpString / *)
(* MutBumpString listed in C09 is an operator `OpXxx(st, args)` with the   *)
(* meaning of std::string::String (std itself is replayed against this     *)
(* module by harness/strs, a disagreement is a specification bug), plus    *)
(* the fixed-capacity outcome "full" that std does not have.               *)
(*                                                                         *)
(*   st   = [chars |-> <<code points>>, cap |-> capacity in bytes | INF]   *)
(*   res  = [out |-> "ok" | "panic" | "full" | "err",                      *)
(*           chars, cap      -- the string after the step,                 *)
(*           ret, ret2       -- returned values (op specific, see below),  *)
(*           xcap]           -- capacity of the split-off part | -1        *)
(*                                                                         *)
(* `Apply(st, op)` dispatches on the operation record; it is used both by  *)
(* the state machine below (model checked by MC_Str) and by StrObs.tla,    *)
(* which evaluates it on every step recorded from the real code.           *)
(*                                                                         *)
(* The second half of the module is the byte level: UTF-8 encoding and a   *)
(* strict decoder written out in TLA+, so that "valid UTF-8" and "the      *)
(* bytes are the encoding of the model string" are decided here and not    *)
(* by the harness.                                                         *)
(***************************************************************************)
EXTENDS Integers, Sequences, FiniteSets, TLC

INF  == -1          \* capacity of a growable string
REPL == 65533       \* U+FFFD

Min2(a, b) == IF a < b THEN a ELSE b
Max2(a, b) == IF a > b THEN a ELSE b

-----------------------------------------------------------------------------
(* characters, widths, byte offsets *)

Width(c) == IF c < 128 THEN 1 ELSE IF c < 2048 THEN 2 ELSE IF c < 65536 THEN 3 ELSE 4

RECURSIVE OffAt(_, _)
\* byte offset of the end of the k-th character (k = 0: start of the string)
OffAt(s, k) == IF k = 0 THEN 0 ELSE OffAt(s, k - 1) + Width(s[k])

BLen(s) == OffAt(s, Len(s))

\* i is a character boundary of s  (prefix-sum formulation; in particular i <= BLen(s))
IsBoundary(s, i) == \E k \in 0..Len(s) : OffAt(s, k) = i

\* number of characters before boundary i
CharIdx(s, i) == CHOOSE k \in 0..Len(s) : OffAt(s, k) = i

Sub(s, a, z)         == SubSeq(s, a + 1, z)                         \* characters a+1..z
RemoveChars(s, a, z) == SubSeq(s, 1, a) \o SubSeq(s, z + 1, Len(s))
InsertChars(s, k, t) == SubSeq(s, 1, k) \o t \o SubSeq(s, k + 1, Len(s))

RECURSIVE Concat(_)
Concat(ss) == IF ss = <<>> THEN <<>> ELSE Head(ss) \o Concat(Tail(ss))

\* text up to the first NUL (or all of it)
RECURSIVE CutNul(_)
CutNul(s) == IF s = <<>> \/ Head(s) = 0 THEN <<>> ELSE <<Head(s)>> \o CutNul(Tail(s))

-----------------------------------------------------------------------------
(* ranges: [lo |-> a | -1 (unbounded), hi |-> b | -1 (unbounded), inc |-> hi is inclusive] *)

RStart(r)    == IF r.lo = -1 THEN 0 ELSE r.lo
REnd(r, len) == IF r.hi = -1 THEN len ELSE IF r.inc THEN r.hi + 1 ELSE r.hi

\* the range is in bounds, not decreasing, and both ends are character boundaries
RangeOk(s, r) ==
    LET a == RStart(r)  z == REnd(r, BLen(s)) IN
    a <= z /\ z <= BLen(s) /\ IsBoundary(s, a) /\ IsBoundary(s, z)

-----------------------------------------------------------------------------
(* results *)

Res(out, chars, cap, ret, ret2, xcap) ==
    [out |-> out, chars |-> chars, cap |-> cap, ret |-> ret, ret2 |-> ret2, xcap |-> xcap]

Same(st, out)        == Res(out, st.chars, st.cap, <<>>, <<>>, -1)
Ok(st, chars)        == Res("ok", chars, st.cap, <<>>, <<>>, -1)
OkRet(st, chars, rt) == Res("ok", chars, st.cap, rt, <<>>, -1)

\* `add` more bytes fit without growing a fixed buffer
Fits(st, add) == st.cap = INF \/ BLen(st.chars) + add <= st.cap

-----------------------------------------------------------------------------
(* operations on an existing string *)

OpPushStr(st, t) == IF Fits(st, BLen(t)) THEN Ok(st, st.chars \o t) ELSE Same(st, "full")
OpPush(st, c)    == OpPushStr(st, <<c>>)

\* the boundary assertion precedes the capacity check
OpInsertStr(st, i, t) ==
    IF ~IsBoundary(st.chars, i) THEN Same(st, "panic")
    ELSE IF ~Fits(st, BLen(t)) THEN Same(st, "full")
    ELSE Ok(st, InsertChars(st.chars, CharIdx(st.chars, i), t))
OpInsert(st, i, c) == OpInsertStr(st, i, <<c>>)

\* ret = <<removed character>>
OpRemove(st, i) ==
    LET s == st.chars IN
    IF i < BLen(s) /\ IsBoundary(s, i)
    THEN LET k == CharIdx(s, i) IN OkRet(st, RemoveChars(s, k, k + 1), <<s[k + 1]>>)
    ELSE Same(st, "panic")

\* ret = <<>> (None) or <<c>>
OpPop(st) ==
    LET s == st.chars IN
    IF s = <<>> THEN OkRet(st, s, <<>>) ELSE OkRet(st, SubSeq(s, 1, Len(s) - 1), <<s[Len(s)]>>)

OpTruncate(st, n) ==
    LET s == st.chars IN
    IF n > BLen(s) THEN Ok(st, s)
    ELSE IF ~IsBoundary(s, n) THEN Same(st, "panic")
    ELSE Ok(st, SubSeq(s, 1, CharIdx(s, n)))

OpClear(st) == Ok(st, <<>>)

\* keep: sequence of booleans, one verdict per character; pat = 0: the predicate never panics, pat = k: the
\* predicate panics when it is called for the k-th character.  ret = the characters the predicate was called
\* with, in order.  After a panic std keeps exactly the characters retained so far (SetLenOnDrop).
\* (a verdict beyond the mask is "keep", a panic index beyond the string never fires: the operator is total, so
\*  that StrObs can evaluate it on whatever string the implementation really holds)
KeepAt(keep, n) == IF n <= Len(keep) THEN keep[n] ELSE TRUE
RECURSIVE Kept(_, _, _)
Kept(s, keep, n) == IF n = 0 THEN <<>>
                    ELSE IF KeepAt(keep, n) THEN Append(Kept(s, keep, n - 1), s[n]) ELSE Kept(s, keep, n - 1)

OpRetain(st, keep, pat) ==
    LET s == st.chars IN
    IF pat = 0 \/ pat > Len(s) THEN OkRet(st, Kept(s, keep, Len(s)), s)
    ELSE Res("panic", Kept(s, keep, pat - 1), st.cap, SubSeq(s, 1, pat), <<>>, -1)

\* drain(range): f calls of next(), then b calls of next_back(), then as_str() (ret2), then the iterator is
\* dropped ("drop": the range is removed) or leaked ("forget": nothing happens, as in std).
\* ret = the f + b yielded values in call order, -1 for None.
OpDrain(st, r, f, b, endm) ==
    LET s == st.chars IN
    IF ~RangeOk(s, r) THEN Same(st, "panic")
    ELSE LET a  == CharIdx(s, RStart(r))
             z  == CharIdx(s, REnd(r, BLen(s)))
             d  == Sub(s, a, z)
             m  == Len(d)
             nf == Min2(f, m)
             nb == Min2(b, m - nf)
             front == [i \in 1..f |-> IF i <= m THEN d[i] ELSE -1]
             back  == [i \in 1..b |-> IF i <= m - nf THEN d[m - i + 1] ELSE -1]
         IN Res("ok", IF endm = "drop" THEN RemoveChars(s, a, z) ELSE s, st.cap,
                front \o back, SubSeq(d, nf + 1, m - nb), -1)

OpReplaceRange(st, r, t) ==
    LET s == st.chars IN
    IF ~RangeOk(s, r) THEN Same(st, "panic")
    ELSE LET lo == RStart(r)  hi == REnd(r, BLen(s)) IN
         IF ~Fits(st, Max2(0, BLen(t) - (hi - lo))) THEN Same(st, "full")
         ELSE Ok(st, SubSeq(s, 1, CharIdx(s, lo)) \o t \o SubSeq(s, CharIdx(s, hi) + 1, Len(s)))

OpExtendFromWithin(st, r) ==
    LET s == st.chars IN
    IF ~RangeOk(s, r) THEN Same(st, "panic")
    ELSE LET lo == RStart(r)  hi == REnd(r, BLen(s)) IN
         IF ~Fits(st, hi - lo) THEN Same(st, "full")
         ELSE Ok(st, s \o Sub(s, CharIdx(s, lo), CharIdx(s, hi)))

\* how FixedBumpString::split_off distributes the capacity: <<capacity of self, capacity of the returned part>>
\* (implementation shaped; "the excess capacity may end up in either string")
SplitCaps(cap, len, lo, hi) ==
    IF cap = INF THEN <<INF, INF>>
    ELSE IF hi = len THEN <<lo, cap - lo>>
    ELSE IF lo = 0 THEN <<cap - hi, hi>>
    ELSE IF lo = hi THEN <<cap, 0>>
    ELSE IF lo < len - hi THEN <<cap - (hi - lo), hi - lo>>
    ELSE <<len - (hi - lo), cap - (len - (hi - lo))>>

\* split_off(range): removes the range and returns it as a new string.  `keep` says which of the two
\* strings the behaviour goes on with ("self" | "other"); chars/cap describe that one, ret/xcap the one
\* that is dropped.
OpSplitOff(st, r, keep) ==
    LET s == st.chars IN
    IF ~RangeOk(s, r) THEN Same(st, "panic")
    ELSE LET lo == RStart(r)  hi == REnd(r, BLen(s))
             a == CharIdx(s, lo)  z == CharIdx(s, hi)
             other == Sub(s, a, z)
             rest  == RemoveChars(s, a, z)
             caps  == SplitCaps(st.cap, BLen(s), lo, hi)
         IN IF keep = "self" THEN Res("ok", rest, caps[1], other, <<>>, caps[2])
                             ELSE Res("ok", other, caps[2], rest, <<>>, caps[1])

\* write_fmt / write!: one write_str per piece; a piece that does not fit a fixed buffer fails as a whole,
\* the pieces before it stay.
RECURSIVE OpWriteFmt(_, _)
OpWriteFmt(st, ps) ==
    IF ps = <<>> THEN Ok(st, st.chars)
    ELSE IF Fits(st, BLen(Head(ps))) THEN OpWriteFmt([st EXCEPT !.chars = @ \o Head(ps)], Tail(ps))
    ELSE Same(st, "full")

OpExtendZeroed(st, n) == OpPushStr(st, [i \in 1..n |-> 0])
OpReserve(st, n)      == IF Fits(st, n) THEN Ok(st, st.chars) ELSE Same(st, "full")

\* C strings: the text up to the first NUL (or all of it) followed by exactly one NUL.  ret = code points of
\* the C string including the terminator.
CStrOf(t) == Append(CutNul(t), 0)
OpIntoCstr(st)      == Res("ok", <<>>, st.cap, CStrOf(st.chars), <<>>, -1)     \* consumes the string
OpCstrPure(st, t)   == OkRet(st, st.chars, CStrOf(t))                           \* alloc_cstr* : the string is not involved

-----------------------------------------------------------------------------
(* constructors *)

\* from_utf8 over byte segments [cls |-> "ok" | "cont" | "lead" | "trunc", c |-> code point | 0, b |-> <<bytes>>]
\*   ok    : the complete encoding of c
\*   cont  : one stray continuation byte            (never directly after a trunc segment)
\*   lead  : one byte that can never start a sequence (0xC0, 0xC1, 0xF5..0xFF)
\*   trunc : a proper non-empty prefix of the encoding of c
SegBytes(segs) == Concat([i \in 1..Len(segs) |-> segs[i].b])
FirstBad(segs) == IF \E i \in 1..Len(segs) : segs[i].cls # "ok"
                  THEN CHOOSE i \in 1..Len(segs) : segs[i].cls # "ok" /\ \A j \in 1..(i - 1) : segs[j].cls = "ok"
                  ELSE 0
SegChars(segs) == [i \in 1..Len(segs) |-> IF segs[i].cls = "ok" THEN segs[i].c ELSE REPL]

\* strict: Err carries valid_up_to and error_len (0 for None = "unexpected end of input"), ret2 = the bytes handed back
CtorFromUtf8(segs, cap) ==
    LET k == FirstBad(segs) IN
    IF k = 0 THEN Res("ok", SegChars(segs), cap, <<>>, <<>>, -1)
    ELSE LET upto == Len(SegBytes(SubSeq(segs, 1, k - 1)))
             elen == IF segs[k].cls = "trunc" THEN (IF k = Len(segs) THEN 0 ELSE Len(segs[k].b)) ELSE 1
         IN Res("err", <<>>, cap, <<upto, elen>>, SegBytes(segs), -1)

\* lossy: every ill-formed segment becomes one U+FFFD
CtorFromUtf8Lossy(segs, cap) == Res("ok", SegChars(segs), cap, <<>>, <<>>, -1)

\* from_utf16 over unit classes [cls |-> "ch" | "hi" | "lo", c |-> code point | 0, u |-> <<units>>]
\*   ch : the UTF-16 encoding of c (one unit, or a surrogate pair); hi / lo : a lone surrogate
\*   (a "lo" never directly follows a "hi": together they would be a pair)
UnitSeq(us)   == Concat([i \in 1..Len(us) |-> us[i].u])
UnitChars(us) == [i \in 1..Len(us) |-> IF us[i].cls = "ch" THEN us[i].c ELSE REPL]
CtorFromUtf16(us, cap) ==
    IF \A i \in 1..Len(us) : us[i].cls = "ch" THEN Res("ok", UnitChars(us), cap, <<>>, <<>>, -1)
    ELSE Res("err", <<>>, cap, <<>>, <<>>, -1)
CtorFromUtf16Lossy(us, cap) == Res("ok", UnitChars(us), cap, <<>>, <<>>, -1)

Empty(cap) == [chars |-> <<>>, cap |-> cap]

\* format-string literals (the Arguments::as_str() fast path); mirrored by with_args() in harness/strs/src/main.rs:
\* "a", "a\0é", "", "€😀", "\0a"
LitsDef == << <<97>>, <<97, 0, 233>>, <<>>, <<8364, 128512>>, <<0, 97>> >>

\* operation records: [name |-> ..., <arguments>]; constructors carry kind/cap of the string to build.
\* `Lits` (format-string literals, the Arguments::as_str() fast path) is a parameter of the dispatch.
Pieces(o, Lits) == IF o.lit > 0 THEN <<Lits[o.lit]>> ELSE o.ps

IsCtor(o) == o.name \in {"from_str", "fmt", "from_utf8", "from_utf8_lossy", "from_utf16", "from_utf16_lossy"}

ApplyCtor(o, Lits) ==
    CASE o.name = "from_str"         -> Res("ok", o.t, o.cap, <<>>, <<>>, -1)
      [] o.name = "fmt"              -> OpWriteFmt(Empty(o.cap), Pieces(o, Lits))
      [] o.name = "from_utf8"        -> CtorFromUtf8(o.segs, o.cap)
      [] o.name = "from_utf8_lossy"  -> CtorFromUtf8Lossy(o.segs, o.cap)
      [] o.name = "from_utf16"       -> CtorFromUtf16(o.units, o.cap)
      [] o.name = "from_utf16_lossy" -> CtorFromUtf16Lossy(o.units, o.cap)

Apply(st, o, Lits) ==
    CASE o.name = "push"               -> OpPush(st, o.c)
      [] o.name = "push_str"           -> OpPushStr(st, o.t)
      [] o.name = "insert"             -> OpInsert(st, o.i, o.c)
      [] o.name = "insert_str"         -> OpInsertStr(st, o.i, o.t)
      [] o.name = "remove"             -> OpRemove(st, o.i)
      [] o.name = "pop"                -> OpPop(st)
      [] o.name = "truncate"           -> OpTruncate(st, o.i)
      [] o.name = "clear"              -> OpClear(st)
      [] o.name = "retain"             -> OpRetain(st, o.keep, o.pat)
      [] o.name = "drain"              -> OpDrain(st, o.r, o.f, o.b, o.endm)
      [] o.name = "replace_range"      -> OpReplaceRange(st, o.r, o.t)
      [] o.name = "extend_from_within" -> OpExtendFromWithin(st, o.r)
      [] o.name = "split_off"          -> OpSplitOff(st, o.r, o.keep)
      [] o.name = "write_fmt"          -> OpWriteFmt(st, Pieces(o, Lits))
      [] o.name = "extend_zeroed"      -> OpExtendZeroed(st, o.n)
      [] o.name = "reserve"            -> OpReserve(st, o.n)
      [] o.name = "into_cstr"          -> OpIntoCstr(st)
      [] o.name = "alloc_cstr"          -> OpCstrPure(st, o.t)
      [] o.name = "alloc_cstr_from_str" -> OpCstrPure(st, o.t)
      [] o.name = "alloc_cstr_fmt"      -> OpCstrPure(st, Concat(Pieces(o, Lits)))
      [] o.name = "alloc_cstr_fmt_mut"  -> OpCstrPure(st, Concat(Pieces(o, Lits)))

\* operations after which the behaviour ends (the string is gone)
Terminal(o, r) == o.name = "into_cstr" \/ (IsCtor(o) /\ r.out = "err")

-----------------------------------------------------------------------------
(* byte level: UTF-8 *)

Utf8(c) ==
    IF c < 128 THEN <<c>>
    ELSE IF c < 2048 THEN <<192 + (c \div 64), 128 + (c % 64)>>
    ELSE IF c < 65536 THEN <<224 + (c \div 4096), 128 + ((c \div 64) % 64), 128 + (c % 64)>>
    ELSE <<240 + (c \div 262144), 128 + ((c \div 4096) % 64), 128 + ((c \div 64) % 64), 128 + (c % 64)>>

Utf8Seq(s) == Concat([i \in 1..Len(s) |-> Utf8(s[i])])

Utf16(c) == IF c < 65536 THEN <<c>> ELSE <<55296 + ((c - 65536) \div 1024), 56320 + ((c - 65536) % 1024)>>

IsCont(b) == b >= 128 /\ b <= 191

\* strict decoding of the sequence starting at position i (1-based): [n |-> bytes consumed (0 = ill-formed), cp |-> code point]
DecodeAt(bs, i) ==
    LET n  == Len(bs)
        b0 == bs[i]
        C(j) == i + j <= n /\ IsCont(bs[i + j])
        V(j) == bs[i + j] - 128
        bad == [n |-> 0, cp |-> 0]
    IN IF b0 < 128 THEN [n |-> 1, cp |-> b0]
       ELSE IF b0 >= 194 /\ b0 <= 223
            THEN IF C(1) THEN [n |-> 2, cp |-> (b0 - 192) * 64 + V(1)] ELSE bad
       ELSE IF b0 >= 224 /\ b0 <= 239
            THEN IF C(1) /\ C(2)
                 THEN LET cp == (b0 - 224) * 4096 + V(1) * 64 + V(2) IN
                      IF cp >= 2048 /\ ~(cp >= 55296 /\ cp <= 57343) THEN [n |-> 3, cp |-> cp] ELSE bad
                 ELSE bad
       ELSE IF b0 >= 240 /\ b0 <= 244
            THEN IF C(1) /\ C(2) /\ C(3)
                 THEN LET cp == (b0 - 240) * 262144 + V(1) * 4096 + V(2) * 64 + V(3) IN
                      IF cp >= 65536 /\ cp <= 1114111 THEN [n |-> 4, cp |-> cp] ELSE bad
                 ELSE bad
       ELSE bad

\* <<TRUE, code points>> or <<FALSE, code points of the valid prefix>>
RECURSIVE DecodeFrom(_, _, _)
DecodeFrom(bs, i, acc) ==
    IF i > Len(bs) THEN <<TRUE, acc>>
    ELSE LET d == DecodeAt(bs, i) IN
         IF d.n = 0 THEN <<FALSE, acc>> ELSE DecodeFrom(bs, i + d.n, Append(acc, d.cp))

Decode(bs)    == DecodeFrom(bs, 1, <<>>)
ValidUtf8(bs) == Decode(bs)[1]

\* str::is_char_boundary on the bytes (byte-level formulation of IsBoundary)
ByteBoundary(bs, i) == i = 0 \/ i = Len(bs) \/ (i < Len(bs) /\ ~IsCont(bs[i + 1]))

=============================================================================
