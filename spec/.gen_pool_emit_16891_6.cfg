SPECIFICATION SSpec
CONSTANTS
    Threads = {1, 2, 3, 4}
    MaxRounds = 2
    MaxChunks = 100
    MaxPoolOps = 1
    CreateUnderLock = TRUE
    MayFail = TRUE
    MayForget = TRUE
INVARIANT Emit
