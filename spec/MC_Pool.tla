------------------------------ MODULE MC_Pool ------------------------------
(***************************************************************************)
(* Model checking of Pool.tla: invariants, action properties (MC_Pool*.cfg) *)
(* and liveness under weak fairness (MC_Pool_live.cfg).  Schedule emission  *)
(* for the conformance harness lives in MC_PoolSched.tla.                   *)
(***************************************************************************)
EXTENDS Pool, TLC

\* threads are interchangeable: with Threads a set of model values the safety configurations use this symmetry
\* (NoThread = 0 is different from every model value); the liveness configuration does not.
Symm == Permutations(Threads)
=============================================================================
