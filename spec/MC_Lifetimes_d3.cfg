SPECIFICATION Spec
CONSTANTS
    Roots <- ArenaRoots
    MaxOpen = 3
    MaxMid = 2
    FamsFull <- NoFams
    FamsRep <- LiteFams
    FullDepth = 0
INVARIANT Emit
INVARIANT ReportHoles
CHECK_DEADLOCK FALSE
