\* thorough tier, concurrency core: 3 threads x 3 rounds
SPECIFICATION Spec
CONSTANTS
    Threads = {t1, t2, t3}
    MaxRounds = 3
    MaxChunks = 1
    MaxPoolOps = 0
    CreateUnderLock = TRUE
    MayFail = FALSE
    MayForget = FALSE
    MayPanic = FALSE
SYMMETRY Symm
INVARIANTS TypeOK MutexOK OwnerOK Exclusive IdleDisjoint Conservation ReuseOK ReuseTight DataIntact
PROPERTIES DecideCreateOnlyWhenIdleEmpty CreatedOnlyWhenIdleEmpty BlocksOnlyForgottenByPoolOps ResetRewindsAll DropReleasesAll LeakedStayValid
