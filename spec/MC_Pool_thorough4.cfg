\* thorough tier, concurrency core: 4 threads x 2 rounds, no creation failure
SPECIFICATION Spec
CONSTANTS
    Threads = {t1, t2, t3, t4}
    MaxRounds = 2
    MaxChunks = 1
    MaxPoolOps = 0
    CreateUnderLock = TRUE
    MayFail = FALSE
    MayForget = FALSE
SYMMETRY Symm
INVARIANTS TypeOK MutexOK OwnerOK Exclusive IdleDisjoint Conservation ReuseOK ReuseTight DataIntact
PROPERTIES DecideCreateOnlyWhenIdleEmpty BlocksOnlyForgottenByPoolOps ResetRewindsAll DropReleasesAll LeakedStayValid
