\* thorough tier: 4 threads x 1 round per phase x 2 phases, creation may fail
\* (4 threads x 2 rounds, MayFail = FALSE: 20 457 759 distinct states, depth 78, no error -- checked once by hand, 19 min, too slow for the tier)
SPECIFICATION Spec
CONSTANTS
    Threads = {t1, t2, t3, t4}
    MaxRounds = 1
    MaxChunks = 1
    MaxPoolOps = 1
    CreateUnderLock = TRUE
    MayFail = TRUE
    MayForget = FALSE
SYMMETRY Symm
INVARIANTS TypeOK MutexOK OwnerOK Exclusive IdleDisjoint Conservation ReuseOK ReuseTight DataIntact
PROPERTIES DecideCreateOnlyWhenIdleEmpty CreatedOnlyWhenIdleEmpty BlocksOnlyForgottenByPoolOps ResetRewindsAll DropReleasesAll LeakedStayValid
