\* quick tier, poisoned pool mutex: 3 threads x 1 round per phase x 2 phases (one pool-wide reset), a get may panic inside its critical section (create branch); guard
\* drops, later gets and the drop of the pool must behave exactly as without the panic (every arena comes back, none is lost)
SPECIFICATION Spec
CONSTANTS
    Threads = {t1, t2, t3}
    MaxRounds = 1
    MaxChunks = 1
    MaxPoolOps = 1
    CreateUnderLock = TRUE
    MayFail = FALSE
    MayForget = FALSE
    MayPanic = TRUE
SYMMETRY Symm
INVARIANTS TypeOK MutexOK OwnerOK Exclusive IdleDisjoint Conservation ReuseOK ReuseTight DataIntact
PROPERTIES DecideCreateOnlyWhenIdleEmpty CreatedOnlyWhenIdleEmpty BlocksOnlyForgottenByPoolOps ResetRewindsAll DropReleasesAll LeakedStayValid
