\* EXPECTED TO FAIL: same variant as MC_Pool_outside.cfg, numeric form of the clause -- arenas ever created <= peak number of
\* simultaneous owners is refuted when the arena is created outside the critical section.
SPECIFICATION Spec
CONSTANTS
    Threads = {t1, t2}
    MaxRounds = 1
    MaxChunks = 1
    MaxPoolOps = 0
    CreateUnderLock = FALSE
    MayFail = FALSE
    MayForget = FALSE
    MayPanic = FALSE
INVARIANTS ReuseOK
