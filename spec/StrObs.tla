------------------------------- MODULE StrObs -------------------------------
(***************************************************************************)
(* C09 -- the contract, evaluated on every step recorded by harness/strs   *)
(* from the real string types (and from std::string::String).              *)
(*                                                                         *)
(* A record is one executed step:                                          *)
(*    ty   "box" | "fixed" | "bstr" | "mstr" | "std"                       *)
(*    m    the step as TLC emitted it: [op, pre, exp]                      *)
(*    pre  the OBSERVED string before the step (bytes, chars, cap, utf8)   *)
(*    o    the OBSERVED outcome: out ("ok" | "panic" | "err"), raw bytes   *)
(*         of the buffer, cap, returned values, other half of a split,     *)
(*         C string bytes                                                  *)
(* The expectation E is recomputed HERE by applying the operators of       *)
(* StrOps.tla (the ones TLC model-checked in MC_Str) to the observed       *)
(* pre-state and the operation; the harness computes nothing of it.        *)
(*                                                                         *)
(* Contract clauses (a failure is a VIOLATION of C09):                     *)
(*   utf8      the raw bytes of the buffer (and of a split-off part) are   *)
(*             valid UTF-8 after every step, panicked ones included        *)
(*             (validity is decided by StrOps!ValidUtf8, not by Rust)      *)
(*   out       panic / error exactly when the specification says so        *)
(*   contents  the bytes are the UTF-8 encoding of the expected string     *)
(*             (an expected panic leaves the string unchanged)             *)
(*   ret       returned values (popped / removed char, visited chars,      *)
(*             drained chars front/back/as_str, split-off part, Utf8Error) *)
(*   cstr      C string = text up to the first NUL + exactly one NUL       *)
(*   cap       len <= capacity                                             *)
(* Drift clauses (implementation-shaped detail the property does not       *)
(* promise; reported as MODEL-DRIFT, never as a violation):                *)
(*   d_retain  contents after a panicking retain predicate                 *)
(*   d_forget  contents after a leaked drain                               *)
(*   d_cap     capacity bookkeeping of fixed strings (split_off)           *)
(* Tool-error clauses (the tooling disagrees with itself):                 *)
(*   t_spec    TLC's emitted expectation differs from the recomputation    *)
(*   t_harness Rust's from_utf8 / chars disagree with StrOps!Decode        *)
(***************************************************************************)
EXTENDS StrOps, Json, IOUtils

VARIABLE done

Rec == ndJsonDeserialize(IOEnv.OBS)

CstrOps == {"into_cstr", "alloc_cstr", "alloc_cstr_from_str", "alloc_cstr_fmt", "alloc_cstr_fmt_mut"}

\* the capacity the specification reasons with: only FixedBumpString has one
CapOf(r, c) == IF r.ty = "fixed" THEN c ELSE INF

\* the expected result of the step, from the OBSERVED pre-state
Expected(r) ==
    LET op == r.m.op IN
    IF IsCtor(op)
    THEN ApplyCtor([op EXCEPT !.cap = IF r.ty = "fixed" /\ op.kind = "fixed" THEN op.cap ELSE INF], LitsDef)
    ELSE Apply([chars |-> r.pre.chars, cap |-> CapOf(r, r.pre.cap)], op, LitsDef)

\* what a specification outcome looks like from outside
ExpOut(e, op) ==
    CASE e.out = "full" -> IF op.name \in {"write_fmt", "fmt"} THEN "err"      \* fmt::Write reports fmt::Error
                           ELSE IF op.api = "t" THEN "err" ELSE "panic"
      [] OTHER -> e.out

Injected(op) == op.name = "retain" /\ op.pat > 0
Leaked(op)   == op.name = "drain" /\ op.endm = "forget"

Check(r) ==
    LET op == r.m.op
        o  == r.o
        e  == Expected(r)
        enc == Utf8Seq(e.chars)
        fixedCap == r.ty = "fixed" /\ ~(IsCtor(op) /\ op.kind # "fixed")
        outOk == o.out = ExpOut(e, op)
    IN
    \* ---- contract
       (IF ValidUtf8(o.bytes) /\ (o.xok => ValidUtf8(o.xbytes)) THEN {} ELSE {"utf8"})
    \cup (IF outOk THEN {} ELSE {"out"})
    \* (the remaining comparisons presuppose that the step ended the way the specification says)
    \cup (IF ~outOk \/ (Injected(op) /\ e.out = "panic") \/ (Leaked(op) /\ e.out = "ok") \/ o.bytes = enc
          THEN {} ELSE {"contents"})
    \cup (IF ~outOk \/
             CASE op.name \in {"pop", "remove", "retain"} -> o.ret = e.ret
               [] op.name = "drain" -> o.ret = e.ret /\ o.ret2 = e.ret2
               [] op.name = "split_off" -> (e.out = "ok") => (o.xok /\ o.xbytes = Utf8Seq(e.ret))
               [] op.name = "from_utf8" -> o.ret = e.ret /\ o.ret2 = e.ret2
               [] OTHER -> TRUE
          THEN {} ELSE {"ret"})
    \cup (IF ~outOk \/ ((op.name \in CstrOps /\ e.out = "ok") => (o.cok /\ o.cbytes = Utf8Seq(e.ret)))
          THEN {} ELSE {"cstr"})
    \cup (IF o.len <= o.cap \/ o.gone THEN {} ELSE {"cap"})
    \* ---- drift
    \cup (IF (outOk /\ Injected(op) /\ e.out = "panic") => o.bytes = enc THEN {} ELSE {"d_retain"})
    \cup (IF (outOk /\ Leaked(op) /\ e.out = "ok") => o.bytes = enc THEN {} ELSE {"d_forget"})
    \cup (IF (outOk /\ fixedCap /\ ~o.gone) => (o.cap = e.cap /\ (op.name = "split_off" => o.xcap = e.xcap))
          THEN {} ELSE {"d_cap"})
    \* ---- tooling
    \cup (IF (IsCtor(op) \/ (r.pre.chars = r.m.pre.chars /\ CapOf(r, r.pre.cap) = r.m.pre.cap))
                => (e.out = r.m.exp.out /\ e.chars = r.m.exp.chars /\ e.ret = r.m.exp.ret /\ e.ret2 = r.m.exp.ret2
                    /\ (r.ty = "fixed" /\ ~IsCtor(op) => e.cap = r.m.exp.cap))
          THEN {} ELSE {"t_spec"})
    \cup (IF o.utf8 = ValidUtf8(o.bytes) /\ (o.utf8 => Decode(o.bytes)[2] = o.chars) /\ o.len = Len(o.bytes)
          THEN {} ELSE {"t_harness"})

\* a step whose observed pre-state is not a string cannot be judged beyond "utf8" (the step that broke it was flagged)
Judge(r) == IF r.k > 0 /\ ~r.pre.utf8
            THEN (IF ValidUtf8(r.o.bytes) THEN {} ELSE {"utf8"}) \cup {"skipped"}
            ELSE Check(r)

N == Len(Rec)
Verdicts == {<<i, Judge(Rec[i])>> : i \in 1..N}
Fails    == {v \in Verdicts : v[2] # {}}

Names == {Rec[i].m.op.name : i \in 1..N}
CountName(n) == Cardinality({i \in 1..N : Rec[i].m.op.name = n})
Outs == {"ok", "panic", "err"}
CountOut(x) == Cardinality({i \in 1..N : Rec[i].o.out = x})

Init == /\ done = TRUE
        /\ PrintT(<<"CHECKED", N>>)
        /\ \A v \in Fails : PrintT(<<"FAIL", v[1], v[2]>>)
        /\ \A n \in Names : PrintT(<<"COUNT", n, CountName(n)>>)
        /\ \A x \in Outs : PrintT(<<"OUT", x, CountOut(x)>>)
        /\ PrintT(<<"PANICKED_UTF8_CHECKED", Cardinality({i \in 1..N : Rec[i].o.out = "panic"})>>)
Next == UNCHANGED done
Spec == Init /\ [][Next]_done
=============================================================================
