SPECIFICATION Spec
CONSTANTS
  Kinds = {"B", "F", "V", "M", "R"}
  ZstChoices = {FALSE, TRUE}
  KeyModes = {"pair", "same", "alt"}
  InitLens = {0, 1, 2, 3}
  InitSpare = {0, 2}
  MaxLen = 4
  MaxIds = 16
  MaxOps = 5
  MaxSlots = 3
  Inject = FALSE
  Ops = {"push", "insert", "remove", "pop", "pop_if", "truncate", "resize", "extend_from_slice", "extend_from_within", "extend", "append", "append_slot", "reserve", "shrink", "retain", "dedup", "drain", "extract_if", "splice", "into_iter", "map", "convert", "leak", "new", "flatten", "split_off", "split_at", "split_ends", "split_at_spare", "partition", "merge", "box_one", "observe"}
CHECK_DEADLOCK FALSE
INVARIANTS Emit
