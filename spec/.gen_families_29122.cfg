SPECIFICATION Spec
CONSTANTS
    Roots <- AllRoots
    MaxOpen = 1
    MaxMid = 2
    FamsFull <- AllFams
    FamsRep <- RepFams
    FullDepth = 1
    FullMid = 2
INVARIANT Emit
INVARIANT ReportHoles
CHECK_DEADLOCK FALSE
