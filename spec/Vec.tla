-------------------------------- MODULE Vec --------------------------------
(***************************************************************************)
(* Element-level semantics of the vector-like collections of bump-scope:   *)
(*   B = BumpBox<[T]>   F = FixedBumpVec<T>   V = BumpVec<T>                *)
(*   M = MutBumpVec<T>  R = MutBumpVecRev<T>  E = BumpBox<T> (one element)  *)
(*                                                                         *)
(* Elements are *ids* (1..MaxIds).  The state tracks, for every id, who    *)
(* owns it (a container slot, the caller, nobody because it was dropped,   *)
(* nobody because it went through an explicit leak route) and how often it *)
(* was dropped (a bag).  One action per public operation; every operation  *)
(* that runs user code (Clone, closures, predicates, iterator next, Drop)  *)
(* exists in the outcomes                                                  *)
(*     "ok"     normal return                                              *)
(*     "panic"  expected panic (bad index / range, full fixed vector, ...) *)
(*     "inj"    a panic injected at the pn-th invocation of the callback   *)
(*              kind pk ("clone" "closure" "pred" "next" "drop")           *)
(* and the specification says precisely which ids are dropped by it.       *)
(*                                                                         *)
(* Iterators (drain, extract_if, splice, into_iter) borrow or consume     *)
(* their container, so nothing else can happen to it while they live: an   *)
(* iterator is therefore ONE action whose parameters say how it is         *)
(* consumed (nf items from the front, nb from the back, number of next()   *)
(* calls) and how it ends (drop | mem::forget | keep_rest); the yielded    *)
(* ids go to the caller, the action defines what happens to the rest.      *)
(* Values returned to the caller stay in `held` until the closing phase.   *)
(*                                                                         *)
(* MutBumpVecRev is read through the mirror mapping: its model sequence is *)
(* the reverse of its slice, so push/pop/truncate/extend act at the END of *)
(* the model sequence exactly as for the other vectors.  Whenever a value  *)
(* crosses between an R container and a non-R container the sequence is    *)
(* reversed (into_boxed_slice, append from a slot).                        *)
(*                                                                         *)
(* Capacity: cap >= 0 exactly known (B: = len; F created with_capacity),   *)
(* cap = -1 unknown (only cap >= max(len, pr) is promised), cap = -2       *)
(* usize::MAX (zero sized elements).  pr is the capacity promised by       *)
(* with_capacity / reserve.  gen is the buffer generation: it changes      *)
(* exactly when the specification ALLOWS the buffer to be re-allocated.    *)
(*                                                                         *)
(* blk/off: memory position of a BumpBox<[T]> part (block id, offset in    *)
(* elements) so that merge knows which parts are contiguous; blk = 0 is    *)
(* the dangling empty slice (also what an empty allocation returns),       *)
(* blk = -1 an empty slice whose address the specification does not know   *)
(* (conversion of an empty vector): never offered to merge.                *)
(***************************************************************************)
EXTENDS Integers, Sequences, FiniteSets, TLC

CONSTANTS
    Kinds,        \* primary container kinds to explore, subset of {"B","F","V","M","R"}
    ZstChoices,   \* subset of BOOLEAN: element type zero sized or not
    KeyModes,     \* subset of {"alt","same","pair"}: how dedup keys are assigned to fresh ids
    InitLens,     \* set of initial lengths
    InitSpare,    \* set of spare capacities (cap = len + spare) of the primary container
    MaxLen,       \* bound on the length of any container
    MaxIds,       \* ids are 1..MaxIds
    MaxOps,       \* operations before the closing phase
    MaxSlots,     \* container slots
    Inject,       \* BOOLEAN: injected panics enabled
    Ops           \* enabled operation names (focus of a configuration)

VARIABLES
    cfg,      \* [kind, zst, km]  chosen in Init
    cs,       \* slot -> container record
    held,     \* ids owned by the caller (returned by remove/pop/iterators ...)
    dropped,  \* bag: id -> number of times its Drop ran
    made,     \* ids that were ever created
    leaked,   \* ids that left the drop obligation through an explicit leak route
    lossy,    \* a Drop implementation panicked in this behaviour
    key,      \* id -> dedup key
    next,     \* next fresh id
    nblk,     \* next fresh memory block id
    nops, phase,
    hist      \* history of steps (outside the VIEW)

vars == <<cfg, cs, held, dropped, made, leaked, lossy, key, next, nblk, nops, phase, hist>>
view == <<cfg, cs, held, dropped, made, leaked, lossy, key, next, nblk, nops, phase>>

Ids   == 1..MaxIds
Slots == 1..MaxSlots

-----------------------------------------------------------------------------
(* sequences *)
Rev(s)      == [i \in 1..Len(s) |-> s[Len(s) + 1 - i]]
Take(s, n)  == SubSeq(s, 1, n)
DropN(s, n) == SubSeq(s, n + 1, Len(s))
Range(s)    == {s[i] : i \in 1..Len(s)}
Count(s, x) == Cardinality({i \in 1..Len(s) : s[i] = x})
NoDup(s)    == \A i, j \in 1..Len(s) : i # j => s[i] # s[j]
Max(a, b)   == IF a >= b THEN a ELSE b
Min(a, b)   == IF a <= b THEN a ELSE b
RECURSIVE Flat(_)
Flat(ss)    == IF ss = <<>> THEN <<>> ELSE Head(ss) \o Flat(Tail(ss))
RECURSIVE SetToSeq(_)
SetToSeq(S) == IF S = {} THEN <<>>
               ELSE LET m == CHOOSE x \in S : \A y \in S : x <= y IN <<m>> \o SetToSeq(S \ {m})
\* index of the n-th element of s satisfying membership in P (n >= 1 and enough such elements)
RECURSIVE NthIn(_, _, _, _)
NthIn(s, P, n, i) == IF s[i] \in P THEN (IF n = 1 THEN i ELSE NthIn(s, P, n - 1, i + 1)) ELSE NthIn(s, P, n, i + 1)
In(s, P)    == SelectSeq(s, LAMBDA x : x \in P)
NotIn(s, P) == SelectSeq(s, LAMBDA x : x \notin P)

-----------------------------------------------------------------------------
(* containers *)
NoCont == [k |-> "-", v |-> <<>>, cap |-> 0, pr |-> 0, gen |-> 0, blk |-> 0, off |-> 0]
Live(i)   == cs[i].k # "-"
LiveSlots == {i \in Slots : Live(i)}
FreeSlots == {i \in Slots : ~Live(i)}
LowFree   == CHOOSE i \in FreeSlots : \A j \in FreeSlots : i <= j

Growable == {"F", "V", "M", "R"}       \* push insert resize extend append reserve
SliceAlg == {"B", "F", "V", "M"}       \* retain dedup drain extract_if map_in_place (BumpBox<[T]> algorithms)
Splittable == {"B", "F", "V"}          \* split_off
Dyn == {"V", "M", "R"}

Zst == cfg.zst
\* capacity of a freshly created container of kind k with room for n elements
NewCap(k, n) == IF k = "B" THEN n ELSE IF Zst THEN -2 ELSE IF k = "F" THEN n ELSE -1
\* B: cap is the length
Norm(c) == IF c.k \in {"B", "E"} THEN [c EXCEPT !.cap = Len(c.v), !.pr = 0] ELSE c
CapKnown(c) == c.cap # -1
\* would `need` more elements overflow a fixed vector ?
Full(c, need) == c.k = "F" /\ c.cap >= 0 /\ Len(c.v) + need > c.cap
\* state-space bound on growth (a full fixed vector may always be *tried*)
Room(c, need) == Len(c.v) + need <= MaxLen \/ Full(c, need)
\* after an in-place operation that needs `newlen` elements: may the buffer move ?
Moved(c, newlen) == newlen > Max(Len(c.v), IF c.cap >= 0 THEN c.cap ELSE c.pr) /\ c.cap # -2
\* new contents nv after an operation that asked for room for `need` elements in total
GrownTo(c, nv, need) == [c EXCEPT !.v = nv, !.gen = IF Moved(c, need) THEN c.gen + 1 ELSE c.gen,
                                  \* a growable vector whose exact capacity was known grows to an unknown capacity
                                  !.cap = IF c.k \in Dyn /\ c.cap >= 0 /\ need > c.cap THEN -1 ELSE c.cap]
Grown(c, nv) == GrownTo(c, nv, Len(nv))

AllOwned == Flat([i \in Slots |-> cs[i].v]) \o SetToSeq(held)
OwnedSet == Range(AllOwned)

FreshOk(n) == next + n - 1 <= MaxIds
Fresh(n)   == [i \in 1..n |-> next + i - 1]
DefaultKey(km, id) == CASE km = "alt" -> id % 2 [] km = "same" -> 0 [] OTHER -> (id \div 2) % 2

-----------------------------------------------------------------------------
(* effects and steps *)
S0 == [op |-> "", c |-> 0, d |-> 0, i |-> 0, j |-> 0, xs |-> <<>>, ps |-> <<>>, bs |-> <<>>, s |-> "",
       pk |-> "", pn |-> 0]
E0 == [out |-> "ok", cs |-> cs, ret |-> <<>>, hl |-> {}, dr |-> <<>>, cr |-> {}, lk |-> {}, lossy |-> FALSE,
       nf |-> 0, key |-> key, nb |-> 0, inv |-> {}, sp |-> FALSE, num |-> <<>>, cl |-> <<>>]

InPlaceOps == {"push", "push_with", "insert", "remove", "swap_remove", "pop", "pop_if", "truncate", "clear", "resize",
               "resize_with", "extend_from_slice_clone", "extend_from_within_clone", "extend", "append", "append_slot",
               "reserve", "reserve_exact", "retain", "dedup", "dedup_by", "dedup_by_key", "drain", "extract_if", "splice",
               "observe"}

\* projection of the post-state carried to the harness / observation checker
ProjCont(c) == [k |-> c.k, v |-> c.v, cap |-> c.cap, pr |-> c.pr]
Exp(step, e) ==
    [out |-> e.out, ret |-> e.ret, cs |-> [i \in Slots |-> ProjCont(e.cs[i])], dr |-> e.dr, cr |-> SetToSeq(e.cr),
     lk |-> SetToSeq(e.lk), lossy |-> e.lossy, inv |-> SetToSeq(e.inv), sp |-> e.sp, num |-> e.num,
     \* cl: which element every clone was made from: <<source id, clone id>>
     cl |-> e.cl,
     \* st: the buffer of the target slot must not have moved (in-place operation within promise / fixed capacity)
     st |-> step.op \in InPlaceOps /\ step.c > 0 /\ e.cs[step.c].k # "-" /\ e.cs[step.c].gen = cs[step.c].gen,
     held |-> SetToSeq(held \cup e.hl)]

Commit(step, e) ==
    /\ cs' = e.cs
    /\ held' = held \cup e.hl
    /\ dropped' = [i \in Ids |-> dropped[i] + Count(e.dr, i)]
    /\ made' = made \cup e.cr
    /\ leaked' = leaked \cup e.lk
    /\ lossy' = (lossy \/ e.lossy)
    /\ key' = e.key
    /\ next' = next + e.nf
    /\ nblk' = nblk + e.nb
    /\ nops' = nops + 1
    /\ hist' = Append(hist, step @@ [e |-> Exp(step, e)])
    /\ UNCHANGED <<cfg, phase>>

\* the possible injection points of an operation whose normal execution makes `n` callbacks of kind `kind`
Inj(kind, n) == IF Inject THEN {<<kind, m>> : m \in 1..n} ELSE {}
NoInj == {<<"", 0>>}

Running == phase = "run" /\ nops < MaxOps
On(op)  == op \in Ops
Put(i, c) == [cs EXCEPT ![i] = Norm(c)]

-----------------------------------------------------------------------------
(* INITIAL STATES: the primary container in slot 1 *)
Init ==
    \E k \in Kinds, z \in ZstChoices, km \in KeyModes, n \in InitLens, sp \in InitSpare :
        /\ n <= MaxLen /\ n <= MaxIds
        /\ cfg = [kind |-> k, zst |-> z, km |-> km, n |-> n, spare |-> IF k = "B" THEN 0 ELSE sp]
        /\ cs = [i \in Slots |->
                    IF i = 1 THEN [k |-> k, v |-> [x \in 1..n |-> x],
                                   cap |-> IF k = "B" THEN n ELSE IF z THEN -2 ELSE IF k = "F" THEN n + sp ELSE -1,
                                   pr |-> IF k = "B" THEN 0 ELSE n + sp, gen |-> 0, blk |-> IF n = 0 THEN 0 ELSE 1, off |-> 0]
                    ELSE NoCont]
        /\ held = {} /\ dropped = [i \in Ids |-> 0] /\ made = 1..n /\ leaked = {} /\ lossy = FALSE
        /\ key = [i \in Ids |-> DefaultKey(km, i)]
        /\ next = n + 1 /\ nblk = 2 /\ nops = 0 /\ phase = "run" /\ hist = <<>>

-----------------------------------------------------------------------------
(* push / push_with / insert *)
Push ==
    /\ Running /\ On("push") /\ FreshOk(1)
    /\ \E c \in LiveSlots, w \in {"push", "push_with"} :
        LET C == cs[c]  x == next IN
        /\ C.k \in Growable /\ (C.k = "F" => CapKnown(C))
        /\ Room(C, 1)
        /\ \E p \in NoInj \cup (IF w = "push_with" /\ ~Full(C, 1) THEN Inj("closure", 1) ELSE {}) :
            LET st == [op |-> w, c |-> c, xs |-> <<x>>, pk |-> p[1], pn |-> p[2]] @@ S0
                e == IF Full(C, 1)
                     THEN \* push: the value is dropped by the unwinding; push_with: the closure never runs
                          IF w = "push" THEN [out |-> "panic", dr |-> <<x>>, cr |-> {x}, nf |-> 1] @@ E0
                                        ELSE [out |-> "panic", nf |-> 1] @@ E0
                     ELSE IF p[1] = "closure"
                     THEN \* room was reserved (the buffer may have moved), the closure panicked: nothing stored
                          [out |-> "inj", nf |-> 1, cs |-> Put(c, GrownTo(C, C.v, Len(C.v) + 1))] @@ E0
                     ELSE [cs |-> Put(c, Grown(C, Append(C.v, x))), cr |-> {x}, nf |-> 1] @@ E0
            IN Commit(st, e)

Insert ==
    /\ Running /\ On("insert") /\ FreshOk(1)
    /\ \E c \in LiveSlots :
        LET C == cs[c]  x == next  n == Len(C.v) IN
        /\ C.k \in Growable /\ (C.k = "F" => CapKnown(C))
        /\ Room(C, 1)
        /\ \E i \in 0..(n + 1) :
            LET st == [op |-> "insert", c |-> c, i |-> i, xs |-> <<x>>] @@ S0
                e == IF i > n \/ Full(C, 1)
                     THEN [out |-> "panic", dr |-> <<x>>, cr |-> {x}, nf |-> 1] @@ E0
                     ELSE [cs |-> Put(c, Grown(C, Take(C.v, i) \o <<x>> \o DropN(C.v, i))), cr |-> {x}, nf |-> 1] @@ E0
            IN Commit(st, e)

(* remove / swap_remove / pop / pop_if *)
Remove ==
    /\ Running /\ On("remove")
    /\ \E c \in LiveSlots, w \in {"remove", "swap_remove"} :
        LET C == cs[c]  n == Len(C.v) IN
        /\ C.k \in Growable \cup {"B"}
        /\ \E i \in 0..n :
            LET st == [op |-> w, c |-> c, i |-> i] @@ S0
                nv == IF w = "remove" THEN Take(C.v, i) \o DropN(C.v, i + 1)
                      ELSE IF i = n - 1 THEN Take(C.v, n - 1)
                      ELSE Take([C.v EXCEPT ![i + 1] = C.v[n]], n - 1)
                e == IF i >= n THEN [out |-> "panic"] @@ E0
                     ELSE [cs |-> Put(c, [C EXCEPT !.v = nv]), ret |-> <<C.v[i + 1]>>, hl |-> {C.v[i + 1]}] @@ E0
            IN Commit(st, e)

Pop ==
    /\ Running /\ On("pop")
    /\ \E c \in LiveSlots :
        LET C == cs[c]  n == Len(C.v) IN
        /\ C.k \in Growable \cup {"B"}
        /\ LET st == [op |-> "pop", c |-> c] @@ S0
               e == IF n = 0 THEN E0
                    ELSE [cs |-> Put(c, [C EXCEPT !.v = Take(C.v, n - 1)]), ret |-> <<C.v[n]>>, hl |-> {C.v[n]}] @@ E0
           IN Commit(st, e)

PopIf ==
    /\ Running /\ On("pop_if")
    /\ \E c \in LiveSlots, b \in BOOLEAN :
        LET C == cs[c]  n == Len(C.v) IN
        /\ C.k \in Growable
        /\ \E p \in NoInj \cup (IF n > 0 THEN Inj("pred", 1) ELSE {}) :
            LET st == [op |-> "pop_if", c |-> c, bs |-> <<b>>, ps |-> IF b /\ n > 0 THEN <<C.v[n]>> ELSE <<>>,
                       pk |-> p[1], pn |-> p[2]] @@ S0
                e == IF p[1] = "pred" THEN [out |-> "inj"] @@ E0
                     ELSE IF n = 0 \/ ~b THEN E0
                     ELSE [cs |-> Put(c, [C EXCEPT !.v = Take(C.v, n - 1)]), ret |-> <<C.v[n]>>, hl |-> {C.v[n]}] @@ E0
            IN Commit(st, e)

(* truncate / clear: the tail is dropped; a panicking Drop does not stop the others *)
Truncate ==
    /\ Running /\ On("truncate")
    /\ \E c \in LiveSlots, w \in {"truncate", "clear"} :
        LET C == cs[c]  n == Len(C.v) IN
        /\ C.k \in Growable \cup {"B"}
        /\ \E m \in (IF w = "clear" THEN {0} ELSE 0..(n + 1)) :
            LET gone == IF m >= n THEN <<>> ELSE DropN(C.v, m) IN
            \E p \in NoInj \cup Inj("drop", Len(gone)) :
                LET st == [op |-> w, c |-> c, i |-> m, pk |-> p[1], pn |-> p[2]] @@ S0
                    e == [out |-> IF p[1] = "" THEN "ok" ELSE "inj", lossy |-> p[1] # "",
                          cs |-> Put(c, [C EXCEPT !.v = Take(C.v, Min(m, n))]), dr |-> gone] @@ E0
                IN Commit(st, e)

(* resize(n, value) / resize_with(n, f) *)
Resize ==
    /\ Running /\ On("resize")
    /\ \E c \in LiveSlots, w \in {"resize", "resize_with"}, m \in 0..MaxLen + 1 :
        LET C == cs[c]  n == Len(C.v)
            add == m - n                                   \* > 0: grow
            nfr == IF w = "resize" THEN (IF add > 0 THEN add ELSE 1) ELSE (IF add > 0 THEN add ELSE 0)
            f == Fresh(nfr)
            \* resize: f[1] is the value passed in, f[2..] are its clones (stored first), the value is stored last
            val == f[1]
        IN
        /\ C.k \in Growable /\ (C.k = "F" => CapKnown(C)) /\ FreshOk(nfr)
        /\ (m <= MaxLen \/ Full(C, add))
        /\ IF add > 0 /\ Full(C, add)
           THEN Commit([op |-> w, c |-> c, i |-> m, xs |-> f] @@ S0,
                       IF w = "resize" THEN [out |-> "panic", dr |-> <<val>>, cr |-> {val}, nf |-> nfr] @@ E0
                                       ELSE [out |-> "panic", nf |-> nfr] @@ E0)
           ELSE IF add > 0
           THEN \E p \in NoInj \cup (IF w = "resize" THEN Inj("clone", add - 1) ELSE Inj("closure", add)) :
                LET st == [op |-> w, c |-> c, i |-> m, xs |-> f, pk |-> p[1], pn |-> p[2]] @@ S0
                    clones == DropN(f, 1)
                    e == IF w = "resize"
                         THEN IF p[1] = "clone"
                              THEN \* pn-1 clones stored, the value dropped by unwinding
                                   [out |-> "inj", cs |-> Put(c, GrownTo(C, C.v \o Take(clones, p[2] - 1), m)),
                                    dr |-> <<val>>, cr |-> {val} \cup Range(Take(clones, p[2] - 1)),
                                    cl |-> [q \in 1..(p[2] - 1) |-> <<val, clones[q]>>],
                                    key |-> [id \in Ids |-> IF id \in Range(f) THEN key[val] ELSE key[id]], nf |-> nfr] @@ E0
                              ELSE [cs |-> Put(c, Grown(C, C.v \o clones \o <<val>>)), cr |-> Range(f),
                                    cl |-> [q \in 1..Len(clones) |-> <<val, clones[q]>>],
                                    key |-> [id \in Ids |-> IF id \in Range(f) THEN key[val] ELSE key[id]], nf |-> nfr] @@ E0
                         ELSE IF p[1] = "closure"
                              THEN [out |-> "inj", cs |-> Put(c, GrownTo(C, C.v \o Take(f, p[2] - 1), m)),
                                    cr |-> Range(Take(f, p[2] - 1)), nf |-> nfr] @@ E0
                              ELSE [cs |-> Put(c, Grown(C, C.v \o f)), cr |-> Range(f), nf |-> nfr] @@ E0
                IN Commit(st, e)
           ELSE \* shrink (or same length): truncate, then (resize) the unused value is dropped
                LET gone == DropN(C.v, m) \o (IF w = "resize" THEN <<val>> ELSE <<>>) IN
                \E p \in NoInj \cup Inj("drop", Len(gone)) :
                    Commit([op |-> w, c |-> c, i |-> m, xs |-> f, pk |-> p[1], pn |-> p[2]] @@ S0,
                           [out |-> IF p[1] = "" THEN "ok" ELSE "inj", lossy |-> p[1] # "",
                            cs |-> Put(c, [C EXCEPT !.v = Take(C.v, m)]), dr |-> gone,
                            cr |-> IF w = "resize" THEN {val} ELSE {}, nf |-> nfr] @@ E0)

(* extend_from_slice_clone(&[T]) : the source slice is owned (and afterwards dropped) by the caller *)
ExtendSlice ==
    /\ Running /\ On("extend_from_slice")
    /\ \E c \in LiveSlots, m \in 0..2 :
        LET C == cs[c]  f == Fresh(2 * m)  src == Take(f, m)  cl == DropN(f, m) IN
        /\ C.k \in Growable /\ (C.k = "F" => CapKnown(C)) /\ FreshOk(2 * m) /\ Room(C, m)
        /\ \E p \in NoInj \cup (IF Full(C, m) THEN {} ELSE Inj("clone", m)) :
            LET st == [op |-> "extend_from_slice_clone", c |-> c, xs |-> src, ps |-> cl, pk |-> p[1], pn |-> p[2]] @@ S0
                kk == [id \in Ids |-> IF id \in Range(cl) THEN key[id - m] ELSE key[id]]
                e == IF Full(C, m) THEN [out |-> "panic", dr |-> src, cr |-> Range(src), nf |-> 2 * m] @@ E0
                     ELSE IF p[1] = "clone"
                     THEN [out |-> "inj", cs |-> Put(c, GrownTo(C, C.v \o Take(cl, p[2] - 1), Len(C.v) + m)), dr |-> src,
                           cl |-> [q \in 1..(p[2] - 1) |-> <<src[q], cl[q]>>],
                           cr |-> Range(src) \cup Range(Take(cl, p[2] - 1)), key |-> kk, nf |-> 2 * m] @@ E0
                     ELSE [cs |-> Put(c, Grown(C, C.v \o cl)), dr |-> src, cr |-> Range(f), key |-> kk, nf |-> 2 * m,
                           cl |-> [q \in 1..m |-> <<src[q], cl[q]>>]] @@ E0
            IN Commit(st, e)

(* extend_from_within_clone(a..b) *)
ExtendWithin ==
    /\ Running /\ On("extend_from_within")
    /\ \E c \in LiveSlots :
        LET C == cs[c]  n == Len(C.v) IN
        /\ C.k \in Growable /\ (C.k = "F" => CapKnown(C))
        /\ \E a \in 0..(n + 1), b \in 0..(n + 1) :
            LET bad == a > b \/ b > n
                m == IF bad THEN 0 ELSE b - a
                cl == Fresh(m)
                src == IF bad THEN <<>> ELSE SubSeq(C.v, a + 1, b)
                kk == [id \in Ids |-> IF id \in Range(cl) THEN key[src[id - next + 1]] ELSE key[id]]
            IN
            /\ FreshOk(m) /\ Room(C, m)
            /\ \E p \in NoInj \cup (IF bad \/ Full(C, m) THEN {} ELSE Inj("clone", m)) :
                LET st == [op |-> "extend_from_within_clone", c |-> c, i |-> a, j |-> b, xs |-> cl,
                           pk |-> p[1], pn |-> p[2]] @@ S0
                    e == IF bad \/ Full(C, m) THEN [out |-> "panic", nf |-> m] @@ E0
                         ELSE IF p[1] = "clone"
                         THEN [out |-> "inj", cs |-> Put(c, GrownTo(C, C.v \o Take(cl, p[2] - 1), n + m)),
                               cr |-> Range(Take(cl, p[2] - 1)), key |-> kk, nf |-> m,
                               cl |-> [q \in 1..(p[2] - 1) |-> <<src[q], cl[q]>>]] @@ E0
                         ELSE [cs |-> Put(c, Grown(C, C.v \o cl)), cr |-> Range(cl), key |-> kk, nf |-> m,
                               cl |-> [q \in 1..m |-> <<src[q], cl[q]>>]] @@ E0
                IN Commit(st, e)

(* extend(iter): iterator with lower size hint h producing fresh ids *)
ExtendIter ==
    /\ Running /\ On("extend")
    /\ \E c \in LiveSlots, m \in 0..2, h \in 0..2 :
        LET C == cs[c]  n == Len(C.v)  f == Fresh(m) IN
        /\ C.k \in Growable /\ (C.k = "F" => CapKnown(C)) /\ FreshOk(m) /\ Room(C, m)      \* h # m: a lying size_hint
        \* the iterator's next() is called m+1 times in a normal run (the last call returns None)
        /\ \E p \in NoInj \cup (IF Full(C, h) THEN {} ELSE Inj("next", IF Full(C, m) THEN C.cap - n + 1 ELSE m + 1)) :
            LET st == [op |-> "extend", c |-> c, i |-> h, xs |-> f, pk |-> p[1], pn |-> p[2]] @@ S0
                fit == IF Full(C, m) THEN C.cap - n ELSE m      \* how many can be pushed
                e == IF Full(C, h) THEN [out |-> "panic", nf |-> m] @@ E0     \* reserve(h) refused
                     ELSE IF p[1] = "next"
                     THEN [out |-> "inj", cs |-> Put(c, GrownTo(C, C.v \o Take(f, p[2] - 1), n + Max(h, p[2] - 1))),
                           cr |-> Range(Take(f, p[2] - 1)), nf |-> m] @@ E0
                     ELSE IF Full(C, m)
                     THEN \* the push of element fit+1 fails: it was created by the iterator and is dropped
                          [out |-> "panic", cs |-> Put(c, GrownTo(C, C.v \o Take(f, fit), n + Max(h, fit))), dr |-> <<f[fit + 1]>>,
                           cr |-> Range(Take(f, fit + 1)), nf |-> m] @@ E0
                     ELSE [cs |-> Put(c, GrownTo(C, C.v \o f, n + Max(h, m))), cr |-> Range(f), nf |-> m] @@ E0
            IN Commit(st, e)

(* append(owned slice): the source (built by the caller from fresh ids) is emptied; sk = source kind *)
SrcKinds == {"arr", "vec", "vecmut", "box", "bb", "fixed", "bvec", "viter", "vdrain", "odrain", "oiter"}
Append_ ==
    /\ Running /\ On("append")
    /\ \E c \in LiveSlots, m \in 0..2, sk \in SrcKinds :
        LET C == cs[c]  f == Fresh(m) IN
        /\ C.k \in Growable /\ (C.k = "F" => CapKnown(C)) /\ FreshOk(m) /\ Room(C, m)
        /\ LET st == [op |-> "append", c |-> c, xs |-> f, s |-> sk] @@ S0
               byref == sk \in {"vecmut", "bb", "fixed", "vdrain", "odrain"}   \* the caller can look at the source afterwards
               e == IF Full(C, m) THEN [out |-> "panic", dr |-> f, cr |-> Range(f), nf |-> m] @@ E0
                    ELSE [cs |-> Put(c, Grown(C, C.v \o f)), cr |-> Range(f), nf |-> m,
                          num |-> IF byref THEN <<0>> ELSE <<>>] @@ E0
           IN Commit(st, e)

\* append(&mut other container): slot d is emptied but stays alive
AppendSlot ==
    /\ Running /\ On("append_slot")
    /\ \E c \in LiveSlots, d \in LiveSlots :
        LET C == cs[c]  D == cs[d]  m == Len(D.v)
            moved == IF (C.k = "R") # (D.k = "R") THEN Rev(D.v) ELSE D.v IN
        /\ c # d /\ C.k \in Growable /\ (C.k = "F" => CapKnown(C)) /\ D.k \in {"B", "F", "V", "M", "R"}
        /\ Room(C, m)
        /\ LET st == [op |-> "append_slot", c |-> c, d |-> d] @@ S0
               e == IF Full(C, m) THEN [out |-> "panic", inv |-> {c, d}] @@ E0
                    ELSE [cs |-> [cs EXCEPT ![c] = Norm(Grown(C, C.v \o moved)), ![d] = Norm([D EXCEPT !.v = <<>>])],
                          inv |-> {c, d}] @@ E0
           IN Commit(st, e)

(* reserve / reserve_exact / shrink_to_fit / shrink_to *)
Reserve ==
    /\ Running /\ On("reserve")
    /\ \E c \in LiveSlots, w \in {"reserve", "reserve_exact"}, a \in 0..3 :
        LET C == cs[c]  n == Len(C.v) IN
        /\ C.k \in Growable /\ (C.k = "F" => CapKnown(C) /\ w = "reserve")
        /\ LET st == [op |-> w, c |-> c, i |-> a] @@ S0
               e == IF Full(C, a) THEN [out |-> "panic"] @@ E0
                    ELSE IF C.k = "F" THEN E0
                    ELSE [cs |-> Put(c, [GrownTo(C, C.v, n + a) EXCEPT !.pr = Max(C.pr, n + a)])] @@ E0
           IN Commit(st, e)

Shrink ==
    /\ Running /\ On("shrink")
    /\ \E c \in LiveSlots, a \in {-1, 0, 1, 2, 4} :    \* -1 = shrink_to_fit
        LET C == cs[c]  n == Len(C.v) IN
        /\ C.k = "V"
        /\ LET st == [op |-> IF a < 0 THEN "shrink_to_fit" ELSE "shrink_to", c |-> c, i |-> Max(a, 0)] @@ S0
               npr == IF a < 0 THEN Min(C.pr, n) ELSE Min(C.pr, Max(n, a))
               e == [cs |-> Put(c, [C EXCEPT !.pr = npr, !.gen = IF C.cap = -2 THEN C.gen ELSE C.gen + 1])] @@ E0
           IN Commit(st, e)

-----------------------------------------------------------------------------
(* retain(pred): P = the ids the predicate accepts *)
Retain ==
    /\ Running /\ On("retain")
    /\ \E c \in LiveSlots :
        LET C == cs[c]  v == C.v  n == Len(v) IN
        /\ C.k \in SliceAlg
        /\ \E P \in SUBSET Range(v) :
            LET nfalse == Len(NotIn(v, P)) IN
            \E p \in NoInj \cup Inj("pred", n) \cup Inj("drop", nfalse) :
                LET st == [op |-> "retain", c |-> c, ps |-> In(v, P), bs |-> [i \in 1..n |-> v[i] \in P],
                           pk |-> p[1], pn |-> p[2]] @@ S0
                    e == IF p[1] = "pred"
                         THEN LET pre == Take(v, p[2] - 1) IN
                              [out |-> "inj", cs |-> Put(c, [C EXCEPT !.v = In(pre, P) \o DropN(v, p[2] - 1)]),
                               dr |-> NotIn(pre, P)] @@ E0
                         ELSE IF p[1] = "drop"
                         THEN LET q == NthIn(v, Range(v) \ P, p[2], 1) IN
                              [out |-> "inj", lossy |-> TRUE,
                               cs |-> Put(c, [C EXCEPT !.v = In(Take(v, q - 1), P) \o DropN(v, q)]),
                               dr |-> NotIn(Take(v, q), P)] @@ E0
                         ELSE [cs |-> Put(c, [C EXCEPT !.v = In(v, P)]), dr |-> NotIn(v, P)] @@ E0
                IN Commit(st, e)

(* dedup_by(same_bucket) / dedup_by_key(key) / dedup(): consecutive equal keys collapse onto the first *)
RECURSIVE DedupKept(_, _, _)
DedupKept(v, i, kept) ==
    IF i > Len(v) THEN kept
    ELSE IF key[v[i]] = key[kept[Len(kept)]] THEN DedupKept(v, i + 1, kept) ELSE DedupKept(v, i + 1, Append(kept, v[i]))
DKept(v) == IF Len(v) <= 1 THEN v ELSE DedupKept(v, 2, <<v[1]>>)
DDups(v) == NotIn(v, Range(DKept(v)))
\* verdict of the (i-1)-th same_bucket call, i.e. when element i is read
DVerdicts(v) == [i \in 1..(Len(v) - 1) |-> v[i + 1] \notin Range(DKept(v))]
Dedup ==
    /\ Running /\ On("dedup")
    /\ \E c \in LiveSlots, w \in {"dedup_by", "dedup_by_key", "dedup"} :
        LET C == cs[c]  v == C.v  n == Len(v)  ncmp == IF n <= 1 THEN 0 ELSE n - 1 IN
        /\ C.k \in SliceAlg
        /\ \E p \in NoInj \cup (IF w = "dedup_by" THEN Inj("pred", ncmp) ELSE {}) \cup Inj("drop", Len(DDups(v))) :
            LET st == [op |-> w, c |-> c, bs |-> IF n <= 1 THEN <<>> ELSE DVerdicts(v), pk |-> p[1], pn |-> p[2]] @@ S0
                e == IF p[1] = "pred"
                     THEN \* the pn-th comparison reads element pn+1
                          LET pre == Take(v, p[2]) IN
                          [out |-> "inj", cs |-> Put(c, [C EXCEPT !.v = DKept(pre) \o DropN(v, p[2])]),
                           dr |-> DDups(pre)] @@ E0
                     ELSE IF p[1] = "drop"
                     THEN LET q == NthIn(v, Range(DDups(v)), p[2], 1) IN
                          [out |-> "inj", lossy |-> TRUE,
                           cs |-> Put(c, [C EXCEPT !.v = DKept(Take(v, q - 1)) \o DropN(v, q)]),
                           dr |-> DDups(Take(v, q))] @@ E0
                     ELSE [cs |-> Put(c, [C EXCEPT !.v = DKept(v)]), dr |-> DDups(v)] @@ E0
            IN Commit(st, e)

(* drain(a..b), nf items taken from the front, nb from the back, then
   fin = "drop" | "forget" (mem::forget: explicit leak route) | "keep" (keep_rest) *)
Drain ==
    /\ Running /\ On("drain")
    /\ \E c \in LiveSlots :
        LET C == cs[c]  v == C.v  n == Len(v) IN
        /\ C.k \in SliceAlg
        /\ \E a \in 0..(n + 1), b \in 0..(n + 1) :
            LET bad == a > b \/ b > n IN
            IF bad
            THEN Commit([op |-> "drain", c |-> c, i |-> a, j |-> b, s |-> "drop"] @@ S0, [out |-> "panic"] @@ E0)
            ELSE \E nf \in 0..(b - a), fin \in {"drop", "forget", "keep"} : \E nb \in 0..(b - a - nf) :
                LET rng == SubSeq(v, a + 1, b)
                    yl == Take(rng, nf) \o Rev(DropN(rng, Len(rng) - nb))
                    mid == SubSeq(rng, nf + 1, Len(rng) - nb)
                    head == Take(v, a)  tail == DropN(v, b)
                IN
                \E p \in NoInj \cup (IF fin = "drop" THEN Inj("drop", Len(mid)) ELSE {}) :
                    LET st == [op |-> "drain", c |-> c, i |-> a, j |-> b, xs |-> <<nf, nb>>, s |-> fin,
                               pk |-> p[1], pn |-> p[2]] @@ S0
                        e == CASE fin = "drop" ->
                                    [out |-> IF p[1] = "" THEN "ok" ELSE "inj", lossy |-> p[1] # "",
                                     cs |-> Put(c, [C EXCEPT !.v = head \o tail]), ret |-> yl, hl |-> Range(yl),
                                     dr |-> mid] @@ E0
                               [] fin = "forget" ->
                                    [cs |-> Put(c, [C EXCEPT !.v = head]), ret |-> yl, hl |-> Range(yl),
                                     lk |-> Range(mid) \cup Range(tail)] @@ E0
                               [] OTHER ->
                                    [cs |-> Put(c, [C EXCEPT !.v = head \o mid \o tail]), ret |-> yl, hl |-> Range(yl)] @@ E0
                    IN Commit(st, e)

(* extract_if(pred), `cnt` calls of next(), then drop *)
ExtractIf ==
    /\ Running /\ On("extract_if")
    /\ \E c \in LiveSlots :
        LET C == cs[c]  v == C.v  n == Len(v) IN
        /\ C.k \in SliceAlg
        /\ \E P \in SUBSET Range(v) :
            LET trues == In(v, P)  nt == Len(trues) IN
            \E cnt \in 0..(nt + 1) :
                LET visited == IF cnt = 0 THEN 0 ELSE IF cnt > nt THEN n ELSE NthIn(v, P, cnt, 1) IN
                \E p \in NoInj \cup Inj("pred", visited) :
                    LET st == [op |-> "extract_if", c |-> c, i |-> cnt, ps |-> trues, bs |-> [i \in 1..n |-> v[i] \in P],
                               pk |-> p[1], pn |-> p[2]] @@ S0
                        vis == IF p[1] = "pred" THEN p[2] - 1 ELSE visited
                        yl == In(Take(v, vis), P)
                        e == [out |-> IF p[1] = "" THEN "ok" ELSE "inj",
                              cs |-> Put(c, [C EXCEPT !.v = NotIn(Take(v, vis), P) \o DropN(v, vis)]),
                              ret |-> yl, hl |-> Range(yl)] @@ E0
                    IN Commit(st, e)

(* splice(a..b, iter of fresh ids) [BumpVec], nf items of the removed range consumed, then drop *)
Splice ==
    /\ Running /\ On("splice")
    /\ \E c \in LiveSlots :
        LET C == cs[c]  v == C.v  n == Len(v) IN
        /\ C.k = "V"
        /\ \E a \in 0..(n + 1), b \in 0..(n + 1), m \in 0..2, hint \in {"exact", "zero"} :
            LET bad == a > b \/ b > n  f == Fresh(m) IN
            /\ FreshOk(m)
            /\ IF bad
               THEN Commit([op |-> "splice", c |-> c, i |-> a, j |-> b, xs |-> f, s |-> hint] @@ S0, [out |-> "panic", nf |-> m] @@ E0)
               ELSE /\ n - (b - a) + m <= MaxLen
                    /\ \E nf \in 0..(b - a) :
                        LET rng == SubSeq(v, a + 1, b)
                            yl == Take(rng, nf)  rest == DropN(rng, nf)
                            nv == Take(v, a) \o f \o DropN(v, b)
                        IN
                        \* the replacement iterator's next() is called m+1 times (the last call returns None)
                        \E p \in NoInj \cup Inj("drop", Len(rest)) \cup Inj("next", m + 1) :
                            Commit([op |-> "splice", c |-> c, i |-> a, j |-> b, xs |-> f, ps |-> <<nf>>, s |-> hint,
                                    pk |-> p[1], pn |-> p[2]] @@ S0,
                                   IF p[1] = "drop"
                                   THEN \* a Drop of the removed range panics inside Splice::drop: the replacement is never
                                        \* pulled from the iterator; Drain's guard closes the gap
                                        [out |-> "inj", lossy |-> TRUE, cs |-> Put(c, [C EXCEPT !.v = Take(v, a) \o DropN(v, b)]),
                                         ret |-> yl, hl |-> Range(yl), dr |-> rest, nf |-> m] @@ E0
                                   ELSE IF p[1] = "next"
                                   THEN \* the removed range is gone; the items produced so far were written into the gap /
                                        \* behind it (Drain's guard moves the tail behind them); with a size hint of 0 the
                                        \* items beyond the gap sit in a temporary vector that the unwinding drops
                                        LET pre == Take(f, p[2] - 1)
                                            inv == IF DropN(v, b) = <<>> \/ hint = "exact" THEN pre ELSE Take(pre, Min(p[2] - 1, b - a))
                                            lost == DropN(pre, Len(inv)) IN
                                        [out |-> "inj", cs |-> Put(c, GrownTo(C, Take(v, a) \o inv \o DropN(v, b), Max(n, n - (b - a) + m))),
                                         ret |-> yl, hl |-> Range(yl), dr |-> rest \o lost, cr |-> Range(pre), nf |-> m] @@ E0
                                   ELSE [cs |-> Put(c, Grown(C, nv)), ret |-> yl, hl |-> Range(yl), dr |-> rest,
                                         cr |-> Range(f), nf |-> m] @@ E0)

(* into_iter: nf items from the front, nb from the back, then drop (or forget) the iterator *)
IntoIter ==
    /\ Running /\ On("into_iter")
    /\ \E c \in LiveSlots :
        LET C == cs[c]  v == C.v  n == Len(v) IN
        /\ C.k \in Growable \cup {"B"}
        /\ \E nf \in 0..n, fin \in {"drop", "forget"} : \E nb \in 0..(n - nf) :
            LET yl == Take(v, nf) \o Rev(DropN(v, n - nb))
                mid == SubSeq(v, nf + 1, n - nb) IN
            \E p \in NoInj \cup (IF fin = "drop" THEN Inj("drop", Len(mid)) ELSE {}) :
                LET st == [op |-> "into_iter", c |-> c, xs |-> <<nf, nb>>, s |-> fin, pk |-> p[1], pn |-> p[2]] @@ S0
                    e == IF fin = "drop"
                         THEN [out |-> IF p[1] = "" THEN "ok" ELSE "inj", lossy |-> p[1] # "", cs |-> Put(c, NoCont),
                               ret |-> yl, hl |-> Range(yl), dr |-> mid] @@ E0
                         ELSE [cs |-> Put(c, NoCont), ret |-> yl, hl |-> Range(yl), lk |-> Range(mid)] @@ E0
                IN Commit(st, e)

(* map_in_place(f) / map(f): f consumes (drops) its argument and returns a fresh element *)
Map ==
    /\ Running /\ On("map")
    /\ \E c \in LiveSlots, w \in {"map_in_place", "map", "map_cross"} :
        LET C == cs[c]  v == C.v  n == Len(v)  f == Fresh(n) IN
        /\ C.k \in SliceAlg /\ (w # "map_in_place" => C.k = "V") /\ FreshOk(n)
        /\ \E p \in NoInj \cup Inj("closure", n) :
            LET st == [op |-> w, c |-> c, xs |-> f, pk |-> p[1], pn |-> p[2]] @@ S0
                kk == [id \in Ids |-> IF id \in Range(f) THEN key[v[id - next + 1]] ELSE key[id]]
                e == IF p[1] = "closure"
                     THEN \* sources 1..pn consumed by the closure calls (the pn-th by unwinding), sources > pn and the
                          \* images < pn dropped by the guard; the container is gone
                          [out |-> "inj", cs |-> Put(c, NoCont), dr |-> v \o Take(f, p[2] - 1),
                           cr |-> Range(Take(f, p[2] - 1)), key |-> kk, nf |-> n] @@ E0
                     ELSE IF w = "map_cross"
                     THEN \* the result has another element type: it is inspected (ret) and dropped at once
                          [cs |-> Put(c, NoCont), ret |-> f, dr |-> v \o f, cr |-> Range(f), key |-> kk, nf |-> n, num |-> <<n>>] @@ E0
                     ELSE [cs |-> Put(c, [C EXCEPT !.v = f, !.gen = C.gen + 1,
                                                   !.pr = IF w = "map" THEN Min(C.pr, n) ELSE C.pr]),
                           dr |-> v, cr |-> Range(f), key |-> kk, nf |-> n] @@ E0
            IN Commit(st, e)

-----------------------------------------------------------------------------
(* conversions: ownership hand-over, ids unchanged *)
Convert ==
    /\ Running /\ On("convert")
    /\ \E c \in LiveSlots, w \in {"into_boxed_slice", "into_fixed_vec", "into_vec", "from_init", "parts_roundtrip"} :
        LET C == cs[c]  n == Len(C.v) IN
        /\ CASE w = "into_boxed_slice" -> C.k \in {"F", "V", "M", "R"}
             [] w = "into_fixed_vec"   -> C.k = "V"
             [] w = "into_vec"         -> C.k = "F" /\ cfg.kind \in {"B", "F", "V"}
             [] w = "from_init"        -> C.k = "B"
             [] OTHER                  -> C.k = "V"
        /\ LET nc == CASE w = "into_boxed_slice" ->
                            [C EXCEPT !.k = "B", !.v = IF C.k = "R" THEN Rev(C.v) ELSE C.v, !.gen = C.gen + 1,
                                      !.blk = IF n = 0 THEN -1 ELSE nblk, !.off = 0]
                       [] w = "into_fixed_vec" -> [C EXCEPT !.k = "F", !.pr = 0]   \* capacity: whatever the BumpVec had
                       [] w = "into_vec"       -> [C EXCEPT !.k = "V", !.pr = IF C.cap >= 0 THEN C.cap ELSE 0,
                                                            !.cap = IF C.cap = -2 THEN -2 ELSE -1]
                       [] w = "from_init"      -> [C EXCEPT !.k = "F", !.cap = IF Zst THEN -2 ELSE n]
                       [] OTHER                -> C
           IN Commit([op |-> w, c |-> c] @@ S0, [cs |-> Put(c, nc), nb |-> 1] @@ E0)

(* explicit leak routes *)
Leak ==
    /\ Running /\ On("leak")
    /\ \E c \in LiveSlots, w \in {"leak", "forget"} :
        LET C == cs[c] IN
        /\ (w = "leak" => C.k \in {"B", "E"})
        /\ Commit([op |-> w, c |-> c] @@ S0,
                  [cs |-> Put(c, NoCont), lk |-> Range(C.v), num |-> IF w = "leak" THEN <<Len(C.v)>> ELSE <<>>] @@ E0)

(* a further container in a free slot: kind B / F / V (in the shared bump) *)
NewCont ==
    /\ Running /\ On("new") /\ FreeSlots # {}
    \* j = how it is built: 0 with_capacity + push, 1 from_iter_in, 2 from_iter_exact_in, 3 from_owned_slice_in
    /\ \E k \in {"B", "F", "V"}, m \in 0..2, sp \in 0..1, way \in 0..3 :
        LET f == Fresh(m)  d == LowFree IN
        /\ FreshOk(m) /\ (k = "B" => sp = 0 /\ way = 0) /\ (way > 0 => sp = 0) /\ (k = "F" => way < 3)
        \* from_iter_in: a panic of the iterator's next() drops what was collected so far, no container comes to exist
        /\ \E p \in NoInj \cup (IF way = 1 THEN Inj("next", m + 1) ELSE {}) :
            Commit([op |-> "new", d |-> d, s |-> k, i |-> m + sp, j |-> way, xs |-> f, pk |-> p[1], pn |-> p[2]] @@ S0,
                   IF p[1] = "next"
                   THEN [out |-> "inj", dr |-> Take(f, p[2] - 1), cr |-> Range(Take(f, p[2] - 1)), nf |-> m, inv |-> {d}] @@ E0
                   ELSE [cs |-> Put(d, [k |-> k, v |-> f, cap |-> IF k = "F" /\ way \in {1, 2} /\ ~Zst THEN -1 ELSE NewCap(k, m + sp),
                                        pr |-> IF k = "B" THEN 0 ELSE m + sp,
                                        gen |-> 0, blk |-> IF m = 0 THEN 0 ELSE nblk, off |-> 0]),
                         cr |-> Range(f), nf |-> m, nb |-> 1, inv |-> {d}] @@ E0)

(* into_flattened: a container of [T; 2] built from fresh ids, flattened, put into a free slot *)
Flatten ==
    /\ Running /\ On("flatten") /\ FreeSlots # {}
    /\ \E m \in 0..2 :
        LET f == Fresh(2 * m)  d == LowFree  k == cfg.kind
            \* R: the arrays are pushed to the front, each array keeps its inner order in the slice
            fv == IF k = "R" THEN Flat([i \in 1..m |-> <<f[2 * i], f[2 * i - 1]>>]) ELSE f IN
        /\ FreshOk(2 * m) /\ 2 * m <= MaxLen
        /\ Commit([op |-> "flatten", d |-> d, s |-> k, xs |-> f] @@ S0,
                  [cs |-> Put(d, [k |-> k, v |-> fv, cap |-> NewCap(k, 2 * m), pr |-> 0, gen |-> 0,
                                  blk |-> IF m = 0 THEN (IF k = "B" THEN 0 ELSE -1) ELSE nblk, off |-> 0]),
                   cr |-> Range(f), nf |-> 2 * m, nb |-> 1, inv |-> {d}] @@ E0)

-----------------------------------------------------------------------------
(* SPLITTING AND MERGING *)
\* where the spare capacity goes and which memory position the parts get: transcription of split_off
SplitOff ==
    /\ Running /\ On("split_off") /\ FreeSlots # {}
    /\ \E c \in LiveSlots :
        LET C == cs[c]  v == C.v  n == Len(v)  d == LowFree IN
        /\ C.k \in Splittable
        /\ \E a \in 0..(n + 1), b \in 0..(n + 1) :
            LET bad == a > b \/ b > n IN
            IF bad
            THEN Commit([op |-> "split_off", c |-> c, d |-> d, i |-> a, j |-> b] @@ S0, [out |-> "panic"] @@ E0)
            ELSE LET rng == SubSeq(v, a + 1, b)  rest == Take(v, a) \o DropN(v, b)
                     rl == b - a  ml == n - rl
                     \* case: 1 = range at the end, 2 = range at the start, 3 = empty interior, 4 = rotate to start, 5 = rotate to end
                     cse == IF Zst THEN 0 ELSE IF b = n THEN 1 ELSE IF a = 0 THEN 2 ELSE IF a = b THEN 3
                            ELSE IF a < n - b THEN 4 ELSE 5
                     \* capacity (exact when known): the part at the end of the memory keeps the spare
                     scap == CASE cse = 0 -> C.cap [] C.k = "B" -> ml [] C.cap < 0 -> -1
                               [] cse \in {1, 5} -> ml [] cse \in {2, 4} -> C.cap - rl [] OTHER -> C.cap
                     ocap == CASE cse = 0 -> C.cap [] C.k = "B" -> rl [] C.cap < 0 -> (IF cse = 3 THEN 0 ELSE -1)
                               [] cse \in {1, 5} -> C.cap - ml [] cse \in {2, 4} -> rl [] OTHER -> 0
                     soff == IF cse \in {2, 4} THEN C.off + rl ELSE C.off
                     ooff == CASE cse \in {1, 5} -> C.off + ml [] cse \in {2, 4} -> C.off [] OTHER -> 0
                     oblk == IF cse \in {0, 3} THEN 0 ELSE C.blk
                     self == [C EXCEPT !.v = rest, !.cap = scap, !.pr = 0, !.off = soff, !.gen = C.gen + 1,
                                       !.blk = IF cse = 0 THEN 0 ELSE C.blk]
                     other == [k |-> C.k, v |-> rng, cap |-> ocap, pr |-> 0, gen |-> 0, blk |-> oblk, off |-> ooff]
                 IN Commit([op |-> "split_off", c |-> c, d |-> d, i |-> a, j |-> b] @@ S0,
                           [cs |-> [cs EXCEPT ![c] = Norm(self), ![d] = Norm(other)], inv |-> {c, d}, sp |-> TRUE] @@ E0)

\* BumpBox<[T]>::split_at / split_first / split_last / split_off_first / split_off_last ; FixedBumpVec::split_at_spare
SplitAt ==
    /\ Running /\ On("split_at") /\ FreeSlots # {}
    /\ \E c \in LiveSlots :
        LET C == cs[c]  v == C.v  n == Len(v)  d == LowFree IN
        /\ C.k = "B"
        /\ \E m \in 0..(n + 1) :
            IF m > n
            THEN \* the slice is consumed by value: its elements are dropped by the unwinding
                 Commit([op |-> "split_at", c |-> c, d |-> d, i |-> m] @@ S0,
                        [out |-> "panic", cs |-> Put(c, NoCont), dr |-> v, inv |-> {c}] @@ E0)
            ELSE LET zb == IF Zst THEN 0 ELSE C.blk
                     l == [C EXCEPT !.v = Take(v, m), !.blk = zb, !.gen = C.gen + 1]
                     r == [C EXCEPT !.v = DropN(v, m), !.off = IF Zst THEN 0 ELSE C.off + m, !.blk = zb, !.gen = 0]
                 IN Commit([op |-> "split_at", c |-> c, d |-> d, i |-> m] @@ S0,
                           [cs |-> [cs EXCEPT ![c] = Norm(l), ![d] = Norm(r)], inv |-> {c, d}, sp |-> TRUE] @@ E0)

SplitEnds ==
    /\ Running /\ On("split_ends") /\ FreeSlots # {}
    /\ \E c \in LiveSlots, w \in {"split_first", "split_last", "split_off_first", "split_off_last"} :
        LET C == cs[c]  v == C.v  n == Len(v)  d == LowFree
            first == w \in {"split_first", "split_off_first"}
            zb == IF Zst THEN 0 ELSE C.blk IN
        /\ C.k = "B"
        /\ IF n = 0
           THEN \* None; split_first/last consume the (empty) slice, split_off_* leave an empty (dangling) slice behind
                Commit([op |-> w, c |-> c, d |-> d] @@ S0,
                       [cs |-> Put(c, IF w \in {"split_first", "split_last"} THEN NoCont
                                      ELSE [C EXCEPT !.blk = 0, !.off = 0, !.gen = C.gen + 1]), inv |-> {c}] @@ E0)
           ELSE LET one == [k |-> "E", v |-> <<IF first THEN v[1] ELSE v[n]>>, cap |-> 1, pr |-> 0, gen |-> 0,
                            blk |-> zb, off |-> IF Zst THEN 0 ELSE IF first THEN C.off ELSE C.off + n - 1]
                    rest == [C EXCEPT !.v = IF first THEN Tail(v) ELSE Take(v, n - 1), !.blk = zb, !.gen = C.gen + 1,
                                      !.off = IF Zst THEN 0 ELSE IF first THEN C.off + 1 ELSE C.off]
                IN Commit([op |-> w, c |-> c, d |-> d] @@ S0,
                          [cs |-> [cs EXCEPT ![c] = Norm(rest), ![d] = Norm(one)], inv |-> {c, d}, sp |-> TRUE] @@ E0)

SplitSpare ==
    /\ Running /\ On("split_at_spare")
    /\ \E c \in LiveSlots :
        LET C == cs[c] IN
        /\ C.k = "F" /\ CapKnown(C)
        \* the spare part (BumpBox<[MaybeUninit<T>]>) is not a slot: only its length is reported (-2: usize::MAX - len)
        /\ Commit([op |-> "split_at_spare", c |-> c] @@ S0,
                  [cs |-> Put(c, [C EXCEPT !.k = "B", !.blk = IF Len(C.v) = 0 THEN -1 ELSE nblk, !.off = 0]), nb |-> 1, inv |-> {c},
                   num |-> <<IF C.cap = -2 THEN -2 ELSE C.cap - Len(C.v)>>] @@ E0)

\* partition(pred): transcription of Iterator::partition_in_place (swap first false with last true)
RECURSIVE PartIn(_, _, _, _)
PartIn(v, P, lo, hi) ==      \* lo, hi: 1-based inclusive window still to be examined
    LET falses == {i \in lo..hi : v[i] \notin P} IN
    IF falses = {} THEN v
    ELSE LET h == CHOOSE i \in falses : \A j \in falses : i <= j
             trues == {i \in (h + 1)..hi : v[i] \in P} IN
         IF trues = {} THEN v
         ELSE LET t == CHOOSE i \in trues : \A j \in trues : i >= j IN
              PartIn([v EXCEPT ![h] = v[t], ![t] = v[h]], P, h + 1, t - 1)
Partition ==
    /\ Running /\ On("partition") /\ FreeSlots # {}
    /\ \E c \in LiveSlots :
        LET C == cs[c]  v == C.v  n == Len(v)  d == LowFree IN
        /\ C.k = "B"
        /\ \E P \in SUBSET Range(v) :
            /\ Zst => P \in {{}, Range(v)}      \* zero sized elements have no identity: constant predicates only
            /\ \E p \in NoInj \cup Inj("pred", IF n = 0 THEN 0 ELSE 1) :
                LET pv == PartIn(v, P, 1, n)  m == Cardinality(P)  zb == IF Zst THEN 0 ELSE C.blk
                    st == [op |-> "partition", c |-> c, d |-> d, ps |-> In(v, P), bs |-> [i \in 1..(n + 1) |-> P # {}],
                           pk |-> p[1], pn |-> p[2]] @@ S0
                    e == IF p[1] = "pred"
                         THEN \* the slice is owned by partition(): everything is dropped by the unwinding
                              [out |-> "inj", cs |-> Put(c, NoCont), dr |-> v, inv |-> {c}] @@ E0
                         ELSE [cs |-> [cs EXCEPT ![c] = Norm([C EXCEPT !.v = Take(pv, m), !.blk = zb, !.gen = C.gen + 1]),
                                                 ![d] = Norm([C EXCEPT !.v = DropN(pv, m), !.blk = zb, !.gen = 0,
                                                                       !.off = IF Zst THEN 0 ELSE C.off + m])],
                               inv |-> {c, d}, sp |-> TRUE] @@ E0
                IN Commit(st, e)

\* merge(a, b): contiguous parts only (zero sized elements: always); both operands are consumed
Merge ==
    /\ Running /\ On("merge")
    /\ \E c \in LiveSlots, d \in LiveSlots :
        LET C == cs[c]  D == cs[d] IN
        /\ c # d /\ C.k = "B" /\ D.k = "B"
        /\ (C.blk = D.blk \/ C.blk = 0 \/ D.blk = 0)      \* unrelated blocks may be adjacent by accident: not generated
        /\ C.blk >= 0 /\ D.blk >= 0
        /\ Len(C.v) + Len(D.v) <= MaxLen
        /\ LET adj == Zst \/ (C.blk = D.blk /\ C.off + Len(C.v) = D.off)
           IN Commit([op |-> "merge", c |-> c, d |-> d] @@ S0,
                     IF adj THEN [cs |-> [cs EXCEPT ![c] = Norm([C EXCEPT !.v = C.v \o D.v, !.gen = C.gen + 1]), ![d] = NoCont],
                                  inv |-> {c, d}, sp |-> TRUE] @@ E0
                     ELSE [out |-> "panic", cs |-> [cs EXCEPT ![c] = NoCont, ![d] = NoCont], dr |-> C.v \o D.v,
                           inv |-> {c, d}] @@ E0)

\* BumpBox<T>: into_inner (value to the caller) / into_boxed_slice
BoxOne ==
    /\ Running /\ On("box_one")
    /\ \E c \in LiveSlots, w \in {"into_inner", "one_into_slice"} :
        LET C == cs[c] IN
        /\ C.k = "E"
        /\ Commit([op |-> w, c |-> c] @@ S0,
                  IF w = "into_inner" THEN [cs |-> Put(c, NoCont), ret |-> C.v, hl |-> Range(C.v), inv |-> {c}] @@ E0
                  ELSE [cs |-> Put(c, [C EXCEPT !.k = "B"]), inv |-> {c}] @@ E0)

\* observers: first / last / get(i) / iteration from both ends / equality with itself
Observe ==
    /\ Running /\ On("observe")
    /\ \E c \in LiveSlots :
        LET C == cs[c]  v == C.v  n == Len(v) IN
        /\ C.k \in Growable \cup {"B"}
        /\ \E i \in 0..n :
            Commit([op |-> "observe", c |-> c, i |-> i] @@ S0,
                   [ret |-> (IF n = 0 THEN <<0, 0>> ELSE <<v[1], v[n]>>) \o <<IF i < n THEN v[i + 1] ELSE 0>> \o Rev(v),
                    num |-> <<IF n = 0 THEN 1 ELSE 0>>] @@ E0)

-----------------------------------------------------------------------------
(* CLOSING PHASE: every owner is dropped, lowest slot first, then the caller's values *)
StartClosing ==
    /\ phase = "run" /\ (nops >= MaxOps \/ LiveSlots = {} \/ "early_close" \in Ops)
    /\ phase' = "closing"
    /\ UNCHANGED <<cfg, cs, held, dropped, made, leaked, lossy, key, next, nblk, nops, hist>>

DropCont ==
    /\ phase = "closing" /\ LiveSlots # {}
    /\ LET c == CHOOSE i \in LiveSlots : \A j \in LiveSlots : i <= j  C == cs[c] IN
       \E p \in NoInj \cup (IF "drop_inject" \in Ops THEN Inj("drop", Len(C.v)) ELSE {}) :
           /\ cs' = [cs EXCEPT ![c] = NoCont]
           /\ dropped' = [i \in Ids |-> dropped[i] + Count(C.v, i)]
           /\ lossy' = (lossy \/ p[1] # "")
           /\ hist' = Append(hist, [op |-> "drop_cont", c |-> c, pk |-> p[1], pn |-> p[2]] @@ S0 @@
                                   [e |-> Exp(S0, [out |-> IF p[1] = "" THEN "ok" ELSE "inj", lossy |-> p[1] # "",
                                                   cs |-> [cs EXCEPT ![c] = NoCont], dr |-> C.v] @@ E0)])
           /\ UNCHANGED <<cfg, held, made, leaked, key, next, nblk, nops, phase>>

DropHeld ==
    /\ phase = "closing" /\ LiveSlots = {}
    /\ held' = {}
    /\ dropped' = [i \in Ids |-> dropped[i] + (IF i \in held THEN 1 ELSE 0)]
    /\ phase' = "done"
    /\ hist' = Append(hist, [op |-> "drop_held"] @@ S0 @@
                            [e |-> [Exp(S0, [dr |-> SetToSeq(held)] @@ E0) EXCEPT !.held = <<>>]])
    /\ UNCHANGED <<cfg, cs, made, leaked, lossy, key, next, nblk, nops>>

Next ==
    \/ Push \/ Insert \/ Remove \/ Pop \/ PopIf \/ Truncate \/ Resize \/ ExtendSlice \/ ExtendWithin \/ ExtendIter
    \/ Append_ \/ AppendSlot \/ Reserve \/ Shrink \/ Retain \/ Dedup \/ Drain \/ ExtractIf \/ Splice \/ IntoIter \/ Map
    \/ Convert \/ Leak \/ NewCont \/ Flatten \/ SplitOff \/ SplitAt \/ SplitEnds \/ SplitSpare \/ Partition \/ Merge
    \/ BoxOne \/ Observe
    \/ StartClosing \/ DropCont \/ DropHeld

Spec == Init /\ [][Next]_vars

-----------------------------------------------------------------------------
(* PROPERTIES of the specification (checked by TLC in MC_Vec) *)

\* C06: no id is ever dropped twice
NoDoubleDrop == \A i \in Ids : dropped[i] <= 1

\* C06: no id has two owners, owners hold only live ids
SingleOwner ==
    /\ NoDup(AllOwned)
    /\ \A i \in OwnedSet : dropped[i] = 0 /\ i \notin leaked /\ i \in made

\* C06: nothing is lost: every created id is owned, dropped or explicitly leaked
Conservation == \A i \in made : i \in OwnedSet \/ dropped[i] >= 1 \/ i \in leaked
NothingFromNowhere == \A i \in Ids : (dropped[i] > 0 \/ i \in leaked) => i \in made

\* C06: at the end of every behaviour every created id was dropped exactly once unless it went through a leak route
ExactlyOnceAtEnd ==
    phase = "done" => /\ OwnedSet = {}
                      /\ \A i \in made : IF i \in leaked THEN dropped[i] = 0 ELSE dropped[i] = 1

\* C08: capacity covers length and promise; zero sized elements have unlimited capacity; B has cap = len
CapOk ==
    \A i \in LiveSlots :
        LET C == cs[i] IN
        /\ Len(C.v) <= MaxLen
        /\ C.cap >= 0 => C.cap >= Len(C.v) /\ C.cap >= C.pr
        /\ C.k \in {"B", "E"} => C.cap = Len(C.v)
        /\ (Zst /\ C.k \in Growable) => C.cap = -2
        /\ (~Zst) => C.cap # -2

Last == hist'[Len(hist')]
Stepped == Len(hist') = Len(hist) + 1
\* C08: no buffer change while the promise (or the fixed capacity) suffices; fixed vectors never move, fail when full
NoMoveWhilePromised ==
    [][Stepped /\ Last.op \in InPlaceOps =>
          LET c == Last.c  C == cs[c]  C2 == cs'[c]
              need == IF Last.op \in {"reserve", "reserve_exact"} THEN Len(C.v) + Last.i
                      ELSE IF Last.op = "extend" THEN Max(Len(C2.v), Len(C.v) + Last.i)     \* reserve(size_hint) comes first
                      ELSE Len(C2.v) IN
          /\ (Last.e.out # "inj" /\ (need <= Max(Len(C.v), IF C.cap >= 0 THEN C.cap ELSE C.pr) \/ C.cap = -2))
                => C2.gen = C.gen /\ Last.e.st
          /\ Last.e.st <=> C2.gen = C.gen
          /\ C.k = "F" => C2.gen = C.gen /\ C2.cap = C.cap
          /\ (C.k = "F" /\ C.cap >= 0 /\ Last.op \in {"push", "push_with", "insert"} /\ Len(C.v) = C.cap) => Last.e.out = "panic"
          /\ (Last.e.out = "panic" /\ Last.op # "extend") => C2.v = C.v
    ]_vars

\* C16: split / merge operations partition the ids exactly: same multiset over the involved slots, nothing dropped,
\* capacities of sized elements add up
SumCap(st, S) == LET RECURSIVE Sum(_)
                     Sum(T) == IF T = {} THEN 0 ELSE LET x == CHOOSE y \in T : TRUE IN st[x].cap + Sum(T \ {x})
                 IN Sum(S)
PartitionExact ==
    [][Stepped /\ Last.e.sp =>
          LET S == Range(Last.e.inv)  \* involved slots
              before == Flat([i \in Slots |-> IF i \in S THEN cs[i].v ELSE <<>>])
              after  == Flat([i \in Slots |-> IF i \in S THEN cs'[i].v ELSE <<>>]) IN
          /\ \A x \in Ids : Count(before, x) = Count(after, x)
          /\ Last.e.dr = <<>> /\ Last.e.out = "ok"
          /\ (\A i \in S : cs[i].cap >= 0 /\ cs'[i].cap >= 0) => SumCap(cs, S) = SumCap(cs', S)
          /\ \A i \in Slots \ S : cs'[i] = cs[i]
    ]_vars

\* C16: parts are independent: an operation never changes a slot it does not involve
Independence ==
    [][Stepped => \A i \in Slots : (i # Last.c /\ i # Last.d /\ i \notin Range(Last.e.inv)) => cs'[i] = cs[i]]_vars

TypeOk ==
    /\ next \in 1..(MaxIds + 1)
    /\ \A i \in Slots : cs[i].k \in {"-", "B", "E", "F", "V", "M", "R"}
    /\ made \subseteq 1..(next - 1)
=============================================================================
