//! Replays behaviours of spec/Str.tla (JSON lines printed by TLC) on the real string types
//! `BumpBox<str>`, `FixedBumpString`, `BumpString`, `MutBumpString` (both bump directions, MIN_ALIGN 1 and 8)
//! and on `std::string::String`, and records one observation line per executed step (NDJSON).
//!
//! This program is a dumb interpreter and recorder: it decides nothing.  The oracle is spec/StrObs.tla,
//! which evaluates the C09 contract on every recorded line.
//!
//! usage: strs <behaviours.ndjson> <observations.ndjson> <rotate|all>
//!
//! behaviour line:   {"id": n, "steps": [{"op": {...}, "pre": {...}, "exp": {...}}, ...]}
//! observation line: {"beh", "k", "ty", "cfg", "m": <the step, verbatim>, "pre": <observation before the step>,
//!                    "o": {"out": "ok"|"panic"|"err", "msg", "bytes": raw bytes of the buffer up to len, "len", "cap",
//!                          "utf8": core::str::from_utf8(raw bytes).is_ok(), "chars": code points (if utf8),
//!                          "ret", "ret2", "xbytes", "xcap", "cbytes", "gone"}}
#![allow(clippy::all)]

use std::ffi::CString;
use std::fmt;
use std::io::{BufRead, BufReader, BufWriter, Write};
use std::ops::Bound;
use std::panic::{catch_unwind, AssertUnwindSafe};

use bump_scope::{
    alloc::Global,
    settings::BumpSettings,
    Bump, BumpBox, BumpString, BumpVec, FixedBumpString, FixedBumpVec,
    MutBumpString, MutBumpVec,
};
use serde_json::Value;


/// capacity given to a FixedBumpString that replays a behaviour of a growable string
const ROOMY: usize = 64;

// ------------------------------------------------------------------------------------------------
// decoding of behaviour arguments

fn usz(v: &Value) -> usize {
    v.as_u64().unwrap_or_else(|| panic!("harness: expected unsigned integer, got {v}")) as usize
}

fn ch(v: &Value) -> char {
    char::from_u32(usz(v) as u32).expect("harness: code point")
}

fn text(v: &Value) -> String {
    v.as_array().expect("harness: text").iter().map(ch).collect()
}

fn bytes_of(v: &Value) -> Vec<u8> {
    v.as_array().expect("harness: bytes").iter().map(|b| usz(b) as u8).collect()
}

fn units_of(v: &Value) -> Vec<u16> {
    v.as_array().expect("harness: units").iter().map(|b| usz(b) as u16).collect()
}

fn rng(v: &Value) -> (Bound<usize>, Bound<usize>) {
    let lo = v["lo"].as_i64().unwrap();
    let hi = v["hi"].as_i64().unwrap();
    let inc = v["inc"].as_bool().unwrap();
    let lo = if lo < 0 { Bound::Unbounded } else { Bound::Included(lo as usize) };
    let hi = if hi < 0 {
        Bound::Unbounded
    } else if inc {
        Bound::Included(hi as usize)
    } else {
        Bound::Excluded(hi as usize)
    };
    (lo, hi)
}

fn api(op: &Value) -> &str {
    op["api"].as_str().unwrap_or("p")
}

/// Format-string literals (the `Arguments::as_str()` fast path); mirrored by `LitsDef` in spec/StrOps.tla.
/// Run-time pieces are passed as `{}` arguments, one `write_str` each.
fn with_args<R>(op: &Value, f: impl FnOnce(fmt::Arguments) -> R) -> R {
    let lit = op["lit"].as_u64().unwrap_or(0);
    let ps: Vec<String> = op["ps"].as_array().map(|a| a.iter().map(text).collect()).unwrap_or_default();
    match lit {
        1 => f(format_args!("a")),
        2 => f(format_args!("a\0é")),
        3 => f(format_args!("")),
        4 => f(format_args!("€😀")),
        5 => f(format_args!("\0a")),
        0 => match ps.len() {
            0 => f(format_args!("")),
            1 => f(format_args!("{}", ps[0])),
            2 => f(format_args!("{}{}", ps[0], ps[1])),
            3 => f(format_args!("{}{}{}", ps[0], ps[1], ps[2])),
            n => panic!("harness: {n} pieces"),
        },
        n => panic!("harness: literal {n}"),
    }
}

// ------------------------------------------------------------------------------------------------
// observations

#[derive(Default, Clone)]
struct Snap {
    bytes: Vec<u8>,
    cap: i64,
}

impl Snap {
    fn json(&self) -> String {
        let valid = core::str::from_utf8(&self.bytes);
        format!(
            "\"bytes\":{},\"len\":{},\"cap\":{},\"utf8\":{},\"chars\":{}",
            arr(&self.bytes),
            self.bytes.len(),
            self.cap,
            valid.is_ok(),
            match valid {
                Ok(s) => arr(&s.chars().map(|c| c as u32).collect::<Vec<_>>()),
                Err(_) => "[]".to_string(),
            }
        )
    }
}

fn arr<T: fmt::Display>(v: &[T]) -> String {
    let mut s = String::with_capacity(2 + 4 * v.len());
    s.push('[');
    for (i, x) in v.iter().enumerate() {
        if i > 0 {
            s.push(',');
        }
        use fmt::Write;
        write!(s, "{x}").unwrap();
    }
    s.push(']');
    s
}

/// raw bytes of a buffer: pointer + length, no `&str` assumption
unsafe fn raw(ptr: *const u8, len: usize) -> Vec<u8> {
    if len == 0 {
        Vec::new()
    } else {
        unsafe { std::slice::from_raw_parts(ptr, len).to_vec() }
    }
}

/// code points of a byte string, or [-2] if it is not UTF-8
fn cps_of(bytes: &[u8]) -> Vec<i64> {
    match core::str::from_utf8(bytes) {
        Ok(s) => s.chars().map(|c| c as i64).collect(),
        Err(_) => vec![-2],
    }
}

#[derive(Default)]
struct Out {
    out: &'static str,
    msg: String,
    ret: Vec<i64>,
    ret2: Vec<i64>,
    xbytes: Option<Vec<u8>>,
    xcap: i64,
    cbytes: Option<Vec<u8>>,
    unsupported: bool,
}

impl Out {
    fn new() -> Self {
        Out { out: "ok", xcap: -1, ..Default::default() }
    }
    fn panicked(&mut self, m: String) {
        self.out = "panic";
        self.msg = m;
    }
    fn unsupported() -> Self {
        Out { unsupported: true, ..Out::new() }
    }
}

fn catch<R>(f: impl FnOnce() -> R) -> Result<R, String> {
    match catch_unwind(AssertUnwindSafe(f)) {
        Ok(r) => Ok(r),
        Err(p) => Err(if let Some(s) = p.downcast_ref::<&str>() {
            (*s).to_string()
        } else if let Some(s) = p.downcast_ref::<String>() {
            s.clone()
        } else {
            "<non-string payload>".to_string()
        }),
    }
}

// ------------------------------------------------------------------------------------------------
// the operations, written once for all string types

/// std String has no try_ entry points and no extend_zeroed: shims so that one macro serves every type
trait StdShims {
    fn try_push(&mut self, c: char) -> Result<(), ()>;
    fn try_push_str(&mut self, s: &str) -> Result<(), ()>;
    fn try_insert(&mut self, i: usize, c: char) -> Result<(), ()>;
    fn try_insert_str(&mut self, i: usize, s: &str) -> Result<(), ()>;
    fn try_replace_range(&mut self, r: (Bound<usize>, Bound<usize>), s: &str) -> Result<(), ()>;
    fn try_extend_from_within(&mut self, r: (Bound<usize>, Bound<usize>)) -> Result<(), ()>;
    fn extend_zeroed(&mut self, n: usize);
    fn try_extend_zeroed(&mut self, n: usize) -> Result<(), ()>;
}

impl StdShims for String {
    fn try_push(&mut self, c: char) -> Result<(), ()> {
        self.push(c);
        Ok(())
    }
    fn try_push_str(&mut self, s: &str) -> Result<(), ()> {
        self.push_str(s);
        Ok(())
    }
    fn try_insert(&mut self, i: usize, c: char) -> Result<(), ()> {
        self.insert(i, c);
        Ok(())
    }
    fn try_insert_str(&mut self, i: usize, s: &str) -> Result<(), ()> {
        self.insert_str(i, s);
        Ok(())
    }
    fn try_replace_range(&mut self, r: (Bound<usize>, Bound<usize>), s: &str) -> Result<(), ()> {
        self.replace_range(r, s);
        Ok(())
    }
    fn try_extend_from_within(&mut self, r: (Bound<usize>, Bound<usize>)) -> Result<(), ()> {
        self.extend_from_within(r);
        Ok(())
    }
    fn extend_zeroed(&mut self, n: usize) {
        for _ in 0..n {
            self.push('\0');
        }
    }
    fn try_extend_zeroed(&mut self, n: usize) -> Result<(), ()> {
        StdShims::extend_zeroed(self, n);
        Ok(())
    }
}

/// panicking (`p`) or try_ (`t`) entry point of a growing operation
macro_rules! grow_call {
    ($o:ident, $op:expr, $p:expr, $t:expr) => {
        if api($op) == "t" {
            match catch(|| $t) {
                Ok(Ok(_)) => {}
                Ok(Err(_)) => $o.out = "err",
                Err(m) => $o.panicked(m),
            }
        } else {
            match catch(|| $p) {
                Ok(_) => {}
                Err(m) => $o.panicked(m),
            }
        }
    };
}

/// operations every string type has; evaluates to `true` if `$name` was one of them
macro_rules! shrink_ops {
    ($s:expr, $name:expr, $op:expr, $o:ident) => {
        match $name {
            "remove" => {
                let i = usz(&$op["i"]);
                match catch(|| $s.remove(i)) {
                    Ok(c) => $o.ret.push(c as i64),
                    Err(m) => $o.panicked(m),
                }
                true
            }
            "pop" => {
                match catch(|| $s.pop()) {
                    Ok(Some(c)) => $o.ret.push(c as i64),
                    Ok(None) => {}
                    Err(m) => $o.panicked(m),
                }
                true
            }
            "truncate" => {
                let i = usz(&$op["i"]);
                if let Err(m) = catch(|| $s.truncate(i)) {
                    $o.panicked(m)
                }
                true
            }
            "clear" => {
                if let Err(m) = catch(|| $s.clear()) {
                    $o.panicked(m)
                }
                true
            }
            "retain" => {
                let keep: Vec<bool> = $op["keep"].as_array().unwrap().iter().map(|b| b.as_bool().unwrap()).collect();
                let pat = usz(&$op["pat"]);
                let mut visited: Vec<i64> = Vec::new();
                let r = catch(|| {
                    let mut n = 0usize;
                    $s.retain(|c| {
                        n += 1;
                        visited.push(c as i64);
                        if n == pat {
                            panic!("injected");
                        }
                        keep.get(n - 1).copied().unwrap_or(true)
                    })
                });
                if let Err(m) = r {
                    $o.panicked(m)
                }
                $o.ret = visited;
                true
            }
            "drain" => {
                let r = rng(&$op["r"]);
                let f = usz(&$op["f"]);
                let b = usz(&$op["b"]);
                let forget = $op["endm"] == "forget";
                let res = catch(|| {
                    let mut d = $s.drain(r);
                    let mut ys: Vec<i64> = Vec::new();
                    for _ in 0..f {
                        ys.push(d.next().map_or(-1, |c| c as i64));
                    }
                    for _ in 0..b {
                        ys.push(d.next_back().map_or(-1, |c| c as i64));
                    }
                    let rest = cps_of(d.as_str().as_bytes());
                    if forget {
                        std::mem::forget(d)
                    } else {
                        drop(d)
                    }
                    (ys, rest)
                });
                match res {
                    Ok((ys, rest)) => {
                        $o.ret = ys;
                        $o.ret2 = rest;
                    }
                    Err(m) => $o.panicked(m),
                }
                true
            }
            _ => false,
        }
    };
}

/// operations of the growing string types
macro_rules! grow_ops {
    ($s:expr, $name:expr, $op:expr, $o:ident) => {
        match $name {
            "push" => {
                let c = ch(&$op["c"]);
                grow_call!($o, $op, $s.push(c), $s.try_push(c));
                true
            }
            "push_str" => {
                let t = text(&$op["t"]);
                grow_call!($o, $op, $s.push_str(&t), $s.try_push_str(&t));
                true
            }
            "insert" => {
                let (i, c) = (usz(&$op["i"]), ch(&$op["c"]));
                grow_call!($o, $op, $s.insert(i, c), $s.try_insert(i, c));
                true
            }
            "insert_str" => {
                let (i, t) = (usz(&$op["i"]), text(&$op["t"]));
                grow_call!($o, $op, $s.insert_str(i, &t), $s.try_insert_str(i, &t));
                true
            }
            "replace_range" => {
                let (r, t) = (rng(&$op["r"]), text(&$op["t"]));
                grow_call!($o, $op, $s.replace_range(r, &t), $s.try_replace_range(r, &t));
                true
            }
            "extend_from_within" => {
                let r = rng(&$op["r"]);
                grow_call!($o, $op, $s.extend_from_within(r), $s.try_extend_from_within(r));
                true
            }
            "extend_zeroed" => {
                let n = usz(&$op["n"]);
                grow_call!($o, $op, $s.extend_zeroed(n), $s.try_extend_zeroed(n));
                true
            }
            "reserve" => {
                let n = usz(&$op["n"]);
                grow_call!($o, $op, $s.reserve(n), $s.try_reserve(n));
                true
            }
            "write_fmt" => {
                // write!(s, ...): fmt::Write, one write_str per piece
                match catch(|| with_args($op, |a| fmt::Write::write_fmt(&mut *$s, a))) {
                    Ok(Ok(())) => {}
                    Ok(Err(_)) => $o.out = "err",
                    Err(m) => $o.panicked(m),
                }
                true
            }
            _ => false,
        }
    };
}

/// split_off of the types that have it natively; the part the behaviour does not go on with is recorded in xbytes/xcap
macro_rules! split_off_native {
    ($slot:expr, $op:expr, $o:ident, $snap:expr) => {{
        let r = rng(&$op["r"]);
        let s = $slot.as_mut().unwrap();
        match catch(|| s.split_off(r)) {
            Ok(mut other) => {
                if $op["keep"] == "other" {
                    std::mem::swap(s, &mut other);
                }
                let x: Snap = $snap(&other);
                $o.ret = cps_of(&x.bytes);
                $o.xbytes = Some(x.bytes);
                $o.xcap = x.cap;
                drop(other);
            }
            Err(m) => $o.panicked(m),
        }
    }};
}

fn is_pure(name: &str) -> bool {
    matches!(name, "alloc_cstr" | "alloc_cstr_from_str" | "alloc_cstr_fmt" | "alloc_cstr_fmt_mut")
}


// ------------------------------------------------------------------------------------------------
// the string types

trait Cont: Sized {
    const TY: &'static str;
    fn snap(&self) -> Snap;
    /// executes one operation; `None` in the slot afterwards = the string was consumed
    fn step(slot: &mut Option<Self>, op: &Value) -> Out;
}

impl<'a> Cont for BumpBox<'a, str> {
    const TY: &'static str = "box";
    fn snap(&self) -> Snap {
        let len = self.len();
        Snap { bytes: unsafe { raw(self.as_ptr(), len) }, cap: len as i64 }
    }
    fn step(slot: &mut Option<Self>, op: &Value) -> Out {
        let name = op["name"].as_str().unwrap();
        let mut o = Out::new();
        let s = slot.as_mut().unwrap();
        if shrink_ops!(s, name, op, o) {
        } else if name == "split_off" {
            split_off_native!(slot, op, o, |x: &BumpBox<'a, str>| x.snap());
        } else {
            return Out::unsupported();
        }
        o
    }
}

impl<'a> Cont for FixedBumpString<'a> {
    const TY: &'static str = "fixed";
    fn snap(&self) -> Snap {
        Snap { bytes: unsafe { raw(self.as_ptr(), self.len()) }, cap: self.capacity() as i64 }
    }
    fn step(slot: &mut Option<Self>, op: &Value) -> Out {
        let name = op["name"].as_str().unwrap();
        let mut o = Out::new();
        let s = slot.as_mut().unwrap();
        if shrink_ops!(s, name, op, o) {
        } else if grow_ops!(s, name, op, o) {
        } else if name == "split_off" {
            split_off_native!(slot, op, o, |x: &FixedBumpString<'a>| x.snap());
        } else {
            return Out::unsupported();
        }
        o
    }
}



impl Cont for String {
    const TY: &'static str = "std";
    fn snap(&self) -> Snap {
        Snap { bytes: unsafe { raw(self.as_ptr(), self.len()) }, cap: self.capacity() as i64 }
    }
    fn step(slot: &mut Option<Self>, op: &Value) -> Out {
        let name = op["name"].as_str().unwrap();
        let mut o = Out::new();
        let s = slot.as_mut().unwrap();
        if shrink_ops!(s, name, op, o) {
        } else if grow_ops!(s, name, op, o) {
        } else if name == "split_off" {
            // std's split_off takes one index; "remove the range and return it" is drain(range).collect()
            let r = rng(&op["r"]);
            match catch(|| s.drain(r).collect::<String>()) {
                Ok(mut other) => {
                    if op["keep"] == "other" {
                        std::mem::swap(s, &mut other);
                    }
                    let x = other.snap();
                    o.ret = cps_of(&x.bytes);
                    o.xbytes = Some(x.bytes);
                    o.xcap = -1;
                }
                Err(m) => o.panicked(m),
            }
        } else {
            return Out::unsupported();
        }
        o
    }
}

// ------------------------------------------------------------------------------------------------
// constructors: (string | None, outcome)

/// outcome of a strict from_utf8
macro_rules! utf8_result {
    ($r:expr, $o:ident) => {
        match $r {
            Ok(s) => Some(s),
            Err(e) => {
                $o.out = "err";
                let ue = e.utf8_error();
                $o.ret = vec![ue.valid_up_to() as i64, ue.error_len().map_or(0, |n| n as i64)];
                $o.ret2 = e.into_bytes().iter().map(|b| *b as i64).collect();
                None
            }
        }
    };
}

fn cap_of(op: &Value, kind: &str, need: usize) -> usize {
    match kind {
        "fixed" => usz(&op["cap"]),
        "box" => need,
        _ => ROOMY,
    }
}



/// the constructors BumpString and MutBumpString share ($bump is `&Bump` resp. `&mut Bump`)
macro_rules! ctor_growing {
    ($S:ident, $V:ident, $bump:expr, $op:expr) => {{
        let op: &Value = $op;
        let mut o = Out::new();
        let t = api(op) == "t";
        if op["kind"] == "fixed" {
            return None;
        }
        let s = match op["name"].as_str().unwrap() {
            "from_str" => {
                let s = text(&op["t"]);
                Some($S::from_str_in(&s, $bump))
            }
            "fmt" => {
                let mut s = $S::new_in($bump);
                match catch(|| with_args(op, |a| fmt::Write::write_fmt(&mut s, a))) {
                    Ok(Ok(())) => {}
                    Ok(Err(_)) => o.out = "err",
                    Err(m) => o.panicked(m),
                }
                Some(s)
            }
            "from_utf8" => {
                let b = bytes_of(&op["bytes"]);
                let mut v = $V::with_capacity_in(b.len(), $bump);
                v.extend_from_slice_copy(&b);
                utf8_result!($S::from_utf8(v), o)
            }
            "from_utf8_lossy" => {
                let b = bytes_of(&op["bytes"]);
                if t {
                    Some($S::try_from_utf8_lossy_in(&b, $bump).expect("harness: allocation failed"))
                } else {
                    Some($S::from_utf8_lossy_in(&b, $bump))
                }
            }
            "from_utf16" => {
                let u = units_of(&op["u16"]);
                let r = if t {
                    $S::try_from_utf16_in(&u, $bump).expect("harness: allocation failed")
                } else {
                    $S::from_utf16_in(&u, $bump)
                };
                match r {
                    Ok(s) => Some(s),
                    Err(_) => {
                        o.out = "err";
                        None
                    }
                }
            }
            "from_utf16_lossy" => {
                let u = units_of(&op["u16"]);
                if t {
                    Some($S::try_from_utf16_lossy_in(&u, $bump).expect("harness: allocation failed"))
                } else {
                    Some($S::from_utf16_lossy_in(&u, $bump))
                }
            }
            _ => return None,
        };
        Some((s, o))
    }};
}



fn ctor_std(op: &Value) -> Option<(Option<String>, Out)> {
    let mut o = Out::new();
    if op["kind"] == "fixed" {
        return None;
    }
    let s = match op["name"].as_str().unwrap() {
        "from_str" => Some(String::from(text(&op["t"]).as_str())),
        "fmt" => {
            let mut s = String::new();
            match catch(|| with_args(op, |a| fmt::Write::write_fmt(&mut s, a))) {
                Ok(Ok(())) => {}
                Ok(Err(_)) => o.out = "err",
                Err(m) => o.panicked(m),
            }
            Some(s)
        }
        "from_utf8" => utf8_result!(String::from_utf8(bytes_of(&op["bytes"])), o),
        "from_utf8_lossy" => Some(String::from_utf8_lossy(&bytes_of(&op["bytes"])).into_owned()),
        "from_utf16" => match String::from_utf16(&units_of(&op["u16"])) {
            Ok(s) => Some(s),
            Err(_) => {
                o.out = "err";
                None
            }
        },
        "from_utf16_lossy" => Some(String::from_utf16_lossy(&units_of(&op["u16"]))),
        _ => return None,
    };
    Some((s, o))
}

// ------------------------------------------------------------------------------------------------
// the replay loop

struct Ctx<'w> {
    w: &'w mut dyn Write,
    /// steps executed
    steps: u64,
    /// lines written: a step whose record (type, step, observation before and after) is identical to one already
    /// written is executed but not written again -- the contract is a function of the record alone
    lines: u64,
    seen: std::collections::HashSet<(u64, u64)>,
    /// STRS_TRACE=1: announce every step on stderr before it runs (used to locate a step that kills the process)
    trace: bool,
}

fn emit(ctx: &mut Ctx, beh: u64, k: usize, ty: &str, cfg: &str, step: &Value, pre: &Snap, post: &Snap, gone: bool, o: &Out) {
    let mut body = String::with_capacity(1024);
    use fmt::Write as _;
    write!(
        body,
        "\"ty\":\"{ty}\",\"m\":{step},\"pre\":{{{}}},\"o\":{{\"out\":\"{}\",\"msg\":{},{},\"gone\":{gone},\"ret\":{},\"ret2\":{},\"xbytes\":{},\"xok\":{},\"xcap\":{},\"cbytes\":{},\"cok\":{}}}}}",
        pre.json(),
        o.out,
        serde_json::to_string(&o.msg).unwrap(),
        post.json(),
        arr(&o.ret),
        arr(&o.ret2),
        arr(o.xbytes.as_deref().unwrap_or(&[])),
        o.xbytes.is_some(),
        o.xcap,
        arr(o.cbytes.as_deref().unwrap_or(&[])),
        o.cbytes.is_some(),
    )
    .unwrap();
    ctx.steps += 1;
    use std::hash::{Hash, Hasher};
    let mut h1 = std::collections::hash_map::DefaultHasher::new();
    body.hash(&mut h1);
    let mut h2 = std::collections::hash_map::DefaultHasher::new();
    (0x9e3779b97f4a7c15u64, &body, body.len()).hash(&mut h2);
    if !ctx.seen.insert((h1.finish(), h2.finish())) {
        return;
    }
    writeln!(ctx.w, "{{\"beh\":{beh},\"k\":{k},\"cfg\":\"{cfg}\",{body}").unwrap();
    ctx.lines += 1;
}

fn replay<C: Cont>(
    ctx: &mut Ctx,
    beh: u64,
    cfg: &str,
    steps: &[Value],
    first: (Option<C>, Out),
    pure: &mut dyn FnMut(&Value, &mut Out),
) {
    let (mut slot, o) = first;
    let empty = Snap { bytes: Vec::new(), cap: -1 };
    let mut pre = empty.clone();
    let mut post = slot.as_ref().map_or(empty.clone(), |s| s.snap());
    emit(ctx, beh, 0, C::TY, cfg, &steps[0], &pre, &post, slot.is_none(), &o);
    if core::str::from_utf8(&post.bytes).is_err() {
        std::mem::forget(slot.take());
        return;
    }
    for (k, step) in steps.iter().enumerate().skip(1) {
        if slot.is_none() {
            break;
        }
        let op = &step["op"];
        let name = op["name"].as_str().unwrap();
        if ctx.trace {
            eprintln!("AT {beh} {k} {} {cfg}", C::TY);
        }
        if is_pure(name) && C::TY == "std" {
            // the C-string constructors are functions of the bump allocator, not of the string: nothing of std's to record
            continue;
        }
        pre = post;
        let o = if is_pure(name) {
            let mut o = Out::new();
            pure(op, &mut o);
            o
        } else {
            C::step(&mut slot, op)
        };
        if o.unsupported {
            break;
        }
        post = slot.as_ref().map_or(empty.clone(), |s| s.snap());
        emit(ctx, beh, k, C::TY, cfg, step, &pre, &post, slot.is_none(), &o);
        // The buffer no longer holds UTF-8 (recorded above; StrObs decides what that means).  Going on would hand an
        // invalid `str` to safe code, which is undefined behaviour: this run ends here.
        if core::str::from_utf8(&post.bytes).is_err() || o.xbytes.as_deref().is_some_and(|x| core::str::from_utf8(x).is_err()) {
            std::mem::forget(slot.take());
            break;
        }
    }
}


// ------------------------------------------------------------------------------------------------
// everything that names a concrete `Bump<Global, BumpSettings<MIN_ALIGN, UP>>`, instantiated per configuration

macro_rules! per_cfg {
    ($m:ident, $ma:literal, $up:literal) => {
        pub mod $m {
        use super::*;
        pub type BB = Bump<Global, BumpSettings<$ma, $up>>;

        /// the C-string constructors of the allocator; they do not involve the string under test and run on a second bump
        pub(crate) fn pure_cstr(aux: &mut BB, op: &Value, o: &mut Out) {
            let name = op["name"].as_str().unwrap();
            let t = api(op) == "t";
            let res: Result<Result<Vec<u8>, ()>, String> = match name {
                "alloc_cstr" => {
                    let c = CString::new(text(&op["t"])).expect("harness: alloc_cstr text has no NUL");
                    catch(|| {
                        if t {
                            aux.try_alloc_cstr(&c).map(|c| c.to_bytes_with_nul().to_vec()).map_err(|_| ())
                        } else {
                            Ok(aux.alloc_cstr(&c).to_bytes_with_nul().to_vec())
                        }
                    })
                }
                "alloc_cstr_from_str" => {
                    let s = text(&op["t"]);
                    catch(|| {
                        if t {
                            aux.try_alloc_cstr_from_str(&s).map(|c| c.to_bytes_with_nul().to_vec()).map_err(|_| ())
                        } else {
                            Ok(aux.alloc_cstr_from_str(&s).to_bytes_with_nul().to_vec())
                        }
                    })
                }
                "alloc_cstr_fmt" => catch(|| {
                    with_args(op, |a| {
                        if t {
                            aux.try_alloc_cstr_fmt(a).map(|c| c.to_bytes_with_nul().to_vec()).map_err(|_| ())
                        } else {
                            Ok(aux.alloc_cstr_fmt(a).to_bytes_with_nul().to_vec())
                        }
                    })
                }),
                "alloc_cstr_fmt_mut" => catch(|| {
                    with_args(op, |a| {
                        if t {
                            aux.try_alloc_cstr_fmt_mut(a).map(|c| c.to_bytes_with_nul().to_vec()).map_err(|_| ())
                        } else {
                            Ok(aux.alloc_cstr_fmt_mut(a).to_bytes_with_nul().to_vec())
                        }
                    })
                }),
                _ => unreachable!(),
            };
            match res {
                Ok(Ok(b)) => o.cbytes = Some(b),
                Ok(Err(())) => o.out = "err",
                Err(m) => o.panicked(m),
            }
            aux.reset();
        }

        impl<'a> Cont for BumpString<&'a BB> {
            const TY: &'static str = "bstr";
            fn snap(&self) -> Snap {
                Snap { bytes: unsafe { raw(self.as_ptr(), self.len()) }, cap: self.capacity() as i64 }
            }
            fn step(slot: &mut Option<Self>, op: &Value) -> Out {
                let name = op["name"].as_str().unwrap();
                let mut o = Out::new();
                let s = slot.as_mut().unwrap();
                if shrink_ops!(s, name, op, o) {
                } else if grow_ops!(s, name, op, o) {
                } else if name == "split_off" {
                    split_off_native!(slot, op, o, |x: &BumpString<&'a BB>| x.snap());
                } else if name == "into_cstr" {
                    let s = slot.take().unwrap();
                    let t = api(op) == "t";
                    match catch(move || {
                        if t {
                            s.try_into_cstr().map(|c| c.to_bytes_with_nul().to_vec()).map_err(|_| ())
                        } else {
                            Ok(s.into_cstr().to_bytes_with_nul().to_vec())
                        }
                    }) {
                        Ok(Ok(b)) => o.cbytes = Some(b),
                        Ok(Err(())) => o.out = "err",
                        Err(m) => o.panicked(m),
                    }
                } else {
                    return Out::unsupported();
                }
                o
            }
        }

        impl<'a> Cont for MutBumpString<&'a mut BB> {
            const TY: &'static str = "mstr";
            fn snap(&self) -> Snap {
                Snap { bytes: unsafe { raw(self.as_ptr(), self.len()) }, cap: self.capacity() as i64 }
            }
            fn step(slot: &mut Option<Self>, op: &Value) -> Out {
                let name = op["name"].as_str().unwrap();
                let mut o = Out::new();
                let s = slot.as_mut().unwrap();
                if shrink_ops!(s, name, op, o) {
                } else if grow_ops!(s, name, op, o) {
                } else if name == "into_cstr" {
                    let s = slot.take().unwrap();
                    let t = api(op) == "t";
                    match catch(move || {
                        if t {
                            s.try_into_cstr().map(|c| c.to_bytes_with_nul().to_vec()).map_err(|_| ())
                        } else {
                            Ok(s.into_cstr().to_bytes_with_nul().to_vec())
                        }
                    }) {
                        Ok(Ok(b)) => o.cbytes = Some(b),
                        Ok(Err(())) => o.out = "err",
                        Err(m) => o.panicked(m),
                    }
                } else {
                    // MutBumpString has no split_off
                    return Out::unsupported();
                }
                o
            }
        }

        fn ctor_box<'a>(bump: &'a mut BB, op: &Value) -> Option<(Option<BumpBox<'a, str>>, Out)> {
            let mut o = Out::new();
            let t = api(op) == "t";
            if op["kind"] != "box" {
                return None;
            }
            let s = match op["name"].as_str().unwrap() {
                "from_str" => {
                    let s = text(&op["t"]);
                    Some(bump.alloc_str(&s))
                }
                "fmt" => {
                    let mutapi = op["mut"].as_bool().unwrap();
                    let r = catch(|| {
                        with_args(op, |a| match (mutapi, t) {
                            (false, false) => Ok(bump.alloc_fmt(a)),
                            (false, true) => bump.try_alloc_fmt(a).map_err(|_| ()),
                            (true, false) => Ok(bump.alloc_fmt_mut(a)),
                            (true, true) => bump.try_alloc_fmt_mut(a).map_err(|_| ()),
                        })
                    });
                    match r {
                        Ok(Ok(b)) => Some(b),
                        Ok(Err(())) => {
                            o.out = "err";
                            None
                        }
                        Err(m) => {
                            o.panicked(m);
                            None
                        }
                    }
                }
                "from_utf8" => {
                    let b = bytes_of(&op["bytes"]);
                    utf8_result!(BumpBox::<str>::from_utf8(bump.alloc_slice_copy(&b)), o)
                }
                _ => return None,
            };
            Some((s, o))
        }

        fn ctor_fixed<'a>(bump: &'a BB, op: &Value) -> Option<(Option<FixedBumpString<'a>>, Out)> {
            let mut o = Out::new();
            let kind = op["kind"].as_str().unwrap();
            let s = match op["name"].as_str().unwrap() {
                "from_str" => {
                    let t = text(&op["t"]);
                    if kind == "box" {
                        Some(FixedBumpString::from_init(bump.alloc_str(&t)))
                    } else {
                        let mut s = FixedBumpString::with_capacity_in(cap_of(op, kind, t.len()), bump);
                        s.push_str(&t);
                        Some(s)
                    }
                }
                "fmt" => {
                    let mut s = FixedBumpString::with_capacity_in(cap_of(op, kind, ROOMY), bump);
                    match catch(|| with_args(op, |a| fmt::Write::write_fmt(&mut s, a))) {
                        Ok(Ok(())) => {}
                        Ok(Err(_)) => o.out = "err",
                        Err(m) => o.panicked(m),
                    }
                    Some(s)
                }
                "from_utf8" => {
                    let b = bytes_of(&op["bytes"]);
                    let mut v = FixedBumpVec::with_capacity_in(cap_of(op, kind, b.len()), bump);
                    v.extend_from_slice_copy(&b);
                    utf8_result!(FixedBumpString::from_utf8(v), o)
                }
                _ => return None,
            };
            Some((s, o))
        }

        fn ctor_bstr<'a>(
            bump: &'a BB,
            op: &Value,
        ) -> Option<(Option<BumpString<&'a BB>>, Out)> {
            ctor_growing!(BumpString, BumpVec, bump, op)
        }

        fn ctor_mstr<'a>(
            bump: &'a mut BB,
            op: &Value,
        ) -> Option<(Option<MutBumpString<&'a mut BB>>, Out)> {
            ctor_growing!(MutBumpString, MutBumpVec, bump, op)
        }

        pub(crate) fn run_cfg(ctx: &mut Ctx, beh: u64, cfg: &str, steps: &[Value]) {
            let op = &steps[0]["op"];
            let mut aux: BB = Bump::new();
            let mut pure = |op: &Value, o: &mut Out| pure_cstr(&mut aux, op, o);
            {
                let mut bump: BB = Bump::new();
                if let Some(first) = ctor_box(&mut bump, op) {
                    replay(ctx, beh, cfg, steps, first, &mut pure);
                }
            }
            {
                let bump: BB = Bump::new();
                if let Some(first) = ctor_fixed(&bump, op) {
                    replay(ctx, beh, cfg, steps, first, &mut pure);
                }
            }
            {
                let bump: BB = Bump::new();
                if let Some(first) = ctor_bstr(&bump, op) {
                    replay(ctx, beh, cfg, steps, first, &mut pure);
                }
            }
            {
                let mut bump: BB = Bump::new();
                if let Some(first) = ctor_mstr(&mut bump, op) {
                    replay(ctx, beh, cfg, steps, first, &mut pure);
                }
            }
        }

        }
    };
}

per_cfg!(u1, 1, true);
per_cfg!(d1, 1, false);
per_cfg!(u8_, 8, true);
per_cfg!(d8, 8, false);

fn main() {
    // panics of the code under test are data
    std::panic::set_hook(Box::new(|_| {}));
    let args: Vec<String> = std::env::args().collect();
    if args.len() < 4 {
        eprintln!("usage: strs <behaviours.ndjson> <observations.ndjson> <rotate|all>");
        std::process::exit(2);
    }
    let input = BufReader::new(std::fs::File::open(&args[1]).expect("behaviours file"));
    let mut out = BufWriter::with_capacity(1 << 20, std::fs::File::create(&args[2]).expect("observation file"));
    let all = args[3] == "all";
    let from: u64 = args.get(4).map_or(0, |a| a.parse().expect("first behaviour id"));
    let trace = std::env::var("STRS_TRACE").is_ok();
    let mut ctx = Ctx { w: &mut out, steps: 0, lines: 0, seen: Default::default(), trace };
    // panics that escape from the code under test outside a recorded step (constructors): data, written to <obs>.escaped
    let mut escaped: Vec<String> = Vec::new();
    let mut nbeh = 0u64;
    for line in input.lines() {
        let line = line.unwrap();
        if line.trim().is_empty() {
            continue;
        }
        let v: Value = serde_json::from_str(&line).expect("behaviour json");
        let id = v["id"].as_u64().unwrap();
        let steps = v["steps"].as_array().unwrap();
        if steps.is_empty() || id < from {
            continue;
        }
        nbeh += 1;
        for c in 0..5u64 {
            if c < 4 && !all && id % 4 != c {
                continue;
            }
            if trace {
                eprintln!("AT {id} 0 ctor {}", ["u1", "d1", "u8", "d8", "std"][c as usize]);
            }
            let r = catch(|| match c {
                0 => u1::run_cfg(&mut ctx, id, "u1", steps),
                1 => d1::run_cfg(&mut ctx, id, "d1", steps),
                2 => u8_::run_cfg(&mut ctx, id, "u8", steps),
                3 => d8::run_cfg(&mut ctx, id, "d8", steps),
                _ => {
                    if let Some(first) = ctor_std(&steps[0]["op"]) {
                        let mut aux: Bump<Global, BumpSettings<1, true>> = Bump::new();
                        let mut pure = |op: &Value, o: &mut Out| u1::pure_cstr(&mut aux, op, o);
                        replay(&mut ctx, id, "std", steps, first, &mut pure);
                    }
                }
            });
            if let Err(msg) = r {
                if msg.starts_with("harness") || c == 4 {
                    eprintln!("harness failure in behaviour {id} (cfg {c}): {msg}");
                    std::process::exit(3);
                }
                escaped.push(format!(
                    "{{\"beh\":{id},\"cfg\":\"{}\",\"msg\":{}}}",
                    ["u1", "d1", "u8", "d8"][c as usize],
                    serde_json::to_string(&msg).unwrap()
                ));
            }
        }
    }
    let (steps, lines) = (ctx.steps, ctx.lines);
    out.flush().unwrap();
    std::fs::write(format!("{}.escaped", &args[2]), escaped.join("\n")).unwrap();
    // behaviours read, steps executed, distinct records written
    println!("{nbeh} {steps} {lines}");
}
