//! replay <behaviours.ndjson> <observations.ndjson> <variant>[,<variant>...] [--from N]
//! Replays every behaviour (one JSON object per line: {"id", "cfg", "steps"}) once per entry-point variant.
mod interp;
mod ops;
mod region;

use bump_scope::settings::BumpSettings;
use bump_scope::Bump;
use interp::{run_root, Ctx};
use ops::BumpOps;
use region::{region, BigA, Flavour, PtrA, ZstA};
use serde_json::Value;
use std::alloc::Layout;
use std::io::{BufRead, BufWriter, Write};

fn make<A, const MA: usize, const UP: bool, const GA: bool, const DE: bool, const SH: bool, const MCS: usize>(
    ctor: &Value,
) -> Option<Box<dyn BumpOps>>
where
    A: Flavour + bump_scope::BaseAllocator<bump_scope::settings::Bool<GA>>,
    bump_scope::settings::MinimumAlignment<MA>: bump_scope::settings::SupportedMinimumAlignment,
    Bump<A, BumpSettings<MA, UP, GA, true, DE, SH, MCS>>: BumpOps + MaybeUnallocated<A>,
{
    let k = ctor["k"].as_str().unwrap_or("new");
    let n = ctor["n"].as_u64().unwrap_or(0) as usize;
    let al = ctor["al"].as_u64().unwrap_or(1) as usize;
    type B<A, const MA: usize, const UP: bool, const GA: bool, const DE: bool, const SH: bool, const MCS: usize> =
        Bump<A, BumpSettings<MA, UP, GA, true, DE, SH, MCS>>;
    let b: B<A, MA, UP, GA, DE, SH, MCS> = match k {
        "new" => Bump::try_new_in(A::default()).ok()?,
        "with_size" => Bump::try_with_size_in(n, A::default()).ok()?,
        "with_capacity" => Bump::try_with_capacity_in(Layout::from_size_align(n, al).unwrap(), A::default()).ok()?,
        "unallocated" => <B<A, MA, UP, GA, DE, SH, MCS> as MaybeUnallocated<A>>::unallocated()?,
        _ => return None,
    };
    Some(Box::new(b))
}

/// `Bump::unallocated()` only exists for GUARANTEED_ALLOCATED = false
pub trait MaybeUnallocated<A>: Sized {
    fn unallocated() -> Option<Self>;
}
impl<A: Flavour, const MA: usize, const UP: bool, const DE: bool, const SH: bool, const MCS: usize> MaybeUnallocated<A>
    for Bump<A, BumpSettings<MA, UP, false, true, DE, SH, MCS>>
where
    bump_scope::settings::MinimumAlignment<MA>: bump_scope::settings::SupportedMinimumAlignment,
{
    fn unallocated() -> Option<Self> {
        Some(Bump::unallocated())
    }
}
impl<A: Flavour, const MA: usize, const UP: bool, const DE: bool, const SH: bool, const MCS: usize> MaybeUnallocated<A>
    for Bump<A, BumpSettings<MA, UP, true, true, DE, SH, MCS>>
where
    bump_scope::settings::MinimumAlignment<MA>: bump_scope::settings::SupportedMinimumAlignment,
{
    fn unallocated() -> Option<Self> {
        None
    }
}

type Maker = fn(&Value) -> Option<Box<dyn BumpOps>>;

/// settings tuple + base allocator flavour -> constructor
fn maker(cfg: &Value) -> Option<Maker> {
    let ma = cfg["ma"].as_u64()?;
    let (up, ga, de, sh) = (cfg["up"].as_bool()?, cfg["ga"].as_bool()?, cfg["dealloc"].as_bool()?, cfg["shrinks"].as_bool()?);
    let mcs = cfg["mcs"].as_u64()?;
    let hs = cfg["hs"].as_u64()?;
    macro_rules! m {
        ($a:ty, $hs:literal, $ma:literal, $up:literal, $ga:literal, $de:literal, $sh:literal, $mcs:literal) => {
            if hs == $hs && ma == $ma && up == $up && ga == $ga && de == $de && sh == $sh && mcs == $mcs {
                return Some(make::<$a, $ma, $up, $ga, $de, $sh, $mcs> as Maker);
            }
        };
    }
    macro_rules! all_ma {
        ($a:ty, $hs:literal, $up:literal, $ga:literal, $de:literal, $sh:literal, $mcs:literal) => {
            m!($a, $hs, 1, $up, $ga, $de, $sh, $mcs);
            m!($a, $hs, 2, $up, $ga, $de, $sh, $mcs);
            m!($a, $hs, 4, $up, $ga, $de, $sh, $mcs);
            m!($a, $hs, 8, $up, $ga, $de, $sh, $mcs);
            m!($a, $hs, 16, $up, $ga, $de, $sh, $mcs);
        };
    }
    // quick tier: a covering subset -- every value of every setting with every base allocator flavour and both
    // directions; keep in sync with QuickTuples in spec/MC_Arena.tla
    {
        all_ma!(ZstA, 32, true, true, true, true, 0);
        all_ma!(PtrA, 48, false, true, true, true, 0);
        all_ma!(BigA, 128, true, false, true, true, 0);
        all_ma!(ZstA, 32, false, false, true, true, 512);
        all_ma!(PtrA, 48, true, true, false, true, 512);
        all_ma!(BigA, 128, false, true, false, false, 0);
        all_ma!(ZstA, 32, true, true, true, false, 0);
        all_ma!(PtrA, 48, false, false, true, false, 512);
        all_ma!(PtrA, 48, true, false, true, true, 0);
        all_ma!(BigA, 128, false, false, true, true, 512);
        all_ma!(BigA, 128, true, true, true, true, 512);
        all_ma!(ZstA, 32, false, true, true, false, 0);
    }
    // thorough tier: every one of the 32 settings combinations (x 5 minimum alignments), each with one base allocator
    // flavour in rotation, in addition to the quick tuples; keep in sync with FullCfgs in spec/MC_Arena.tla
    #[cfg(feature = "full")]
    {
        all_ma!(ZstA, 32, true, true, true, true, 0);
        all_ma!(PtrA, 48, true, true, true, true, 512);
        all_ma!(PtrA, 48, true, true, true, false, 0);
        all_ma!(BigA, 128, true, true, true, false, 512);
        all_ma!(BigA, 128, true, true, false, true, 0);
        all_ma!(ZstA, 32, true, true, false, true, 512);
        all_ma!(ZstA, 32, true, true, false, false, 0);
        all_ma!(PtrA, 48, true, true, false, false, 512);
        all_ma!(PtrA, 48, true, false, true, true, 0);
        all_ma!(BigA, 128, true, false, true, true, 512);
        all_ma!(BigA, 128, true, false, true, false, 0);
        all_ma!(ZstA, 32, true, false, true, false, 512);
        all_ma!(ZstA, 32, true, false, false, true, 0);
        all_ma!(PtrA, 48, true, false, false, true, 512);
        all_ma!(PtrA, 48, true, false, false, false, 0);
        all_ma!(BigA, 128, true, false, false, false, 512);
        all_ma!(BigA, 128, false, true, true, true, 0);
        all_ma!(ZstA, 32, false, true, true, true, 512);
        all_ma!(ZstA, 32, false, true, true, false, 0);
        all_ma!(PtrA, 48, false, true, true, false, 512);
        all_ma!(PtrA, 48, false, true, false, true, 0);
        all_ma!(BigA, 128, false, true, false, true, 512);
        all_ma!(BigA, 128, false, true, false, false, 0);
        all_ma!(ZstA, 32, false, true, false, false, 512);
        all_ma!(ZstA, 32, false, false, true, true, 0);
        all_ma!(PtrA, 48, false, false, true, true, 512);
        all_ma!(PtrA, 48, false, false, true, false, 0);
        all_ma!(BigA, 128, false, false, true, false, 512);
        all_ma!(BigA, 128, false, false, false, true, 0);
        all_ma!(ZstA, 32, false, false, false, true, 512);
        all_ma!(ZstA, 32, false, false, false, false, 0);
        all_ma!(PtrA, 48, false, false, false, false, 512);
    }
    None
}

fn main() {
    ops::check_try_with_layouts();
    std::panic::set_hook(Box::new(|_| {}));
    let args: Vec<String> = std::env::args().collect();
    if args.len() >= 2 && args[1] == "--list-cfgs" {
        // print the settings tuples compiled into this binary (the orchestrator restricts TLC's Cfgs to them)
        for hs in [32u64, 48, 128] {
            for ma in [1u64, 2, 4, 8, 16] {
                for up in [true, false] {
                    for ga in [true, false] {
                        for de in [true, false] {
                            for sh in [true, false] {
                                for mcs in [0u64, 512] {
                                    let cfg = serde_json::json!({"ma": ma, "up": up, "ga": ga, "dealloc": de, "shrinks": sh, "mcs": mcs, "hs": hs});
                                    if maker(&cfg).is_some() {
                                        println!("{}", cfg);
                                    }
                                }
                            }
                        }
                    }
                }
            }
        }
        return;
    }
    let inp = std::io::BufReader::new(std::fs::File::open(&args[1]).expect("behaviour file"));
    let mut out = BufWriter::with_capacity(1 << 20, std::fs::File::create(&args[2]).expect("observation file"));
    let variants: Vec<&str> = args[3].split(',').collect();
    let mut from: u64 = 0;
    if args.len() >= 6 && args[4] == "--from" {
        from = args[5].parse().unwrap();
    }
    let progress_path = format!("{}.progress", &args[2]);
    let (mut nbeh, mut nlines, mut skipped) = (0u64, 0u64, 0u64);
    let stats_path = format!("{}.stats", &args[2]);
    for (lineno, line) in inp.lines().enumerate() {
        let line = line.unwrap();
        if line.trim().is_empty() {
            continue;
        }
        let beh: Value = serde_json::from_str(&line).expect("behaviour json");
        let id = beh["id"].as_u64().unwrap_or(lineno as u64 + 1);
        if id < from {
            continue;
        }
        // progress marker: if the process dies (abort / segfault in the code under test), the orchestrator
        // knows which behaviour was being replayed and resumes after it
        std::fs::write(&progress_path, format!("{}", id)).ok();
        let cfg = &beh["cfg"];
        let steps = beh["steps"].as_array().expect("steps");
        let Some(mk) = maker(cfg) else {
            skipped += 1;
            continue;
        };
        for variant in &variants {
            region().reset(cfg["extra"].as_u64().unwrap_or(0) as usize, cfg["skew"].as_bool().unwrap_or(false));
            let mut ctx = Ctx {
                beh_id: id,
                variant,
                cfg,
                steps,
                pc: 0,
                out: &mut out,
                blocks: Default::default(),
                reported: Default::default(),
                entries: Vec::new(),
                cp_entries: Vec::new(),
                cps: Vec::new(),
                cps_stack: Vec::new(),
                lines: 0,
                aborted: None,
                prev_allocated: 0,
                prev_pos: (0, 0),
                claimed: Vec::new(),
                depth: 0,
                last_freed: None,
                vecs: Default::default(),
            };
            let mut mk2 = |c: &Value| mk(c);
            run_root(&mut mk2, &mut ctx);
            nlines += ctx.lines;
        }
        nbeh += 1;
        std::fs::write(&stats_path, format!("{{\"behaviours\":{},\"lines\":{},\"skipped\":{}}}", nbeh, nlines, skipped)).ok();
    }
    out.flush().unwrap();
    std::fs::remove_file(&progress_path).ok();
    println!("{{\"behaviours\":{},\"lines\":{},\"skipped\":{}}}", nbeh, nlines, skipped);
}
