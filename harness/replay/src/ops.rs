//! Object-safe view of a bump allocator handle (`BumpScope`, and `Bump` for the handle-level entry points), so that
//! the interpreter (interp.rs) is written once and only these thin wrappers are instantiated per settings tuple.
//! Nothing here decides anything: every method performs exactly one public call of bump-scope (selected by `via`)
//! and returns what the call returned.
use crate::region::{Flavour, region};
use bump_scope::alloc::{AllocError, Allocator};
use bump_scope::settings::{Bool, BumpSettings, MinimumAlignment, SupportedMinimumAlignment};
use bump_scope::stats::AnyStats;
use bump_scope::traits::{BumpAllocator, BumpAllocatorCore, BumpAllocatorCoreScope, BumpAllocatorScope, BumpAllocatorTyped, BumpAllocatorTypedScope, MutBumpAllocatorTypedScope};
use bump_scope::{BaseAllocator, Bump, BumpScope, BumpScopeGuard, BumpVec, Checkpoint, FixedBumpVec, MutBumpString, MutBumpVec, MutBumpVecRev, WithoutDealloc, WithoutShrink};
use std::alloc::Layout;
use std::ptr::NonNull;

#[derive(Clone, Debug, Default, PartialEq, Eq)]
pub struct ChunkSnap {
    pub start: usize,
    pub size: usize,
    pub lo: usize,
    pub hi: usize,
    pub pos: usize,
    pub allocated: usize,
    pub remaining: usize,
    pub capacity: usize,
}

#[derive(Clone, Debug, Default)]
pub struct Snap {
    pub chunks: Vec<ChunkSnap>,
    /// 1-based index of the current chunk in `chunks`, 0 if there is none (unallocated / claimed)
    pub cur: usize,
    /// count, size, capacity, allocated, remaining
    pub stats: [usize; 5],
    pub any: [usize; 5],
    pub any_chunks: Vec<ChunkSnap>,
    pub any_cur: usize,
    /// big_to_small() is the reverse of small_to_big(), typed and type-erased
    pub rev_ok: bool,
    pub claimed: bool,
}

thread_local! {
    /// set by the interpreter: the closure handed to alloc_try_with(_mut) panics instead of returning
    pub static CLOSURE_PANICS: std::cell::Cell<bool> = const { std::cell::Cell::new(false) };
}
fn closure_may_panic() {
    if CLOSURE_PANICS.with(|c| c.get()) {
        std::panic::panic_any(String::from("scripted closure panic"));
    }
}

pub type AllocRes = Result<(usize, usize), ()>; // (virtual address, returned length)

/// which wrapper the call goes through
#[derive(Clone, Copy, PartialEq, Eq, Debug)]
pub enum Wrap {
    None,
    Wd,
    Ws,
    Both,
}

impl Wrap {
    pub fn parse(s: &str) -> Wrap {
        match s {
            "wd" => Wrap::Wd,
            "ws" => Wrap::Ws,
            "both" => Wrap::Both,
            _ => Wrap::None,
        }
    }
}

pub trait ScopeOps {
    fn snapshot(&self) -> Snap;
    fn min_align(&self) -> usize;
    fn is_up(&self) -> bool;
    fn is_claimed(&self) -> bool;
    fn allocate(&self, layout: Layout, zeroed: bool, via: &str) -> AllocRes;
    fn deallocate(&self, addr: usize, layout: Layout, wrap: Wrap, via: &str);
    fn grow(&self, addr: usize, old: Layout, new: Layout, zeroed: bool, wrap: Wrap, via: &str) -> AllocRes;
    fn shrink(&self, addr: usize, old: Layout, new: Layout, wrap: Wrap, via: &str) -> AllocRes;
    fn reserve(&self, n: usize, via: &str) -> Result<(), ()>;
    /// value-level allocation entry points (alloc, alloc_with, alloc_slice_copy, alloc_str, ...): returns
    /// (address, length in bytes, bytes found there right after the call)
    fn alloc_value(&self, fam: &str, n: usize, tag: u8, via: &str) -> Result<(usize, usize, Vec<u8>), ()>;
    /// alloc_try_with / alloc_try_with_mut: Err(()) = allocation error; Ok((Some((addr, bytes)) | None = closure returned Err, inner block address))
    fn try_with(&mut self, fam: &str, ok: bool, is_mut: bool, inner: bool, tag: u8, via: &str) -> Result<(Option<(usize, Vec<u8>)>, usize), ()>;
    fn checkpoint(&self) -> Checkpoint;
    /// # Safety: the interpreter only passes checkpoints the model says are valid
    unsafe fn reset_to(&self, cp: Checkpoint);
    fn scoped(&mut self, f: &mut dyn FnMut(&mut dyn ScopeOps));
    fn with_guard(&mut self, f: &mut dyn FnMut(&mut dyn GuardOps));
    fn with_claim(&self, f: &mut dyn FnMut(&mut dyn ScopeOps));
    fn with_aligned(&mut self, n: usize, scoped: bool, f: &mut dyn FnMut(&mut dyn ScopeOps));
    /// borrow_mut_with_settings to a higher minimum alignment n
    fn with_bmws(&mut self, n: usize, by_value: bool, f: &mut dyn FnMut(&mut dyn ScopeOps));
    /// second claim on a claimed handle: must panic; returns the panic message if it did
    fn claim_again(&self) -> Option<String>;
    /// alloc_iter_mut / alloc_iter_mut_rev with an iterator that claims `hint` elements and yields `n`:
    /// (address, bytes of the final slice)
    fn iter_mut(&mut self, esz: usize, eal: usize, rev: bool, hint: usize, n: usize, tags: &[u8], via: &str) -> Result<(usize, Vec<u8>), ()>;
    /// alloc_fmt_mut / alloc_cstr_fmt_mut with a Display value that writes the given pieces: (address, bytes incl. NUL)
    fn fmt_mut(&mut self, pieces: &[Vec<u8>], cstr: bool, via: &str) -> Result<(usize, Vec<u8>), ()>;
    /// alloc_iter with an iterator that claims `hint` elements and yields the tags: (address, bytes of the final slice)
    fn iter_grow(&self, esz: usize, eal: usize, hint: usize, tags: &[u8], via: &str) -> Result<(usize, Vec<u8>), ()>;
    /// alloc_fmt / alloc_cstr_fmt with a Display value that writes the given pieces: (address, bytes incl. NUL)
    fn fmt_grow(&self, pieces: &[Vec<u8>], cstr: bool, via: &str) -> Result<(usize, Vec<u8>), ()>;
    /// creates a growable vector (BumpVec<T, A>) with A = a shared reference to this handle, possibly wrapped
    fn vec_new<'s>(&'s self, esz: usize, eal: usize, c0: usize, wrap: Wrap, fixed: bool) -> Result<Box<dyn VecOps + 's>, ()>;
    /// creates an exclusive-borrow collection of elements of layout (esz, eal) with initial capacity c0
    fn prep<'s>(&'s mut self, esz: usize, eal: usize, rev: bool, via: &str, c0: usize, init: Option<u8>) -> Result<Box<dyn PrepOps + 's>, ()>;
}

/// An exclusive-borrow collection being filled (MutBumpVec / MutBumpVecRev, or the raw prepare/commit interface).
pub trait PrepOps {
    /// push one element whose bytes are all `tag`
    fn push(&mut self, tag: u8) -> Result<(), ()>;
    fn reserve(&mut self, additional: usize) -> Result<(), ()>;
    /// the panicking twin of reserve (used for requests that must end in an unwinding panic)
    fn reserve_panicking(&mut self, additional: usize);
    /// append the elements whose bytes are the given tags in one call (extend_from_slice_copy / push_str)
    fn extend(&mut self, tags: &[u8]) -> Result<(), ()>;
    fn len(&self) -> usize;
    fn cap(&self) -> usize;
    fn snapshot(&self) -> Snap;
    /// finalise: (address, length in elements, bytes of the final slice)
    fn commit(self: Box<Self>) -> (usize, usize, Vec<u8>);
    /// map_in_place to the smaller element type of the table (u64 -> u32, [u8; 3] -> u8); None: no such mapping for this collection
    fn map_smaller<'s>(self: Box<Self>) -> Option<Box<dyn PrepOps + 's>>
    where
        Self: 's,
    {
        None
    }
}

/// a Display value that writes its pieces one `write_str` at a time
pub struct Pieces<'p>(pub &'p [Vec<u8>]);
impl std::fmt::Display for Pieces<'_> {
    fn fmt(&self, f: &mut std::fmt::Formatter<'_>) -> std::fmt::Result {
        for pc in self.0 {
            f.write_str(std::str::from_utf8(pc).unwrap())?;
        }
        Ok(())
    }
}

/// an iterator whose size hint may lie
pub struct LyingIter<T> {
    pub items: std::vec::IntoIter<T>,
    pub hint: usize,
}
impl<T> Iterator for LyingIter<T> {
    type Item = T;
    fn next(&mut self) -> Option<T> {
        self.items.next()
    }
    fn size_hint(&self) -> (usize, Option<usize>) {
        (self.hint, None)
    }
}

/// A growable vector living in the arena: `BumpVec<T, A>`, a client of allocate_slice / grow / shrink_slice / deallocate.
pub trait VecOps {
    /// how: push | extend_copy | extend_clone | within_copy | within_clone (the first k elements again) | resize |
    /// reserve | reserve_exact; `tags`: one byte value per new element
    /// `panicking`: through the panicking twin of the method (only when the model expects success)
    fn extend(&mut self, how: &str, k: usize, tags: &[u8], panicking: bool) -> Result<(), ()>;
    fn shrink_to_fit(&mut self);
    fn truncate(&mut self, n: usize);
    /// virtual address of the buffer, 0 when the capacity is 0
    fn addr(&self) -> usize;
    fn len(&self) -> usize;
    fn cap(&self) -> usize;
    fn bytes(&self) -> Vec<u8>;
    /// into_boxed_slice: (address, length in elements, bytes)
    fn into_slice(self: Box<Self>) -> (usize, usize, Vec<u8>);
    /// splice(1..2, repeat(value).take(2^62 + 7)): Some(true) = it panicked (unwinding), Some(false) = it returned, None = not available
    fn splice_huge(&mut self, _tag: u8) -> Option<bool> {
        None
    }
}

impl<'a, T: Elem, A: BumpAllocatorTypedScope<'a>> VecOps for BumpVec<T, A> {
    fn extend(&mut self, how: &str, k: usize, tags: &[u8], panicking: bool) -> Result<(), ()> {
        let vals: Vec<T> = tags.iter().map(|&t| T::make(t)).collect();
        if panicking {
            match how {
                "push" => self.push(vals[0]),
                "extend_copy" => self.extend_from_slice_copy(&vals),
                "extend_clone" => self.extend_from_slice_clone(&vals),
                "within_copy" => self.extend_from_within_copy(0..k),
                "within_clone" => self.extend_from_within_clone(0..k),
                "resize" => {
                    let n = BumpVec::len(self) + k;
                    self.resize(n, vals[0])
                }
                "reserve" => self.reserve(k),
                "reserve_exact" => self.reserve_exact(k),
                other => panic!("unknown vector operation {other}"),
            }
            return Ok(());
        }
        match how {
            "push" => self.try_push(vals[0]),
            "extend_copy" => self.try_extend_from_slice_copy(&vals),
            "extend_clone" => self.try_extend_from_slice_clone(&vals),
            "within_copy" => self.try_extend_from_within_copy(0..k),
            "within_clone" => self.try_extend_from_within_clone(0..k),
            "resize" => {
                let n = BumpVec::len(self) + k;
                self.try_resize(n, vals[0])
            }
            "reserve" => self.try_reserve(k),
            "reserve_exact" => self.try_reserve_exact(k),
            other => panic!("unknown vector operation {other}"),
        }
        .map_err(|_| ())
    }
    fn splice_huge(&mut self, tag: u8) -> Option<bool> {
        let r = std::panic::catch_unwind(std::panic::AssertUnwindSafe(|| {
            self.splice(1..2, std::iter::repeat(T::make(tag)).take((1usize << 62) + 7));
        }));
        Some(r.is_err())
    }
    fn shrink_to_fit(&mut self) {
        BumpVec::shrink_to_fit(self)
    }
    fn truncate(&mut self, n: usize) {
        BumpVec::truncate(self, n)
    }
    fn addr(&self) -> usize {
        if self.capacity() == 0 { 0 } else { v(NonNull::new(self.as_ptr() as *mut u8).unwrap()) }
    }
    fn len(&self) -> usize {
        BumpVec::len(self)
    }
    fn cap(&self) -> usize {
        self.capacity()
    }
    fn bytes(&self) -> Vec<u8> {
        if self.capacity() == 0 { Vec::new() } else { slice_bytes(self.as_ptr(), BumpVec::len(self)) }
    }
    fn into_slice(self: Box<Self>) -> (usize, usize, Vec<u8>) {
        let had_buffer = self.capacity() > 0;
        let b = (*self).into_boxed_slice();
        let len = b.len();
        let ptr = b.into_raw();
        if had_buffer { (v(ptr.cast::<u8>()), len, slice_bytes(ptr.cast::<T>().as_ptr(), len)) } else { (0, 0, Vec::new()) }
    }
}

/// The fixed-capacity vector: allocated once, a request beyond the capacity is refused (`Err` / unwinding panic).
impl<'a, T: Elem> VecOps for FixedBumpVec<'a, T> {
    fn extend(&mut self, how: &str, k: usize, tags: &[u8], panicking: bool) -> Result<(), ()> {
        let vals: Vec<T> = tags.iter().map(|&t| T::make(t)).collect();
        if panicking {
            match how {
                "push" => self.push(vals[0]),
                "extend_copy" => self.extend_from_slice_copy(&vals),
                "extend_clone" => self.extend_from_slice_clone(&vals),
                "within_copy" => self.extend_from_within_copy(0..k),
                "within_clone" => self.extend_from_within_clone(0..k),
                "resize" => {
                    let n = FixedBumpVec::len(self) + k;
                    self.resize(n, vals[0])
                }
                "reserve" => self.reserve(k),
                other => panic!("unknown fixed vector operation {other}"),
            }
            return Ok(());
        }
        match how {
            "push" => self.try_push(vals[0]),
            "extend_copy" => self.try_extend_from_slice_copy(&vals),
            "extend_clone" => self.try_extend_from_slice_clone(&vals),
            "within_copy" => self.try_extend_from_within_copy(0..k),
            "within_clone" => self.try_extend_from_within_clone(0..k),
            "resize" => {
                let n = FixedBumpVec::len(self).saturating_add(k);
                self.try_resize(n, vals[0])
            }
            "reserve" => self.try_reserve(k),
            other => panic!("unknown fixed vector operation {other}"),
        }
        .map_err(|_| ())
    }
    fn shrink_to_fit(&mut self) {}
    fn truncate(&mut self, n: usize) {
        FixedBumpVec::truncate(self, n)
    }
    fn addr(&self) -> usize {
        if self.capacity() == 0 { 0 } else { v(NonNull::new(self.as_ptr() as *mut u8).unwrap()) }
    }
    fn len(&self) -> usize {
        FixedBumpVec::len(self)
    }
    fn cap(&self) -> usize {
        self.capacity()
    }
    fn bytes(&self) -> Vec<u8> {
        if self.capacity() == 0 { Vec::new() } else { slice_bytes(self.as_ptr(), FixedBumpVec::len(self)) }
    }
    fn into_slice(self: Box<Self>) -> (usize, usize, Vec<u8>) {
        let b = (*self).into_boxed_slice();
        let len = b.len();
        let ptr = b.into_raw();
        (v(ptr.cast::<u8>()), len, slice_bytes(ptr.cast::<T>().as_ptr(), len))
    }
}

pub trait Elem: Copy + 'static {
    fn make(tag: u8) -> Self;
    /// the element type `map_in_place` maps to in the harness (itself: no mapping)
    type Smaller: Elem;
    fn shrink(self) -> Self::Smaller;
    const MAPS: bool = false;
}
impl Elem for u8 {
    type Smaller = u8;
    fn shrink(self) -> u8 {
        self
    }
    fn make(t: u8) -> Self {
        t
    }
}
impl Elem for [u8; 3] {
    type Smaller = u8;
    fn shrink(self) -> u8 {
        self[0]
    }
    const MAPS: bool = true;
    fn make(t: u8) -> Self {
        [t; 3]
    }
}
impl Elem for u16 {
    type Smaller = u16;
    fn shrink(self) -> u16 {
        self
    }
    fn make(t: u8) -> Self {
        u16::from_ne_bytes([t; 2])
    }
}
impl Elem for u32 {
    type Smaller = u32;
    fn shrink(self) -> u32 {
        self
    }
    fn make(t: u8) -> Self {
        u32::from_ne_bytes([t; 4])
    }
}
impl Elem for u64 {
    type Smaller = u32;
    fn shrink(self) -> u32 {
        self as u32
    }
    const MAPS: bool = true;
    fn make(t: u8) -> Self {
        u64::from_ne_bytes([t; 8])
    }
}
impl Elem for [u64; 3] {
    type Smaller = [u64; 3];
    fn shrink(self) -> [u64; 3] {
        self
    }
    fn make(t: u8) -> Self {
        [u64::from_ne_bytes([t; 8]); 3]
    }
}
#[derive(Clone, Copy)]
pub struct B24(pub [u8; 24]);
impl Elem for B24 {
    type Smaller = B24;
    fn shrink(self) -> B24 {
        self
    }
    fn make(t: u8) -> Self {
        B24([t; 24])
    }
}
#[derive(Clone, Copy)]
#[repr(align(32))]
pub struct A32(pub [u8; 32]);

/// the layouts of Result<T, E> assumed by spec/Arena.tla (TwFams); checked at start-up
pub fn check_try_with_layouts() {
    fn probe<T: Elem, E>() -> (usize, usize, usize) {
        let r: Result<T, E> = Ok(T::make(1));
        let base = &r as *const _ as usize;
        let off = match &r {
            Ok(t) => t as *const T as usize - base,
            Err(_) => unreachable!(),
        };
        (std::mem::size_of::<Result<T, E>>(), std::mem::align_of::<Result<T, E>>(), off)
    }
    assert_eq!(probe::<u64, u64>(), (16, 8, 8), "layout of Result<u64, u64>");
    assert_eq!(probe::<B24, u8>(), (25, 1, 1), "layout of Result<[u8; 24], u8>");
    assert_eq!(probe::<A32, u8>(), (64, 32, 32), "layout of Result<A32, u8>");
}
impl Elem for A32 {
    type Smaller = A32;
    fn shrink(self) -> A32 {
        self
    }
    fn make(t: u8) -> Self {
        A32([t; 32])
    }
}

fn slice_bytes<T>(ptr: *const T, len: usize) -> Vec<u8> {
    unsafe { std::slice::from_raw_parts(ptr.cast::<u8>(), len * std::mem::size_of::<T>()).to_vec() }
}

pub trait GuardOps {
    fn with_scope(&mut self, f: &mut dyn FnMut(&mut dyn ScopeOps));
    fn reset(&mut self);
}

fn p(v: usize) -> NonNull<u8> {
    NonNull::new(region().real(v)).unwrap()
}
fn v(ptr: NonNull<u8>) -> usize {
    region().vaddr(ptr.as_ptr())
}
fn vres(r: Result<NonNull<[u8]>, AllocError>) -> AllocRes {
    match r {
        Ok(s) => Ok((v(s.cast::<u8>()), s.len())),
        Err(AllocError) => Err(()),
    }
}

fn chunk_snaps_any(st: AnyStats<'_>) -> (Vec<ChunkSnap>, usize, bool, [usize; 5]) {
    let cur = st.current_chunk();
    let mut out = Vec::new();
    let mut cur_idx = 0;
    for c in st.small_to_big() {
        out.push(ChunkSnap {
            start: v(c.chunk_start()),
            size: c.size(),
            lo: v(c.content_start()),
            hi: v(c.content_end()),
            pos: v(c.bump_position()),
            allocated: c.allocated(),
            remaining: c.remaining(),
            capacity: c.capacity(),
        });
        if Some(c) == cur {
            cur_idx = out.len();
        }
    }
    let mut rev: Vec<usize> = st.big_to_small().map(|c| v(c.chunk_start())).collect();
    rev.reverse();
    let fwd: Vec<usize> = out.iter().map(|c| c.start).collect();
    (out, cur_idx, rev == fwd, [st.count(), st.size(), st.capacity(), st.allocated(), st.remaining()])
}

macro_rules! typed_snap {
    ($st:expr) => {{
        let st = $st;
        let cur = st.current_chunk();
        let mut out = Vec::new();
        let mut cur_idx = 0;
        for c in st.small_to_big() {
            out.push(ChunkSnap {
                start: v(c.chunk_start()),
                size: c.size(),
                lo: v(c.content_start()),
                hi: v(c.content_end()),
                pos: v(c.bump_position()),
                allocated: c.allocated(),
                remaining: c.remaining(),
                capacity: c.capacity(),
            });
            if Some(c) == cur {
                cur_idx = out.len();
            }
        }
        let mut rev: Vec<usize> = st.big_to_small().map(|c| v(c.chunk_start())).collect();
        rev.reverse();
        let fwd: Vec<usize> = out.iter().map(|c| c.start).collect();
        (out, cur_idx, rev == fwd, [st.count(), st.size(), st.capacity(), st.allocated(), st.remaining()])
    }};
}

#[derive(Clone, Copy)]
#[repr(align(64))]
pub struct A64(pub [u8; 64]);

/// Typed fast paths (compile-time layout hints): `try_allocate_sized::<T>()` when the layout is exactly a type of the
/// table, `try_allocate_slice::<T>(n)` when the size is a multiple of the alignment; None = no typed path for this layout.
macro_rules! typed_allocate {
    ($h:expr, $layout:expr) => {{
        let h = $h;
        let l: Layout = $layout;
        let (sz, al) = (l.size(), l.align());
        macro_rules! go {
            ($t:ty) => {
                if sz == al {
                    Some(h.try_allocate_sized::<$t>().map(|p| (v(p.cast::<u8>()), sz)).map_err(|_| ()))
                } else {
                    Some(h.try_allocate_slice::<$t>(sz / al).map(|p| (v(p.cast::<u8>()), sz)).map_err(|_| ()))
                }
            };
        }
        if sz == 0 || sz % al != 0 {
            None // values of zero-sized types never touch the allocator; unaligned sizes have no array type
        } else {
            match al {
                1 => go!(u8),
                2 => go!(u16),
                4 => go!(u32),
                8 => go!(u64),
                16 => go!(u128),
                32 => go!(A32),
                64 => go!(A64),
                _ => None,
            }
        }
    }};
}

/// One allocator-interface call through the entry point named by `via`, on anything that implements the traits.
/// `$h` is an expression of a type implementing Allocator + BumpAllocatorCore + BumpAllocatorTyped (a `&BumpScope`).
macro_rules! do_allocate {
    ($h:expr, $layout:expr, $zeroed:expr, $via:expr) => {{
        let h = $h;
        let layout: Layout = $layout;
        match ($via, $zeroed) {
            ("dyn", false) => vres((h as &dyn BumpAllocatorCore).allocate(layout)),
            ("dyn", true) => vres((h as &dyn BumpAllocatorCore).allocate_zeroed(layout)),
            ("ref", false) => vres(Allocator::allocate(&h, layout)),
            ("ref", true) => vres(Allocator::allocate_zeroed(&h, layout)),
            ("layout", false) => match h.try_allocate_layout(layout) {
                Ok(ptr) => Ok((v(ptr), layout.size())),
                Err(_) => Err(()),
            },
            ("layout_panicking", false) => Ok((v(h.allocate_layout(layout)), layout.size())),
            ("typed", false) => match typed_allocate!(h, layout) {
                Some(r) => r,
                None => match h.try_allocate_layout(layout) {
                    Ok(ptr) => Ok((v(ptr), layout.size())),
                    Err(_) => Err(()),
                },
            },
            (_, false) => vres(Allocator::allocate(h, layout)),
            (_, true) => vres(Allocator::allocate_zeroed(h, layout)),
        }
    }};
}

fn raw_bytes(addr: usize, len: usize) -> Vec<u8> {
    unsafe { std::slice::from_raw_parts(region().real(addr), len).to_vec() }
}
fn boxed_out<T: ?Sized>(b: bump_scope::BumpBox<'_, T>) -> (usize, usize, Vec<u8>) {
    let len = std::mem::size_of_val::<T>(&*b);
    let ptr = b.into_raw();
    let addr = v(ptr.cast::<u8>());
    (addr, len, raw_bytes(addr, len))
}

/// One value-level call `$try_m` / `$m` (its panicking twin) with arguments `$args`, carried by the entry point `via`:
///   trait      BumpAllocatorTypedScope method on `&BumpScope`              (try_)
///   dyn        the same method on `&dyn BumpAllocatorCoreScope`             (try_)
///   ref        the same method with receiver type `&&BumpScope`             (try_)
///   layout     inherent (forwarded) method of the handle type               (try_)
///   panicking  inherent (forwarded) method of the handle type               (panicking twin)
///   typed      trait method                                                 (panicking twin)
macro_rules! value_call {
    ($self:ident, $via:expr, $try_m:ident, $m:ident, ($($args:expr),*), $conv:expr) => {{
        let ts = $self.tscope();
        let conv = $conv;
        match $via {
            "dyn" => {
                let d: &dyn BumpAllocatorCoreScope<'_> = ts;
                BumpAllocatorTypedScope::$try_m(d, $($args),*).map(conv).map_err(|_| ())
            }
            "ref" => BumpAllocatorTypedScope::$try_m(&ts, $($args),*).map(conv).map_err(|_| ()),
            "layout" => $self.$try_m($($args),*).map(conv).map_err(|_| ()),
            "panicking" => Ok(conv($self.$m($($args),*))),
            "typed" => Ok(conv(BumpAllocatorTypedScope::$m(ts, $($args),*))),
            _ => BumpAllocatorTypedScope::$try_m(ts, $($args),*).map(conv).map_err(|_| ()),
        }
    }};
}

macro_rules! with_wrap {
    ($h:expr, $wrap:expr, |$a:ident| $body:expr) => {{
        let h = $h;
        match $wrap {
            Wrap::None => {
                let $a = h;
                $body
            }
            Wrap::Wd => {
                let w = WithoutDealloc(h);
                let $a = &w;
                $body
            }
            Wrap::Ws => {
                let w = WithoutShrink(h);
                let $a = &w;
                $body
            }
            Wrap::Both => {
                let w = WithoutDealloc(WithoutShrink(h));
                let $a = &w;
                $body
            }
        }
    }};
}

macro_rules! impl_scope_ops {
    () => {
        fn snapshot(&self) -> Snap {
            let (chunks, cur, rev1, stats) = typed_snap!(self.stats());
            let (any_chunks, any_cur, rev2, any) = chunk_snaps_any(BumpAllocatorCore::any_stats(self));
            Snap { chunks, cur, stats, any, any_chunks, any_cur, rev_ok: rev1 && rev2, claimed: BumpAllocatorCore::is_claimed(self) }
        }
        fn min_align(&self) -> usize {
            MA
        }
        fn is_up(&self) -> bool {
            UP
        }
        fn is_claimed(&self) -> bool {
            BumpAllocatorCore::is_claimed(self)
        }
        fn allocate(&self, layout: Layout, zeroed: bool, via: &str) -> AllocRes {
            do_allocate!(self, layout, zeroed, via)
        }
        fn deallocate(&self, addr: usize, layout: Layout, wrap: Wrap, via: &str) {
            unsafe {
                match via {
                    "dyn" => match wrap {
                        Wrap::None => Allocator::deallocate(self as &dyn BumpAllocatorCore, p(addr), layout),
                        _ => with_wrap!(self, wrap, |a| Allocator::deallocate(a, p(addr), layout)),
                    },
                    _ => with_wrap!(self, wrap, |a| Allocator::deallocate(a, p(addr), layout)),
                }
            }
        }
        fn grow(&self, addr: usize, old: Layout, new: Layout, zeroed: bool, wrap: Wrap, _via: &str) -> AllocRes {
            unsafe {
                if zeroed {
                    with_wrap!(self, wrap, |a| vres(Allocator::grow_zeroed(a, p(addr), old, new)))
                } else {
                    with_wrap!(self, wrap, |a| vres(Allocator::grow(a, p(addr), old, new)))
                }
            }
        }
        fn shrink(&self, addr: usize, old: Layout, new: Layout, wrap: Wrap, via: &str) -> AllocRes {
            // typed entry point: BumpAllocatorTyped::shrink_slice::<T> (what BumpVec::shrink_to_fit / into_boxed_slice use)
            if via == "typed" && wrap == Wrap::None && old.align() == new.align() && old.size() % old.align() == 0
                && new.size() % new.align() == 0 && new.size() > 0
            {
                let al = old.align();
                macro_rules! go {
                    ($t:ty) => {{
                        let r = unsafe { self.shrink_slice::<$t>(p(addr).cast::<$t>(), old.size() / al, new.size() / al) };
                        return Ok(match r {
                            Some(np) => (v(np.cast::<u8>()), new.size()),
                            None => (addr, old.size()), // unchanged: the caller keeps the old capacity
                        });
                    }};
                }
                match al {
                    1 => go!(u8),
                    2 => go!(u16),
                    4 => go!(u32),
                    8 => go!(u64),
                    16 => go!(u128),
                    32 => go!(A32),
                    64 => go!(A64),
                    _ => {}
                }
            }
            unsafe { with_wrap!(self, wrap, |a| vres(Allocator::shrink(a, p(addr), old, new))) }
        }
        fn reserve(&self, n: usize, via: &str) -> Result<(), ()> {
            match via {
                "panicking" => {
                    BumpAllocatorTyped::reserve(self, n);
                    Ok(())
                }
                _ => BumpAllocatorTyped::try_reserve(self, n).map_err(|_| ()),
            }
        }
        fn alloc_value(&self, fam: &str, n: usize, tag: u8, via: &str) -> Result<(usize, usize, Vec<u8>), ()> {
            let text: String = std::iter::repeat((b'a' + tag % 26) as char).take(n).collect();
            match fam {
                "u64" => value_call!(self, via, try_alloc, alloc, (u64::make(tag)), boxed_out),
                "with_u64" => value_call!(self, via, try_alloc_with, alloc_with, (|| u64::make(tag)), boxed_out),
                "default_u32" => value_call!(self, via, try_alloc_default, alloc_default, (), boxed_out::<u32>),
                "copy_u8" => value_call!(self, via, try_alloc_slice_copy, alloc_slice_copy, (&vec![tag; n][..]), boxed_out),
                "clone_u16" => value_call!(self, via, try_alloc_slice_clone, alloc_slice_clone, (&vec![u16::make(tag); n][..]), boxed_out),
                "move_u32" => value_call!(self, via, try_alloc_slice_move, alloc_slice_move, (vec![u32::make(tag); n]), boxed_out),
                "fill_u64" => value_call!(self, via, try_alloc_slice_fill, alloc_slice_fill, (n, u64::make(tag)), boxed_out),
                "fill_with_u8" => value_call!(self, via, try_alloc_slice_fill_with, alloc_slice_fill_with, (n, || tag), boxed_out),
                "str" => value_call!(self, via, try_alloc_str, alloc_str, (&text), boxed_out),
                "cstr_from_str" => value_call!(self, via, try_alloc_cstr_from_str, alloc_cstr_from_str, (&text), |c: &std::ffi::CStr| {
                    let b = c.to_bytes_with_nul();
                    (v(NonNull::new(b.as_ptr() as *mut u8).unwrap()), b.len(), b.to_vec())
                }),
                "cstr" => {
                    let c = std::ffi::CString::new(text.clone()).unwrap();
                    value_call!(self, via, try_alloc_cstr, alloc_cstr, (&c), |c: &std::ffi::CStr| {
                        let b = c.to_bytes_with_nul();
                        (v(NonNull::new(b.as_ptr() as *mut u8).unwrap()), b.len(), b.to_vec())
                    })
                }
                "uninit_for_u16" => value_call!(self, via, try_alloc_uninit_slice_for, alloc_uninit_slice_for, (&vec![0u16; n][..]), |b: bump_scope::BumpBox<'_, [std::mem::MaybeUninit<u16>]>| {
                    let (a, l, _) = boxed_out(b);
                    (a, l, Vec::new())
                }),
                "uninit_u64" => value_call!(self, via, try_alloc_uninit, alloc_uninit, (), |b: bump_scope::BumpBox<'_, std::mem::MaybeUninit<u64>>| {
                    let (a, l, _) = boxed_out(b);
                    (a, l, Vec::new())
                }),
                "uninit_slice_u32" => value_call!(self, via, try_alloc_uninit_slice, alloc_uninit_slice, (n), |b: bump_scope::BumpBox<'_, [std::mem::MaybeUninit<u32>]>| {
                    let (a, l, _) = boxed_out(b);
                    (a, l, Vec::new())
                }),
                "iter_exact_u64" => value_call!(self, via, try_alloc_iter_exact, alloc_iter_exact, ((0..n).map(|_| u64::make(tag))), boxed_out),
                _ => panic!("unknown value family {fam}"),
            }
        }
        fn try_with(&mut self, fam: &str, ok: bool, is_mut: bool, inner: bool, tag: u8, via: &str) -> Result<(Option<(usize, Vec<u8>)>, usize), ()> {
            let inner_addr = std::cell::Cell::new(0usize);
            macro_rules! go {
                ($t:ty, $e:ty, $eval:expr) => {{
                    let r: Result<Result<bump_scope::BumpBox<'_, $t>, $e>, ()> = if is_mut {
                        let f = || -> Result<$t, $e> {
                            closure_may_panic();
                            if ok { Ok(<$t>::make(tag)) } else { Err($eval) }
                        };
                        match via {
                            "panicking" | "typed" => Ok(self.alloc_try_with_mut(f)),
                            _ => self.try_alloc_try_with_mut(f).map_err(|_| ()),
                        }
                    } else {
                        let this = &*self;
                        let f = || -> Result<$t, $e> {
                            if inner {
                                if let Ok((a, _)) = ScopeOps::allocate(this, Layout::from_size_align(8, 8).unwrap(), false, "trait") {
                                    inner_addr.set(a);
                                }
                            }
                            closure_may_panic();
                            if ok { Ok(<$t>::make(tag)) } else { Err($eval) }
                        };
                        match via {
                            "panicking" | "typed" => Ok(this.alloc_try_with(f)),
                            _ => this.try_alloc_try_with(f).map_err(|_| ()),
                        }
                    };
                    match r {
                        Err(()) => Err(()),
                        Ok(Ok(b)) => {
                            let (a, _, bytes) = boxed_out(b);
                            Ok((Some((a, bytes)), inner_addr.get()))
                        }
                        Ok(Err(_)) => Ok((None, inner_addr.get())),
                    }
                }};
            }
            match fam {
                "u64_u64" => go!(u64, u64, 7u64),
                "b24_u8" => go!(B24, u8, 7u8),
                "a32_u8" => go!(A32, u8, 7u8),
                _ => panic!("unknown try_with family {fam}"),
            }
        }
        fn fmt_mut(&mut self, pieces: &[Vec<u8>], cstr: bool, via: &str) -> Result<(usize, Vec<u8>), ()> {
            let pv = Pieces(pieces);
            let panicking = via == "panicking" || via == "typed";
            if cstr {
                let r = if panicking { Ok(self.alloc_cstr_fmt_mut(format_args!("{}", pv))) } else { self.try_alloc_cstr_fmt_mut(format_args!("{}", pv)).map_err(|_| ()) };
                r.map(|c| {
                    let b = c.to_bytes_with_nul();
                    (v(NonNull::new(b.as_ptr() as *mut u8).unwrap()), b.to_vec())
                })
            } else {
                let r = if panicking { Ok(self.alloc_fmt_mut(format_args!("{}", pv))) } else { self.try_alloc_fmt_mut(format_args!("{}", pv)).map_err(|_| ()) };
                r.map(|b| {
                    let (a, _, bytes) = boxed_out(b);
                    (a, bytes)
                })
            }
        }
        fn iter_grow(&self, esz: usize, eal: usize, hint: usize, tags: &[u8], via: &str) -> Result<(usize, Vec<u8>), ()> {
            macro_rules! go {
                ($t:ty) => {{
                    let items: Vec<$t> = tags.iter().map(|&t| <$t>::make(t)).collect();
                    let it = LyingIter { items: items.into_iter(), hint };
                    let ts = self.tscope();
                    let r = match via {
                        "panicking" | "typed" => Ok(self.alloc_iter(it)),
                        "dyn" => {
                            let d: &dyn BumpAllocatorCoreScope<'_> = ts;
                            BumpAllocatorTypedScope::try_alloc_iter(d, it).map_err(|_| ())
                        }
                        "ref" => BumpAllocatorTypedScope::try_alloc_iter(&ts, it).map_err(|_| ()),
                        "layout" => self.try_alloc_iter(it).map_err(|_| ()),
                        _ => BumpAllocatorTypedScope::try_alloc_iter(ts, it).map_err(|_| ()),
                    };
                    r.map(|b| {
                        let (a, _, bytes) = boxed_out(b);
                        (a, bytes)
                    })
                }};
            }
            match (esz, eal) {
                (1, 1) => go!(u8),
                (8, 8) => go!(u64),
                (32, 32) => go!(A32),
                _ => panic!("no element type for layout ({esz}, {eal})"),
            }
        }
        fn fmt_grow(&self, pieces: &[Vec<u8>], cstr: bool, via: &str) -> Result<(usize, Vec<u8>), ()> {
            let pv = Pieces(pieces);
            let ts = self.tscope();
            if cstr {
                let r = match via {
                    "panicking" | "typed" => Ok(self.alloc_cstr_fmt(format_args!("{}", pv))),
                    "dyn" => {
                        let d: &dyn BumpAllocatorCoreScope<'_> = ts;
                        BumpAllocatorTypedScope::try_alloc_cstr_fmt(d, format_args!("{}", pv)).map_err(|_| ())
                    }
                    "layout" => self.try_alloc_cstr_fmt(format_args!("{}", pv)).map_err(|_| ()),
                    _ => BumpAllocatorTypedScope::try_alloc_cstr_fmt(ts, format_args!("{}", pv)).map_err(|_| ()),
                };
                r.map(|c| {
                    let b = c.to_bytes_with_nul();
                    (v(NonNull::new(b.as_ptr() as *mut u8).unwrap()), b.to_vec())
                })
            } else {
                let r = match via {
                    "panicking" | "typed" => Ok(self.alloc_fmt(format_args!("{}", pv))),
                    "dyn" => {
                        let d: &dyn BumpAllocatorCoreScope<'_> = ts;
                        BumpAllocatorTypedScope::try_alloc_fmt(d, format_args!("{}", pv)).map_err(|_| ())
                    }
                    "layout" => self.try_alloc_fmt(format_args!("{}", pv)).map_err(|_| ()),
                    _ => BumpAllocatorTypedScope::try_alloc_fmt(ts, format_args!("{}", pv)).map_err(|_| ()),
                };
                r.map(|b| {
                    let (a, _, bytes) = boxed_out(b);
                    (a, bytes)
                })
            }
        }
        fn iter_mut(&mut self, esz: usize, eal: usize, rev: bool, hint: usize, _n: usize, tags: &[u8], via: &str) -> Result<(usize, Vec<u8>), ()> {
            macro_rules! go {
                ($t:ty) => {{
                    let items: Vec<$t> = tags.iter().map(|&t| <$t>::make(t)).collect();
                    let it = LyingIter { items: items.into_iter(), hint };
                    let r = match (rev, via) {
                        (false, "panicking") | (false, "typed") => Ok(self.alloc_iter_mut(it)),
                        (false, "ref") | (false, "dyn") => MutBumpAllocatorTypedScope::try_alloc_iter_mut(&mut *self.tscope_mut(), it).map_err(|_| ()),
                        (false, _) => self.try_alloc_iter_mut(it).map_err(|_| ()),
                        (true, "panicking") | (true, "typed") => Ok(self.alloc_iter_mut_rev(it)),
                        (true, "ref") | (true, "dyn") => MutBumpAllocatorTypedScope::try_alloc_iter_mut_rev(&mut *self.tscope_mut(), it).map_err(|_| ()),
                        (true, _) => self.try_alloc_iter_mut_rev(it).map_err(|_| ()),
                    };
                    r.map(|b| {
                        let (a, _, bytes) = boxed_out(b);
                        (a, bytes)
                    })
                }};
            }
            match (esz, eal) {
                (1, 1) => go!(u8),
                (3, 1) => go!([u8; 3]),
                (8, 8) => go!(u64),
                (32, 32) => go!(A32),
                _ => panic!("no element type for layout ({esz}, {eal})"),
            }
        }
        fn checkpoint(&self) -> Checkpoint {
            BumpAllocatorCore::checkpoint(self)
        }
        unsafe fn reset_to(&self, cp: Checkpoint) {
            unsafe { BumpAllocatorCore::reset_to(self, cp) }
        }
    };
}

impl<'a, A, const MA: usize, const UP: bool, const GA: bool, const DE: bool, const SH: bool, const MCS: usize> ScopeOps
    for BumpScope<'a, A, BumpSettings<MA, UP, GA, true, DE, SH, MCS>>
where
    A: Flavour + BaseAllocator<Bool<GA>>,
    MinimumAlignment<MA>: SupportedMinimumAlignment,
{
    impl_scope_ops!();

    fn with_bmws(&mut self, n: usize, by_value: bool, f: &mut dyn FnMut(&mut dyn ScopeOps)) {
        // `MA` is a const generic: the transmutes below are the identity in the branch that is taken
        unsafe {
            match MA {
                1 => bmws_1::<A, UP, GA, DE, SH, MCS>(std::mem::transmute(self), n, by_value, f),
                2 => bmws_2::<A, UP, GA, DE, SH, MCS>(std::mem::transmute(self), n, by_value, f),
                4 => bmws_4::<A, UP, GA, DE, SH, MCS>(std::mem::transmute(self), n, by_value, f),
                8 => bmws_8::<A, UP, GA, DE, SH, MCS>(std::mem::transmute(self), n, by_value, f),
                _ => bmws_16::<A, UP, GA, DE, SH, MCS>(std::mem::transmute(self), n, by_value, f),
            }
        }
    }

    fn scoped(&mut self, f: &mut dyn FnMut(&mut dyn ScopeOps)) {
        BumpAllocator::scoped(self, |inner| f(inner));
    }
    fn with_guard(&mut self, f: &mut dyn FnMut(&mut dyn GuardOps)) {
        let mut g = BumpAllocator::scope_guard(self);
        f(&mut g);
    }
    fn with_claim(&self, f: &mut dyn FnMut(&mut dyn ScopeOps)) {
        let mut g = BumpAllocatorScope::claim(self);
        f(&mut *g);
    }
    fn claim_again(&self) -> Option<String> {
        let r = std::panic::catch_unwind(std::panic::AssertUnwindSafe(|| {
            let g = BumpAllocatorScope::claim(self);
            drop(g);
        }));
        match r {
            Ok(()) => None,
            Err(e) => Some(crate::interp::panic_msg(&e)),
        }
    }
    fn with_aligned(&mut self, n: usize, scoped: bool, f: &mut dyn FnMut(&mut dyn ScopeOps)) {
        macro_rules! go {
            ($n:literal) => {
                if scoped {
                    BumpAllocator::scoped_aligned::<$n, ()>(self, |inner| f(inner))
                } else {
                    BumpAllocatorScope::aligned::<$n, ()>(self, |inner| f(inner))
                }
            };
        }
        match n {
            1 => go!(1),
            2 => go!(2),
            4 => go!(4),
            8 => go!(8),
            16 => go!(16),
            _ => panic!("bad alignment"),
        }
    }

    fn vec_new<'s>(&'s self, esz: usize, eal: usize, c0: usize, wrap: Wrap, fixed: bool) -> Result<Box<dyn VecOps + 's>, ()> {
        let ts = self;
        macro_rules! mk {
            ($t:ty) => {
                match wrap {
                    Wrap::None if fixed => Ok(Box::new(FixedBumpVec::<$t>::try_with_capacity_in(c0, ts).map_err(|_| ())?)),
                    Wrap::None => Ok(Box::new(BumpVec::<$t, _>::try_with_capacity_in(c0, ts).map_err(|_| ())?)),
                    Wrap::Wd => Ok(Box::new(BumpVec::<$t, _>::try_with_capacity_in(c0, WithoutDealloc(ts)).map_err(|_| ())?)),
                    Wrap::Ws => Ok(Box::new(BumpVec::<$t, _>::try_with_capacity_in(c0, WithoutShrink(ts)).map_err(|_| ())?)),
                    Wrap::Both => panic!("no vector through both wrappers"),
                }
            };
        }
        match (esz, eal) {
            (1, 1) => mk!(u8),
            (8, 8) => mk!(u64),
            (32, 32) => mk!(A32),
            _ => panic!("no vector element type for layout ({esz}, {eal})"),
        }
    }

    fn prep<'s>(&'s mut self, esz: usize, eal: usize, rev: bool, via: &str, c0: usize, init: Option<u8>) -> Result<Box<dyn PrepOps + 's>, ()> {
        if via == "dyn" {
            let mut d = DynPrep { h: &*self, esz, eal, rev, lo: 0, hi: 0, len: 0, cap: 0, tags: Vec::new() };
            if c0 > 0 {
                d.grow_to(c0)?;
            }
            if let Some(t) = init {
                for _ in 0..c0 {
                    d.push(t)?;
                }
            }
            return Ok(Box::new(d));
        }
        if via == "string" {
            let sv = if c0 == 0 { MutBumpString::new_in(self) } else { MutBumpString::try_with_capacity_in(c0, self).map_err(|_| ())? };
            return Ok(Box::new(sv));
        }
        macro_rules! mk {
            ($t:ty) => {
                if let Some(t) = init {
                    // from_elem_in: capacity c0, then c0 elements without a further capacity check
                    if rev {
                        Ok(Box::new(MutBumpVecRev::<$t, _>::try_from_elem_in(<$t>::make(t), c0, self).map_err(|_| ())?))
                    } else {
                        Ok(Box::new(MutBumpVec::<$t, _>::try_from_elem_in(<$t>::make(t), c0, self).map_err(|_| ())?))
                    }
                } else if rev {
                    let v = if c0 == 0 { MutBumpVecRev::<$t, _>::new_in(self) } else { MutBumpVecRev::<$t, _>::try_with_capacity_in(c0, self).map_err(|_| ())? };
                    Ok(Box::new(v))
                } else {
                    let v = if c0 == 0 { MutBumpVec::<$t, _>::new_in(self) } else { MutBumpVec::<$t, _>::try_with_capacity_in(c0, self).map_err(|_| ())? };
                    Ok(Box::new(v))
                }
            };
        }
        match (esz, eal) {
            (1, 1) => mk!(u8),
            (3, 1) => mk!([u8; 3]),
            (8, 8) => mk!(u64),
            (32, 32) => mk!(A32),
            _ => panic!("no element type for layout ({esz}, {eal})"),
        }
    }
}

impl<'s, 'a, T: Elem, A, const MA: usize, const UP: bool, const GA: bool, const DE: bool, const SH: bool, const MCS: usize> PrepOps
    for MutBumpVec<T, &'s mut BumpScope<'a, A, BumpSettings<MA, UP, GA, true, DE, SH, MCS>>>
where
    A: Flavour + BaseAllocator<Bool<GA>>,
    MinimumAlignment<MA>: SupportedMinimumAlignment,
{
    fn push(&mut self, tag: u8) -> Result<(), ()> {
        self.try_push(T::make(tag)).map_err(|_| ())
    }
    fn reserve(&mut self, additional: usize) -> Result<(), ()> {
        self.try_reserve(additional).map_err(|_| ())
    }
    fn reserve_panicking(&mut self, additional: usize) {
        MutBumpVec::reserve(self, additional)
    }
    fn extend(&mut self, tags: &[u8]) -> Result<(), ()> {
        let vals: Vec<T> = tags.iter().map(|&t| T::make(t)).collect();
        self.try_extend_from_slice_copy(&vals).map_err(|_| ())
    }
    fn len(&self) -> usize {
        MutBumpVec::len(self)
    }
    fn cap(&self) -> usize {
        self.capacity()
    }
    fn snapshot(&self) -> Snap {
        let st = self.allocator_stats();
        let (chunks, cur, rev1, stats) = typed_snap!(st);
        let (any_chunks, any_cur, rev2, any) = chunk_snaps_any(st.into());
        Snap { chunks, cur, stats, any, any_chunks, any_cur, rev_ok: rev1 && rev2, claimed: false }
    }
    fn commit(self: Box<Self>) -> (usize, usize, Vec<u8>) {
        let b = (*self).into_boxed_slice();
        let len = b.len();
        let ptr = b.into_raw();
        (v(ptr.cast::<u8>()), len, slice_bytes(ptr.cast::<T>().as_ptr(), len))
    }
    fn map_smaller<'x>(self: Box<Self>) -> Option<Box<dyn PrepOps + 'x>>
    where
        Self: 'x,
    {
        if T::MAPS { Some(Box::new((*self).map_in_place(|e| e.shrink()))) } else { None }
    }
}

impl<'s, 'a, T: Elem, A, const MA: usize, const UP: bool, const GA: bool, const DE: bool, const SH: bool, const MCS: usize> PrepOps
    for MutBumpVecRev<T, &'s mut BumpScope<'a, A, BumpSettings<MA, UP, GA, true, DE, SH, MCS>>>
where
    A: Flavour + BaseAllocator<Bool<GA>>,
    MinimumAlignment<MA>: SupportedMinimumAlignment,
{
    fn push(&mut self, tag: u8) -> Result<(), ()> {
        self.try_push(T::make(tag)).map_err(|_| ())
    }
    fn reserve(&mut self, additional: usize) -> Result<(), ()> {
        self.try_reserve(additional).map_err(|_| ())
    }
    fn reserve_panicking(&mut self, additional: usize) {
        MutBumpVecRev::reserve(self, additional)
    }
    fn extend(&mut self, tags: &[u8]) -> Result<(), ()> {
        // the slice is prepended as a whole: reversed, it equals pushing the tags one by one
        let vals: Vec<T> = tags.iter().rev().map(|&t| T::make(t)).collect();
        self.try_extend_from_slice_copy(&vals).map_err(|_| ())
    }
    fn len(&self) -> usize {
        MutBumpVecRev::len(self)
    }
    fn cap(&self) -> usize {
        self.capacity()
    }
    fn snapshot(&self) -> Snap {
        let st = self.allocator_stats();
        let (chunks, cur, rev1, stats) = typed_snap!(st);
        let (any_chunks, any_cur, rev2, any) = chunk_snaps_any(st.into());
        Snap { chunks, cur, stats, any, any_chunks, any_cur, rev_ok: rev1 && rev2, claimed: false }
    }
    fn commit(self: Box<Self>) -> (usize, usize, Vec<u8>) {
        let b = (*self).into_boxed_slice();
        let len = b.len();
        let ptr = b.into_raw();
        (v(ptr.cast::<u8>()), len, slice_bytes(ptr.cast::<T>().as_ptr(), len))
    }
}

impl<'s, 'a, A, const MA: usize, const UP: bool, const GA: bool, const DE: bool, const SH: bool, const MCS: usize> PrepOps
    for MutBumpString<&'s mut BumpScope<'a, A, BumpSettings<MA, UP, GA, true, DE, SH, MCS>>>
where
    A: Flavour + BaseAllocator<Bool<GA>>,
    MinimumAlignment<MA>: SupportedMinimumAlignment,
{
    fn push(&mut self, tag: u8) -> Result<(), ()> {
        self.try_push((tag & 0x7f).max(1) as char).map_err(|_| ())
    }
    fn reserve(&mut self, additional: usize) -> Result<(), ()> {
        self.try_reserve(additional).map_err(|_| ())
    }
    fn reserve_panicking(&mut self, additional: usize) {
        MutBumpString::reserve(self, additional)
    }
    fn extend(&mut self, tags: &[u8]) -> Result<(), ()> {
        let text: String = tags.iter().map(|&t| (t & 0x7f).max(1) as char).collect();
        self.try_push_str(&text).map_err(|_| ())
    }
    fn len(&self) -> usize {
        MutBumpString::len(self)
    }
    fn cap(&self) -> usize {
        self.capacity()
    }
    fn snapshot(&self) -> Snap {
        let st = self.allocator_stats();
        let (chunks, cur, rev1, stats) = typed_snap!(st);
        let (any_chunks, any_cur, rev2, any) = chunk_snaps_any(st.into());
        Snap { chunks, cur, stats, any, any_chunks, any_cur, rev_ok: rev1 && rev2, claimed: false }
    }
    fn commit(self: Box<Self>) -> (usize, usize, Vec<u8>) {
        let b = (*self).into_boxed_str();
        let len = b.len();
        let ptr = b.into_raw();
        (v(ptr.cast::<u8>()), len, slice_bytes(ptr.cast::<u8>().as_ptr(), len))
    }
}

/// The raw prepare / commit interface of `dyn BumpAllocatorCore`, driven like a vector by the harness.
pub struct DynPrep<'s, B: ?Sized> {
    h: &'s B,
    esz: usize,
    eal: usize,
    rev: bool,
    lo: usize,
    hi: usize,
    len: usize,
    cap: usize,
    tags: Vec<u8>,
}

impl<'s, B: ScopeOps + BumpAllocatorCore> DynPrep<'s, B> {
    fn data_start(&self) -> usize {
        // element slice anchored at the far end of the bump side (up: range start; down: range end); rev: the opposite
        let up = self.h.is_up();
        if !self.rev {
            if up { self.lo } else { self.hi - self.cap * self.esz }
        } else {
            let end = if up { self.lo + self.cap * self.esz } else { self.hi };
            end - self.len * self.esz
        }
    }
    fn grow_to(&mut self, ncap: usize) -> Result<(), ()> {
        let layout = Layout::from_size_align(ncap * self.esz, self.eal).map_err(|_| ())?;
        let d: &dyn BumpAllocatorCore = self.h;
        let old_start = self.data_start();
        let r = if self.rev { d.prepare_allocation_rev(layout) } else { d.prepare_allocation(layout) }.map_err(|_| ())?;
        let (lo, hi) = (v(r.start), v(r.end));
        let old: Vec<u8> = unsafe { std::slice::from_raw_parts(region().real(old_start), self.len * self.esz).to_vec() };
        self.lo = lo;
        self.hi = hi;
        self.cap = (hi - lo) / self.esz;
        let new_start = self.data_start();
        unsafe { std::ptr::copy_nonoverlapping(old.as_ptr(), region().real(new_start), old.len()) };
        Ok(())
    }
}

impl<'s, B: ScopeOps + BumpAllocatorCore> PrepOps for DynPrep<'s, B> {
    fn map_smaller<'x>(mut self: Box<Self>) -> Option<Box<dyn PrepOps + 'x>>
    where
        Self: 'x,
    {
        let nsz = match self.esz {
            8 => 4,
            3 => 1,
            _ => return None,
        };
        if self.rev {
            return None;
        }
        // the elements are rewritten from the start of the buffer; the capacity keeps the same bytes
        let start = self.data_start();
        for i in 0..self.len {
            unsafe { std::ptr::write_bytes(region().real(start + i * nsz), self.tags[i], nsz) };
        }
        self.cap = self.cap * self.esz / nsz;
        self.esz = nsz;
        self.eal = nsz;
        Some(self)
    }
    fn push(&mut self, tag: u8) -> Result<(), ()> {
        if self.len == self.cap {
            let mnz = if self.esz == 1 { 8 } else if self.esz <= 1024 { 4 } else { 1 };
            let ncap = (2 * self.cap).max(self.len + 1).max(mnz);
            self.grow_to(ncap)?;
        }
        let at = if !self.rev { self.data_start() + self.len * self.esz } else { self.data_start() - self.esz };
        unsafe { std::ptr::write_bytes(region().real(at), tag, self.esz) };
        self.len += 1;
        self.tags.push(tag);
        Ok(())
    }
    fn reserve(&mut self, additional: usize) -> Result<(), ()> {
        if self.cap - self.len < additional {
            let mnz = if self.esz == 1 { 8 } else if self.esz <= 1024 { 4 } else { 1 };
            let ncap = (2 * self.cap).max(self.len + additional).max(mnz);
            self.grow_to(ncap)?;
        }
        Ok(())
    }
    fn reserve_panicking(&mut self, additional: usize) {
        if PrepOps::reserve(self, additional).is_err() {
            panic!("capacity overflow");
        }
    }
    fn extend(&mut self, tags: &[u8]) -> Result<(), ()> {
        PrepOps::reserve(self, tags.len())?;
        for &t in tags {
            self.push(t)?;
        }
        Ok(())
    }
    fn len(&self) -> usize {
        self.len
    }
    fn cap(&self) -> usize {
        self.cap
    }
    fn snapshot(&self) -> Snap {
        ScopeOps::snapshot(self.h)
    }
    fn commit(self: Box<Self>) -> (usize, usize, Vec<u8>) {
        if self.cap == 0 {
            return (0, 0, Vec::new());
        }
        let layout = Layout::from_size_align(self.len * self.esz, self.eal).unwrap();
        let d: &dyn BumpAllocatorCore = self.h;
        // allocate_prepared expects the data at the start of the range (non-rev) / at its end (rev)
        let src = self.data_start();
        let bytes: Vec<u8> = unsafe { std::slice::from_raw_parts(region().real(src), layout.size()).to_vec() };
        let want = if !self.rev { self.lo } else { self.hi - layout.size() };
        unsafe { std::ptr::copy(bytes.as_ptr(), region().real(want), bytes.len()) };
        let r = p(self.lo)..p(self.hi);
        let ptr = unsafe { if self.rev { d.allocate_prepared_rev(layout, r) } else { d.allocate_prepared(layout, r) } };
        let out = unsafe { std::slice::from_raw_parts(ptr.as_ptr(), layout.size()).to_vec() };
        (v(ptr), self.len, out)
    }
}

impl<'g, A, const MA: usize, const UP: bool, const GA: bool, const DE: bool, const SH: bool, const MCS: usize> GuardOps
    for BumpScopeGuard<'g, A, BumpSettings<MA, UP, GA, true, DE, SH, MCS>>
where
    A: Flavour + BaseAllocator<Bool<GA>>,
    MinimumAlignment<MA>: SupportedMinimumAlignment,
{
    fn with_scope(&mut self, f: &mut dyn FnMut(&mut dyn ScopeOps)) {
        f(self.scope());
    }
    fn reset(&mut self) {
        BumpScopeGuard::reset(self);
    }
}

/// the `BumpScope` behind a handle (the handle itself for a `BumpScope`, `as_scope()` for a `Bump`)
pub trait TScope {
    type S;
    fn tscope(&self) -> &Self::S;
    fn tscope_mut(&mut self) -> &mut Self::S;
}
impl<'a, A, const MA: usize, const UP: bool, const GA: bool, const DE: bool, const SH: bool, const MCS: usize> TScope
    for BumpScope<'a, A, BumpSettings<MA, UP, GA, true, DE, SH, MCS>>
where
    A: Flavour + BaseAllocator<Bool<GA>>,
    MinimumAlignment<MA>: SupportedMinimumAlignment,
{
    type S = Self;
    fn tscope(&self) -> &Self {
        self
    }
    fn tscope_mut(&mut self) -> &mut Self {
        self
    }
}
impl<A, const MA: usize, const UP: bool, const GA: bool, const DE: bool, const SH: bool, const MCS: usize> TScope
    for Bump<A, BumpSettings<MA, UP, GA, true, DE, SH, MCS>>
where
    A: Flavour + BaseAllocator<Bool<GA>>,
    MinimumAlignment<MA>: SupportedMinimumAlignment,
{
    type S = BumpScope<'static, A, BumpSettings<MA, UP, GA, true, DE, SH, MCS>>;
    fn tscope(&self) -> &Self::S {
        // shorten-only in practice: the reference is used for the duration of one call
        unsafe { std::mem::transmute::<&BumpScope<'_, A, BumpSettings<MA, UP, GA, true, DE, SH, MCS>>, &Self::S>(self.as_scope()) }
    }
    fn tscope_mut(&mut self) -> &mut Self::S {
        unsafe { std::mem::transmute::<&mut BumpScope<'_, A, BumpSettings<MA, UP, GA, true, DE, SH, MCS>>, &mut Self::S>(self.as_mut_scope()) }
    }
}

/// `borrow_mut_with_settings` may only be instantiated for a minimum alignment >= the current one (a lower one is a
/// compile-time error): one function per concrete MIN_ALIGN, selected at run time by `with_bmws`.
macro_rules! def_bmws {
    ($name:ident, $ma:literal => $($n:literal),*) => {
        fn $name<'a, A, const UP: bool, const GA: bool, const DE: bool, const SH: bool, const MCS: usize>(
            s: &mut BumpScope<'a, A, BumpSettings<$ma, UP, GA, true, DE, SH, MCS>>,
            n: usize,
            by_value: bool,
            f: &mut dyn FnMut(&mut dyn ScopeOps),
        ) where
            A: Flavour + BaseAllocator<Bool<GA>>,
        {
            match n {
                // by value: an owned scope converted by BumpScope::with_settings
                $($n if by_value => {
                    let mut owned = s.by_value().with_settings::<BumpSettings<$n, UP, GA, true, DE, SH, MCS>>();
                    f(&mut owned)
                })*
                $($n => f(s.borrow_mut_with_settings::<BumpSettings<$n, UP, GA, true, DE, SH, MCS>>()),)*
                _ => panic!("borrow_mut_with_settings cannot lower the minimum alignment"),
            }
        }
    };
}
def_bmws!(bmws_1, 1 => 1, 2, 4, 8, 16);
def_bmws!(bmws_2, 2 => 2, 4, 8, 16);
def_bmws!(bmws_4, 4 => 4, 8, 16);
def_bmws!(bmws_8, 8 => 8, 16);
def_bmws!(bmws_16, 16 => 16);

/// Handle-level operations that only exist on `Bump`.
pub trait BumpOps {
    /// the handle operations are carried by: the `Bump` itself (variant "bump") or its `as_mut_scope()`
    fn as_scope_ops(&mut self, through_bump: bool) -> &mut dyn ScopeOps;
    fn reset(&mut self);
    fn reset_to_start(&mut self);
    /// Bump::into_raw followed by Bump::from_raw
    fn raw_roundtrip(self: Box<Self>) -> Box<dyn BumpOps>;
    /// Bump::with_settings::<NewS>() with NewS = (ma, ga); Err(message) if the conversion panicked (the Bump is gone then)
    fn with_settings(self: Box<Self>, ma: usize, ga: bool) -> Result<Box<dyn BumpOps>, String>;
}

impl<A, const MA: usize, const UP: bool, const GA: bool, const DE: bool, const SH: bool, const MCS: usize> BumpOps
    for Bump<A, BumpSettings<MA, UP, GA, true, DE, SH, MCS>>
where
    A: Flavour + BaseAllocator<Bool<GA>> + BaseAllocator<Bool<true>> + BaseAllocator<Bool<false>>,
    MinimumAlignment<MA>: SupportedMinimumAlignment,
{
    fn as_scope_ops(&mut self, through_bump: bool) -> &mut dyn ScopeOps {
        if through_bump { self } else { self.as_mut_scope() }
    }
    fn reset(&mut self) {
        Bump::reset(self);
    }
    fn reset_to_start(&mut self) {
        Bump::reset_to_start(self);
    }
    fn raw_roundtrip(self: Box<Self>) -> Box<dyn BumpOps> {
        let raw = (*self).into_raw();
        Box::new(unsafe { Self::from_raw(raw) })
    }
    fn with_settings(self: Box<Self>, ma: usize, ga: bool) -> Result<Box<dyn BumpOps>, String> {
        let this = *self;
        macro_rules! conv {
            ($n:literal, $g:literal) => {{
                let r = std::panic::catch_unwind(std::panic::AssertUnwindSafe(move || {
                    this.with_settings::<BumpSettings<$n, UP, $g, true, DE, SH, MCS>>()
                }));
                match r {
                    Ok(b) => Ok(Box::new(b) as Box<dyn BumpOps>),
                    Err(e) => Err(crate::interp::panic_msg(&e)),
                }
            }};
        }
        macro_rules! conv_same {
            ($n:literal) => {{
                let r = std::panic::catch_unwind(std::panic::AssertUnwindSafe(move || {
                    this.with_settings::<BumpSettings<$n, UP, GA, true, DE, SH, MCS>>()
                }));
                match r {
                    Ok(b) => Ok(Box::new(b) as Box<dyn BumpOps>),
                    Err(e) => Err(crate::interp::panic_msg(&e)),
                }
            }};
        }
        // GUARANTEED_ALLOCATED stays as it is or is upgraded (false -> true: the conversion that can panic); the
        // downgrade is always accepted and is not exercised, which keeps the set of instantiated settings small
        match (ma, ga, GA) {
            (1, true, _) => conv!(1, true),
            (2, true, _) => conv!(2, true),
            (4, true, _) => conv!(4, true),
            (8, true, _) => conv!(8, true),
            (16, true, _) => conv!(16, true),
            (1, false, false) => conv_same!(1),
            (2, false, false) => conv_same!(2),
            (4, false, false) => conv_same!(4),
            (8, false, false) => conv_same!(8),
            (16, false, false) => conv_same!(16),
            _ => panic!("unsupported settings conversion"),
        }
    }
}

/// The same operations carried by the `Bump` type itself (its own trait impls and forwarded inherent methods).
impl<A, const MA: usize, const UP: bool, const GA: bool, const DE: bool, const SH: bool, const MCS: usize> ScopeOps
    for Bump<A, BumpSettings<MA, UP, GA, true, DE, SH, MCS>>
where
    A: Flavour + BaseAllocator<Bool<GA>>,
    MinimumAlignment<MA>: SupportedMinimumAlignment,
{
    impl_scope_ops!();

    fn scoped(&mut self, f: &mut dyn FnMut(&mut dyn ScopeOps)) {
        BumpAllocator::scoped(self, |inner| f(inner));
    }
    fn with_guard(&mut self, f: &mut dyn FnMut(&mut dyn GuardOps)) {
        let mut g = BumpAllocator::scope_guard(self);
        f(&mut g);
    }
    fn with_claim(&self, f: &mut dyn FnMut(&mut dyn ScopeOps)) {
        let mut g = Bump::claim(self);
        f(&mut *g);
    }
    fn claim_again(&self) -> Option<String> {
        self.as_scope().claim_again()
    }
    fn with_aligned(&mut self, n: usize, scoped: bool, f: &mut dyn FnMut(&mut dyn ScopeOps)) {
        macro_rules! go {
            ($n:literal) => {
                if scoped {
                    Bump::scoped_aligned::<$n, ()>(self, |inner| f(inner))
                } else {
                    Bump::aligned::<$n, ()>(self, |inner| f(inner))
                }
            };
        }
        match n {
            1 => go!(1),
            2 => go!(2),
            4 => go!(4),
            8 => go!(8),
            16 => go!(16),
            _ => panic!("bad alignment"),
        }
    }
    fn prep<'s>(&'s mut self, esz: usize, eal: usize, rev: bool, via: &str, c0: usize, init: Option<u8>) -> Result<Box<dyn PrepOps + 's>, ()> {
        self.as_mut_scope().prep(esz, eal, rev, via, c0, init)
    }
    fn vec_new<'s>(&'s self, esz: usize, eal: usize, c0: usize, wrap: Wrap, fixed: bool) -> Result<Box<dyn VecOps + 's>, ()> {
        // the same vector type as for a scope handle: BumpVec<T, &BumpScope> (through Bump::as_scope)
        self.as_scope().vec_new(esz, eal, c0, wrap, fixed)
    }
    fn with_bmws(&mut self, n: usize, by_value: bool, f: &mut dyn FnMut(&mut dyn ScopeOps)) {
        self.as_mut_scope().with_bmws(n, by_value, f)
    }
}
