//! The interpreter: executes one TLC-generated behaviour of spec/Arena.tla step by step against the real allocator
//! and records, after every step, the projected state of the real arena (public API only) as one NDJSON line.
//! It decides nothing; block liveness is taken from the behaviour (`exp.live`), everything else is observed.
use crate::ops::*;
use crate::region::{BaseEv, region};
use serde_json::{Value, json};
use std::alloc::Layout;
use std::collections::BTreeMap;
use std::io::Write;
use std::panic::{AssertUnwindSafe, catch_unwind};

pub fn panic_msg(e: &Box<dyn std::any::Any + Send>) -> String {
    if let Some(s) = e.downcast_ref::<&str>() {
        s.to_string()
    } else if let Some(s) = e.downcast_ref::<String>() {
        s.clone()
    } else if e.downcast_ref::<UnwindMarker>().is_some() {
        "<scripted unwind>".to_string()
    } else {
        "<non-string panic>".to_string()
    }
}

pub struct UnwindMarker;

#[derive(Clone, Debug)]
pub struct Blk {
    pub addr: usize,
    pub sz: usize,
    pub al: usize,
    pub generation: u32,
    /// the byte pattern the harness wrote: pattern(pat.0, pat.1, pat.2 + offset)
    pub pat: (u64, u32, usize),
    /// false: the buffer of a growable vector (its contents are the vector's elements, checked separately)
    pub chk: bool,
}

/// a live growable vector (BumpVec) and the element tags the harness put into it
pub struct VecEntry {
    /// never dropped implicitly: the handle it borrows may be gone by the time the interpreter forgets it
    pub obj: std::mem::ManuallyDrop<Box<dyn VecOps>>,
    pub tags: Vec<u8>,
    pub esz: usize,
    pub eal: usize,
}

fn vtag(id: u64, i: usize) -> u8 {
    1 + ((id as usize * 37 + i * 13) % 250) as u8
}

fn vec_expected(tags: &[u8], esz: usize) -> Vec<u8> {
    let mut out = Vec::with_capacity(tags.len() * esz);
    for &t in tags {
        out.extend(std::iter::repeat(t).take(esz));
    }
    out
}

impl Blk {
    fn new(id: u64, addr: usize, sz: usize, al: usize, generation: u32) -> Blk {
        Blk { addr, sz, al, generation, pat: (id, generation, 0), chk: true }
    }
    fn byte(&self, off: usize) -> u8 {
        pattern(self.pat.0, self.pat.1, self.pat.2 + off)
    }
}

#[derive(Clone, Debug, Default)]
pub struct EntrySnap {
    pub allocated: usize,
    pub cur_start: usize,
    pub pos: usize,
    pub count: usize,
    pub size: usize,
}

#[derive(PartialEq, Eq, Debug, Clone, Copy)]
pub enum Flow {
    /// the frame this exec belongs to ends (the exit step has NOT been recorded yet; the caller records it)
    Exit { unwind: bool },
    GuardReset,
    /// a handle-level operation (reset / reset_to_start / drop) is next; only legal at depth 0
    BumpOp,
    End,
}

pub struct Ctx<'b> {
    pub beh_id: u64,
    pub variant: &'b str,
    pub cfg: &'b Value,
    pub steps: &'b [Value],
    pub pc: usize,
    pub out: &'b mut dyn Write,
    pub blocks: BTreeMap<u64, Blk>,
    /// (id, generation) of blocks whose damage has already been reported
    pub reported: std::collections::BTreeSet<(u64, u32)>,
    pub entries: Vec<EntrySnap>,
    pub cp_entries: Vec<EntrySnap>,
    pub cps: Vec<bump_scope::Checkpoint>,
    pub cps_stack: Vec<(Vec<bump_scope::Checkpoint>, Vec<EntrySnap>)>,
    pub lines: u64,
    pub aborted: Option<String>,
    /// stats().allocated() as of the previous recorded step
    pub prev_allocated: usize,
    /// (current chunk start, position) as of the previous recorded step
    pub prev_pos: (usize, usize),
    /// handles that are currently claimed: (frame depth of the claim frame, the claimed handle)
    pub claimed: Vec<(usize, *const (dyn ScopeOps + 'static))>,
    pub depth: usize,
    pub last_freed: Option<(u64, usize)>,
    pub vecs: BTreeMap<u64, VecEntry>,
}

fn pattern(id: u64, generation: u32, off: usize) -> u8 {
    1 + ((id as usize * 37 + generation as usize * 101 + off * 13) % 251) as u8
}

/// what a value-level entry point must have written (None: uninitialised memory, nothing to compare)
fn expected_value_bytes(fam: &str, n: usize, tag: u8) -> Option<Vec<u8>> {
    match fam {
        "u64" | "with_u64" => Some(vec![tag; 8]),
        "default_u32" => Some(vec![0; 4]),
        "copy_u8" | "fill_with_u8" => Some(vec![tag; n]),
        "clone_u16" => Some(vec![tag; 2 * n]),
        "move_u32" => Some(vec![tag; 4 * n]),
        "fill_u64" | "iter_exact_u64" => Some(vec![tag; 8 * n]),
        "str" => Some(vec![b'a' + tag % 26; n]),
        "cstr_from_str" | "cstr" => {
            let mut vv = vec![b'a' + tag % 26; n];
            vv.push(0);
            Some(vv)
        }
        _ => None,
    }
}

/// TLC evaluates the records with 32-bit integers.  Every legitimate number of a record (virtual addresses, sizes,
/// counts) is far below 2^28; a larger one is a symptom of corrupted bookkeeping in the code under test: it is clamped
/// and the record is marked, so that the contract clauses can still be evaluated (and report it).
const SANE_MAX: u64 = 1 << 28;
fn sanitize(v: &mut Value, in_base: bool, insane: &mut bool) {
    match v {
        Value::Number(n) => {
            let big = n.as_u64().map(|x| x > SANE_MAX).unwrap_or(true);
            if big {
                if !in_base {
                    *insane = true;
                }
                *v = json!(SANE_MAX);
            }
        }
        Value::Array(a) => a.iter_mut().for_each(|x| sanitize(x, in_base, insane)),
        Value::Object(m) => m.iter_mut().for_each(|(k, x)| sanitize(x, in_base || k == "base", insane)),
        _ => {}
    }
}

fn layout(sz: usize, al: usize) -> Layout {
    Layout::from_size_align(sz, al).expect("behaviour layouts are valid")
}

fn u(vv: &Value, k: &str) -> usize {
    vv.get(k).and_then(|x| x.as_u64()).unwrap_or(0) as usize
}
fn b(vv: &Value, k: &str) -> bool {
    vv.get(k).and_then(|x| x.as_bool()).unwrap_or(false)
}
fn s<'v>(vv: &'v Value, k: &str) -> &'v str {
    vv.get(k).and_then(|x| x.as_str()).unwrap_or("")
}

fn entry_of(snap: &Snap) -> EntrySnap {
    let (cur_start, pos) = if snap.cur > 0 {
        let c = &snap.chunks[snap.cur - 1];
        (c.start, c.pos)
    } else {
        (0, 0)
    };
    EntrySnap { allocated: snap.stats[3], cur_start, pos, count: snap.stats[0], size: snap.stats[1] }
}

fn entry_json(e: &EntrySnap) -> Value {
    json!([e.allocated, e.cur_start, e.pos, e.count, e.size])
}

fn chunks_json(cs: &[ChunkSnap]) -> Value {
    Value::Array(cs.iter().map(|c| json!([c.start, c.size, c.lo, c.hi, c.pos, c.allocated, c.remaining, c.capacity])).collect())
}

/// what a vector reports about itself after a step
fn vec_obs(o: &mut serde_json::Map<String, Value>, vc: &dyn VecOps, esz: usize) {
    let (addr, cap) = (vc.addr(), vc.cap());
    o.insert("vaddr".into(), json!(addr));
    o.insert("vlen".into(), json!(vc.len()));
    o.insert("vcap".into(), json!(cap));
    o.insert("vesz".into(), json!(esz));
    // the only memory the step may write besides chunk headers: the vector's own buffer
    o.insert("wlo".into(), json!(addr));
    o.insert("whi".into(), json!(addr + cap * esz));
}

/// the buffer of a vector is a live block of the arena (not pattern-filled: it holds the vector's elements)
fn vec_block(ctx: &mut Ctx<'_>, id: u64, vc: &dyn VecOps, esz: usize, eal: usize) {
    if vc.cap() > 0 {
        ctx.blocks.insert(id, Blk { addr: vc.addr(), sz: vc.cap() * esz, al: eal, generation: 0, pat: (id, 0, 0), chk: false });
    } else {
        ctx.blocks.remove(&id);
    }
}

impl<'b> Ctx<'b> {
    fn via(&self, action: &str) -> &'static str {
        // entry-point variant -> which public entry point carries which action
        match (self.variant, action) {
            ("dyn", _) => "dyn",
            ("ref", "alloc") => "ref",
            ("layout", "alloc") => "layout",
            ("panicking", "alloc") => "layout_panicking",
            ("panicking", "reserve") => "panicking",
            ("typed", "alloc") => "typed",
            ("typed", "shrink") => "typed",
            _ => "trait",
        }
    }

    /// Record one observation line for the step at index `i` (0-based in steps).
    fn record(&mut self, i: usize, sc: Option<&dyn ScopeOps>, o: serde_json::Map<String, Value>) {
        let snap = sc.map(|sc| (sc.snapshot(), sc.min_align()));
        self.record_snap(i, snap, o)
    }

    fn record_snap(&mut self, i: usize, snap: Option<(Snap, usize)>, mut o: serde_json::Map<String, Value>) {
        // fields that only successful calls produce get neutral defaults, so that the contract clauses can be evaluated
        // on every record whatever the code under test did (a refused call has no address, length or contents)
        for (k, d) in [("addr", json!(0)), ("len", json!(0)), ("oaddr", json!(0)), ("content_ok", json!(true))] {
            o.entry(k.to_string()).or_insert(d);
        }
        let step = &self.steps[i];
        let exp = &step["exp"];
        // liveness comes from the model: prune the block table to exp.live
        if let Some(live) = exp.get("live").and_then(|l| l.as_array()) {
            let keep: Vec<u64> = live.iter().filter_map(|x| x.as_u64()).collect();
            self.blocks.retain(|id, _| keep.contains(id));
            // vectors that died with a frame / checkpoint are forgotten (never dropped: their handle may be gone)
            self.vecs.retain(|id, _| keep.contains(id));
        }
        let r = region();
        // what changed in the whole region during the step (before the harness refills anything)
        let writes = r.diff_and_sync();
        // contents of every live block vs. what the harness wrote there
        let mut damaged = Vec::new();
        let fresh = o.get("_fresh").and_then(|x| x.as_u64());
        for (id, blk) in self.blocks.iter() {
            if Some(*id) == fresh || !blk.chk {
                continue;
            }
            let mem = unsafe { std::slice::from_raw_parts(r.real(blk.addr), blk.sz) };
            if mem.iter().enumerate().any(|(off, &x)| x != blk.byte(off))
                && self.reported.insert((*id, blk.generation))
            {
                damaged.push(*id);
            }
        }
        // (re)fill the block produced by this step
        if let Some(id) = fresh {
            if let Some(blk) = self.blocks.get(&id) {
                let mem = unsafe { std::slice::from_raw_parts_mut(r.real(blk.addr), blk.sz) };
                for (off, x) in mem.iter_mut().enumerate() {
                    *x = blk.byte(off);
                }
                r.note_harness_write(blk.addr, blk.sz);
            }
        }
        o.remove("_fresh");
        // every live vector still holds exactly the elements the harness put into it
        let mut vbad = Vec::new();
        for (id, ve) in self.vecs.iter_mut() {
            let got = ve.obj.bytes();
            if got != vec_expected(&ve.tags, ve.esz) {
                vbad.push(*id);
                // report once: continue from what is there now
                ve.tags = got.chunks(ve.esz.max(1)).map(|c| c[0]).collect();
            }
        }
        o.insert("vbad".into(), json!(vbad));
        if let Some((snap, min_align)) = snap {
            o.insert("chunks".into(), chunks_json(&snap.chunks));
            o.insert("cur".into(), json!(snap.cur));
            o.insert("stats".into(), json!(snap.stats));
            o.insert("pa".into(), json!(self.prev_allocated));
            self.prev_allocated = snap.stats[3];
            o.insert("pp".into(), json!([self.prev_pos.0, self.prev_pos.1]));
            self.prev_pos = if snap.cur > 0 { (snap.chunks[snap.cur - 1].start, snap.chunks[snap.cur - 1].pos) } else { (0, 0) };
            o.insert("any".into(), json!(snap.any));
            let anyeq = snap.any_chunks == snap.chunks && snap.any_cur == snap.cur;
            o.insert("anyeq".into(), json!(anyeq));
            if !anyeq {
                o.insert("anyc".into(), chunks_json(&snap.any_chunks));
                o.insert("anycur".into(), json!(snap.any_cur));
            }
            o.insert("rev".into(), json!(snap.rev_ok));
            o.insert("claimed".into(), json!(snap.claimed));
            o.insert("ma".into(), json!(min_align));
        } else {
            o.insert("chunks".into(), json!([]));
            o.insert("cur".into(), json!(0));
            o.insert("stats".into(), json!([0, 0, 0, 0, 0]));
            o.insert("pa".into(), json!(self.prev_allocated));
            self.prev_allocated = 0;
            o.insert("pp".into(), json!([self.prev_pos.0, self.prev_pos.1]));
            self.prev_pos = (0, 0);
            o.insert("any".into(), json!([0, 0, 0, 0, 0]));
            o.insert("anyeq".into(), json!(true));
            o.insert("rev".into(), json!(true));
            o.insert("claimed".into(), json!(false));
            o.insert("ma".into(), json!(1));
        }
        o.insert(
            "blocks".into(),
            Value::Array(self.blocks.iter().map(|(id, bk)| json!([id, bk.addr, bk.sz, bk.al])).collect()),
        );
        o.insert("damaged".into(), json!(damaged));
        o.insert("writes".into(), Value::Array(writes.iter().map(|(lo, hi)| json!([lo, hi])).collect()));
        let base: Vec<Value> = r
            .take_log()
            .iter()
            .map(|e| match e {
                BaseEv::Alloc { size, align, addr, granted } => json!(["alloc", size, align, addr, granted]),
                BaseEv::AllocFail { size, align, scripted } => json!(["fail", size, align, if *scripted { 1 } else { 0 }, 0]),
                BaseEv::Free { addr, size, align } => json!(["free", addr, size, align, 0]),
            })
            .collect();
        o.insert("base".into(), Value::Array(base));
        o.insert(
            "grants".into(),
            Value::Array(r.grants.borrow().iter().map(|g| json!([g.addr, g.req, g.granted, g.align, g.live, g.frees])).collect()),
        );
        if r.exhausted.get() {
            self.aborted = Some("region exhausted".into());
        }
        let mut ov = Value::Object(o);
        let mut insane = false;
        sanitize(&mut ov, false, &mut insane);
        if insane {
            ov["insane"] = json!(true);
        }
        let line = json!({
            "b": self.beh_id, "i": i + 1, "v": self.variant, "n": self.steps.len(),
            "cfg": self.cfg, "a": step["a"], "args": step["args"], "exp": exp, "o": ov,
        });
        serde_json::to_writer(&mut *self.out, &line).unwrap();
        self.out.write_all(b"\n").unwrap();
        self.out.flush().unwrap(); // the code under test may crash the process at the next step
        self.lines += 1;
    }

    fn obs(res: &str) -> serde_json::Map<String, Value> {
        let mut m = serde_json::Map::new();
        m.insert("res".into(), json!(res));
        m
    }
}

/// Executes steps on `sc` until the current frame ends, a handle-level operation is next, or the behaviour ends.
pub fn exec(sc: &mut dyn ScopeOps, ctx: &mut Ctx<'_>) -> Flow {
    loop {
        if ctx.aborted.is_some() || ctx.pc >= ctx.steps.len() {
            return Flow::End;
        }
        let i = ctx.pc;
        let step = &ctx.steps[i];
        let a = s(step, "a").to_string();
        let args = step["args"].clone();
        let exp = step["exp"].clone();
        match a.as_str() {
            "alloc" => {
                ctx.pc += 1;
                let l = layout(u(&args, "sz"), u(&args, "al"));
                let mut via = ctx.via("alloc");
                if via == "layout_panicking" && s(&exp, "res") != "ok" {
                    via = "layout"; // a panicking method aborts the process on base allocator failure: use its try_ twin
                }
                region().fail_next.set(b(&args, "fail"));
                let fam = s(&args, "fam").to_string();
                let mut value_bytes: Option<Vec<u8>> = None;
                let tag = 1 + ((i * 11 + 5) % 250) as u8;
                let r = if fam.is_empty() {
                    catch_unwind(AssertUnwindSafe(|| sc.allocate(l, b(&args, "zeroed"), via)))
                } else {
                    // value-level entry points: the panicking twins abort on base allocator failure
                    let vvia = if (ctx.variant == "panicking" || ctx.variant == "typed") && s(&exp, "res") != "ok" { "layout" } else { ctx.variant };
                    via = if vvia == "trait" { "value" } else { "value_variant" };
                    let n = u(&args, "n");
                    let rr = catch_unwind(AssertUnwindSafe(|| sc.alloc_value(&fam, n, tag, vvia)));
                    match rr {
                        Ok(Ok((a, len, bytes))) => {
                            value_bytes = Some(bytes);
                            Ok(Ok((a, len)))
                        }
                        Ok(Err(())) => Ok(Err(())),
                        Err(e) => Err(e),
                    }
                };
                region().fail_next.set(false);
                let mut o;
                match r {
                    Ok(Ok((addr, len))) => {
                        o = Ctx::obs("ok");
                        if let Some(bytes) = &value_bytes {
                            // value-level result: the contents written by the entry point
                            let expect = expected_value_bytes(&fam, u(&args, "n"), tag);
                            o.insert("content_ok".into(), json!(expect.map(|e| &e == bytes).unwrap_or(true)));
                        }
                        o.insert("addr".into(), json!(addr));
                        o.insert("len".into(), json!(len));
                        let id = u(&args, "id") as u64;
                        if b(&args, "zeroed") {
                            let mem = unsafe { std::slice::from_raw_parts(region().real(addr), l.size()) };
                            o.insert("zero_ok".into(), json!(mem.iter().all(|&x| x == 0)));
                        }
                        if id != 0 {
                            ctx.blocks.insert(id, Blk::new(id, addr, l.size(), l.align(), 0));
                            o.insert("_fresh".into(), json!(id));
                        }
                        if let (Some(of), Some((fid, faddr))) = (args.get("of").and_then(|x| x.as_u64()), ctx.last_freed) {
                            if of == fid {
                                o.insert("freed".into(), json!(faddr));
                            }
                        }
                    }
                    Ok(Err(())) => o = Ctx::obs("err"),
                    Err(e) => {
                        o = Ctx::obs("panic");
                        o.insert("msg".into(), json!(panic_msg(&e)));
                    }
                }
                o.insert("via".into(), json!(via));
                ctx.record(i, Some(sc), o);
            }
            "dealloc" => {
                ctx.pc += 1;
                let id = u(&args, "id") as u64;
                let via = ctx.via("dealloc");
                let mut o;
                if let Some(blk) = ctx.blocks.remove(&id) {
                    ctx.last_freed = Some((id, blk.addr));
                    let r = catch_unwind(AssertUnwindSafe(|| {
                        sc.deallocate(blk.addr, layout(blk.sz, blk.al), Wrap::parse(s(&args, "wrap")), via)
                    }));
                    o = Ctx::obs(if r.is_ok() { "ok" } else { "panic" });
                    o.insert("addr".into(), json!(blk.addr));
                } else {
                    o = Ctx::obs("skipped");
                }
                o.insert("via".into(), json!(via));
                ctx.record(i, Some(sc), o);
            }
            "grow" | "shrink" => {
                ctx.pc += 1;
                let id = u(&args, "id") as u64;
                let via = ctx.via(&a);
                let mut o;
                if let Some(blk) = ctx.blocks.get(&id).cloned() {
                    let old = layout(blk.sz, blk.al);
                    let new = layout(u(&args, "sz"), u(&args, "al"));
                    let wrap = Wrap::parse(s(&args, "wrap"));
                    region().fail_next.set(b(&args, "fail"));
                    let zeroed = b(&args, "zeroed");
                    let r = catch_unwind(AssertUnwindSafe(|| {
                        if a == "grow" { sc.grow(blk.addr, old, new, zeroed, wrap, via) } else { sc.shrink(blk.addr, old, new, wrap, via) }
                    }));
                    region().fail_next.set(false);
                    match r {
                        Ok(Ok((addr, len))) => {
                            o = Ctx::obs("ok");
                            o.insert("addr".into(), json!(addr));
                            o.insert("len".into(), json!(len));
                            o.insert("oaddr".into(), json!(blk.addr));
                            // surviving prefix = old contents; zeroed tail
                            let keep = old.size().min(new.size());
                            let mem = unsafe { std::slice::from_raw_parts(region().real(addr), new.size()) };
                            let prefix_ok = (0..keep).all(|off| mem[off] == blk.byte(off));
                            o.insert("prefix_ok".into(), json!(prefix_ok));
                            if zeroed {
                                o.insert("zero_ok".into(), json!(mem[keep..].iter().all(|&x| x == 0)));
                            }
                            ctx.blocks.insert(id, Blk::new(id, addr, new.size(), new.align(), blk.generation + 1));
                            o.insert("_fresh".into(), json!(id));
                        }
                        Ok(Err(())) => {
                            o = Ctx::obs("err");
                            o.insert("oaddr".into(), json!(blk.addr));
                        }
                        Err(e) => {
                            o = Ctx::obs("panic");
                            o.insert("msg".into(), json!(panic_msg(&e)));
                        }
                    }
                } else {
                    o = Ctx::obs("skipped");
                }
                o.insert("via".into(), json!(via));
                ctx.record(i, Some(sc), o);
            }
            "reserve" => {
                ctx.pc += 1;
                let mut via = ctx.via("reserve");
                if via == "panicking" && s(&exp, "res") != "ok" {
                    via = "trait";
                }
                region().fail_next.set(b(&args, "fail"));
                let before = sc.snapshot();
                let r = catch_unwind(AssertUnwindSafe(|| sc.reserve(u(&args, "n"), via)));
                region().fail_next.set(false);
                let mut o = match r {
                    Ok(Ok(())) => Ctx::obs("ok"),
                    Ok(Err(())) => Ctx::obs("err"),
                    Err(e) => {
                        let mut o = Ctx::obs("panic");
                        o.insert("msg".into(), json!(panic_msg(&e)));
                        o
                    }
                };
                o.insert("entry".into(), entry_json(&entry_of(&before)));
                o.insert("via".into(), json!(via));
                ctx.record(i, Some(sc), o);
            }
            "checkpoint" => {
                ctx.pc += 1;
                let snap = sc.snapshot();
                ctx.cps.push(sc.checkpoint());
                ctx.cp_entries.push(entry_of(&snap));
                ctx.record(i, Some(sc), Ctx::obs("ok"));
            }
            "reset_to" => {
                ctx.pc += 1;
                let k = u(&args, "k");
                let cp = ctx.cps[k - 1];
                let entry = ctx.cp_entries[k - 1].clone();
                ctx.cps.truncate(k);
                ctx.cp_entries.truncate(k);
                let r = catch_unwind(AssertUnwindSafe(|| unsafe { sc.reset_to(cp) }));
                let mut o = Ctx::obs(if r.is_ok() { "ok" } else { "panic" });
                o.insert("entry".into(), entry_json(&entry));
                ctx.record(i, Some(sc), o);
            }
            "enter" if s(&args, "kind") == "prep" => {
                run_prep(sc, ctx);
            }
            "enter" => {
                ctx.pc += 1;
                let kind = s(&args, "kind").to_string();
                let snap = sc.snapshot();
                ctx.entries.push(entry_of(&snap));
                ctx.cps_stack.push((std::mem::take(&mut ctx.cps), std::mem::take(&mut ctx.cp_entries)));
                ctx.depth += 1;
                if kind == "claim" {
                    let hp: *const (dyn ScopeOps + '_) = &*sc;
                    ctx.claimed.push((ctx.depth, unsafe { std::mem::transmute::<*const (dyn ScopeOps + '_), *const (dyn ScopeOps + 'static)>(hp) }));
                }
                let mut flow = Flow::End;
                let r = catch_unwind(AssertUnwindSafe(|| match kind.as_str() {
                    "scope" => sc.scoped(&mut |inner| {
                        ctx.record(i, Some(inner), Ctx::obs("ok"));
                        flow = exec(inner, ctx);
                        if let Flow::Exit { unwind: true } = flow {
                            std::panic::panic_any(UnwindMarker);
                        }
                    }),
                    "guard" => sc.with_guard(&mut |g| {
                        let mut first = true;
                        loop {
                            g.with_scope(&mut |inner| {
                                if first {
                                    ctx.record(i, Some(inner), Ctx::obs("ok"));
                                }
                                flow = exec(inner, ctx);
                            });
                            first = false;
                            if flow == Flow::GuardReset {
                                let j = ctx.pc;
                                ctx.pc += 1;
                                let r = catch_unwind(AssertUnwindSafe(|| g.reset()));
                                let mut o = Ctx::obs(if r.is_ok() { "ok" } else { "panic" });
                                o.insert("entry".into(), entry_json(ctx.entries.last().unwrap()));
                                ctx.cps.clear();
                                ctx.cp_entries.clear();
                                g.with_scope(&mut |inner| ctx.record(j, Some(inner), std::mem::take(&mut o)));
                                continue;
                            }
                            break;
                        }
                        if let Flow::Exit { unwind: true } = flow {
                            std::panic::panic_any(UnwindMarker);
                        }
                    }),
                    "claim" => sc.with_claim(&mut |inner| {
                        ctx.record(i, Some(inner), Ctx::obs("ok"));
                        flow = exec(inner, ctx);
                        if let Flow::Exit { unwind: true } = flow {
                            std::panic::panic_any(UnwindMarker);
                        }
                    }),
                    "aligned" | "saligned" => sc.with_aligned(u(&args, "n"), kind == "saligned", &mut |inner| {
                        ctx.record(i, Some(inner), Ctx::obs("ok"));
                        flow = exec(inner, ctx);
                        if let Flow::Exit { unwind: true } = flow {
                            std::panic::panic_any(UnwindMarker);
                        }
                    }),
                    "bmws" | "bvws" => sc.with_bmws(u(&args, "n"), kind == "bvws", &mut |inner| {
                        ctx.record(i, Some(inner), Ctx::obs("ok"));
                        flow = exec(inner, ctx);
                        if let Flow::Exit { unwind: true } = flow {
                            std::panic::panic_any(UnwindMarker);
                        }
                    }),
                    other => panic!("unknown frame kind {other}"),
                }));
                if kind == "claim" {
                    ctx.claimed.pop();
                }
                ctx.depth -= 1;
                let entry = ctx.entries.pop().unwrap();
                let (cps, cpe) = ctx.cps_stack.pop().unwrap();
                ctx.cps = cps;
                ctx.cp_entries = cpe;
                let unexpected_panic = match (&r, flow) {
                    (Err(e), Flow::Exit { unwind: true }) if e.downcast_ref::<UnwindMarker>().is_some() => None,
                    (Err(e), _) => Some(panic_msg(e)),
                    _ => None,
                };
                match flow {
                    Flow::Exit { .. } => {
                        // the exit step: recorded from the outer handle, after the frame is gone
                        let j = ctx.pc;
                        ctx.pc += 1;
                        let mut o = Ctx::obs(if unexpected_panic.is_some() { "panic" } else { "ok" });
                        if let Some(m) = unexpected_panic {
                            o.insert("msg".into(), json!(m));
                        }
                        o.insert("entry".into(), entry_json(&entry));
                        ctx.record(j, Some(sc), o);
                    }
                    Flow::End => {
                        if let Some(m) = unexpected_panic {
                            ctx.aborted = Some(format!("unexpected panic inside frame: {m}"));
                        }
                        return Flow::End;
                    }
                    Flow::BumpOp | Flow::GuardReset => {
                        ctx.aborted = Some(format!("malformed behaviour: {:?} inside a frame", flow));
                        return Flow::End;
                    }
                }
            }
            "exit" => {
                return Flow::Exit { unwind: s(&args, "how") == "unwind" };
            }
            "guard_reset" => return Flow::GuardReset,
            "reset" | "reset_to_start" | "drop" | "with_settings" | "raw_roundtrip" => return Flow::BumpOp,
            "try_with" => {
                ctx.pc += 1;
                let tag = 1 + ((i * 17 + 3) % 250) as u8;
                let fam = s(&args, "fam").to_string();
                let (okv, is_mut, inner) = (b(&args, "ok"), b(&args, "mut"), b(&args, "inner"));
                let via = if (ctx.variant == "panicking" || ctx.variant == "typed") && s(&exp, "res") != "err" { "panicking" } else { "trait" };
                region().fail_next.set(b(&args, "fail"));
                CLOSURE_PANICS.with(|c| c.set(b(&args, "pan")));
                let r = catch_unwind(AssertUnwindSafe(|| sc.try_with(&fam, okv, is_mut, inner, tag, via)));
                CLOSURE_PANICS.with(|c| c.set(false));
                region().fail_next.set(false);
                let mut o = match r {
                    Ok(Ok((res, iaddr))) => {
                        let mut o = Ctx::obs(if res.is_some() { "ok" } else { "errval" });
                        if iaddr != 0 {
                            let iid = u(&args, "iid") as u64;
                            o.insert("iaddr".into(), json!(iaddr));
                            if iid != 0 {
                                // the closure's own allocation: filled by the harness right away
                                let blk = Blk::new(iid, iaddr, 8, 8, 0);
                                let mem = unsafe { std::slice::from_raw_parts_mut(region().real(iaddr), 8) };
                                for (off, x) in mem.iter_mut().enumerate() {
                                    *x = blk.byte(off);
                                }
                                ctx.blocks.insert(iid, blk);
                            }
                        }
                        if let Some((addr, bytes)) = res {
                            o.insert("addr".into(), json!(addr));
                            o.insert("len".into(), json!(bytes.len()));
                            o.insert("content_ok".into(), json!(bytes.iter().all(|&x| x == tag)));
                            let tid = u(&args, "tid") as u64;
                            if tid != 0 {
                                ctx.blocks.insert(tid, Blk::new(tid, addr, u(&args, "tsz"), u(&args, "tal"), 0));
                                o.insert("_fresh".into(), json!(tid));
                            }
                        }
                        o
                    }
                    Ok(Err(())) => Ctx::obs("err"),
                    Err(e) => {
                        let mut o = Ctx::obs("panic");
                        o.insert("msg".into(), json!(panic_msg(&e)));
                        o
                    }
                };
                o.insert("via".into(), json!(via));
                ctx.record(i, Some(sc), o);
            }
            "fmt_mut" => {
                ctx.pc += 1;
                let cstr = b(&args, "cstr");
                let pieces: Vec<Vec<u8>> = args["pieces"]
                    .as_array()
                    .map(|a| a.iter().enumerate().map(|(k, l)| vec![b'a' + ((k * 5 + i) % 26) as u8; l.as_u64().unwrap_or(0) as usize]).collect())
                    .unwrap_or_default();
                let via = ctx.variant;
                let r = catch_unwind(AssertUnwindSafe(|| sc.fmt_mut(&pieces, cstr, via)));
                let mut o = match r {
                    Ok(Ok((addr, bytes))) => {
                        let mut o = Ctx::obs("ok");
                        let addr = if bytes.is_empty() { 0 } else { addr };
                        o.insert("addr".into(), json!(addr));
                        o.insert("len".into(), json!(bytes.len()));
                        let mut expect: Vec<u8> = pieces.concat();
                        if cstr {
                            expect.push(0);
                        }
                        o.insert("content_ok".into(), json!(bytes == expect));
                        let id = u(&args, "id") as u64;
                        if id != 0 {
                            ctx.blocks.insert(id, Blk::new(id, addr, bytes.len(), 1, 0));
                            o.insert("_fresh".into(), json!(id));
                        }
                        o
                    }
                    Ok(Err(())) => Ctx::obs("err"),
                    Err(e) => {
                        let mut o = Ctx::obs("panic");
                        o.insert("msg".into(), json!(panic_msg(&e)));
                        o
                    }
                };
                o.insert("via".into(), json!(via));
                ctx.record(i, Some(sc), o);
            }
            "vec_new" => {
                ctx.pc += 1;
                let (esz, eal, c0) = (u(&args, "esz"), u(&args, "eal"), u(&args, "cap"));
                let wrap = Wrap::parse(s(&args, "wrap"));
                region().fail_next.set(b(&args, "fail"));
                let r = catch_unwind(AssertUnwindSafe(|| sc.vec_new(esz, eal, c0, wrap, b(&args, "fixed"))));
                region().fail_next.set(false);
                let mut o = match r {
                    Ok(Ok(bx)) => {
                        // the vector borrows the handle (shared); the model guarantees that it is gone (dropped, finalised
                        // or forgotten) before the handle is borrowed exclusively or its frame ends
                        let bx: Box<dyn VecOps + 'static> = unsafe { std::mem::transmute::<Box<dyn VecOps + '_>, Box<dyn VecOps + 'static>>(bx) };
                        let mut o = Ctx::obs("ok");
                        let id = u(&args, "id") as u64;
                        vec_obs(&mut o, &*bx, esz);
                        vec_block(ctx, id, &*bx, esz, eal);
                        ctx.vecs.insert(id, VecEntry { obj: std::mem::ManuallyDrop::new(bx), tags: Vec::new(), esz, eal });
                        o
                    }
                    Ok(Err(())) => Ctx::obs("err"),
                    Err(e) => {
                        let mut o = Ctx::obs("panic");
                        o.insert("msg".into(), json!(panic_msg(&e)));
                        o
                    }
                };
                o.insert("via".into(), json!("vec"));
                ctx.record(i, Some(sc), o);
            }
            "vec_extend" | "vec_shrink" | "vec_truncate" | "vec_splice_huge" => {
                ctx.pc += 1;
                let id = u(&args, "id") as u64;
                let mut o;
                if let Some(mut ve) = ctx.vecs.remove(&id) {
                    let (plen, pcap, oaddr) = (ve.obj.len(), ve.obj.cap(), ve.obj.addr());
                    // huge: a reserve that cannot be served ("max": len + additional overflows; "layout": the largest valid array layout)
                    let huge = s(&args, "huge").to_string();
                    let k = match huge.as_str() {
                        "max" => usize::MAX,
                        "layout" => (isize::MAX as usize + 1 - ve.eal) / ve.esz - plen,
                        _ => u(&args, "k"),
                    };
                    let how = s(&args, "how").to_string();
                    let keeps_len = how == "reserve" || how == "reserve_exact";
                    let new_tags: Vec<u8> = match how.as_str() {
                        "reserve" | "reserve_exact" => Vec::new(),
                        "within_copy" | "within_clone" => ve.tags.iter().take(k).cloned().collect(),
                        "resize" => vec![vtag(id, plen); k],
                        _ => (0..k).map(|j| vtag(id, plen + j)).collect(),
                    };
                    region().fail_next.set(b(&args, "fail"));
                    let r = catch_unwind(AssertUnwindSafe(|| -> Result<(), ()> {
                        match a.as_str() {
                            "vec_extend" => ve.obj.extend(&how, k, &new_tags, (ctx.variant == "panicking" || ctx.variant == "typed") && s(&exp, "res") == "ok"),
                            "vec_shrink" => {
                                ve.obj.shrink_to_fit();
                                Ok(())
                            }
                            "vec_splice_huge" => match ve.obj.splice_huge(vtag(id, 1000 + i)) {
                                Some(true) => std::panic::panic_any(String::from("capacity overflow (splice)")),
                                _ => Ok(()),
                            },
                            _ => {
                                ve.obj.truncate(u(&args, "n"));
                                Ok(())
                            }
                        }
                    }));
                    region().fail_next.set(false);
                    match r {
                        Ok(Ok(())) => {
                            o = Ctx::obs("ok");
                            if a == "vec_extend" && !keeps_len {
                                ve.tags.extend(new_tags);
                            }
                            if a == "vec_truncate" {
                                ve.tags.truncate(u(&args, "n"));
                            }
                        }
                        Ok(Err(())) => o = Ctx::obs("err"),
                        Err(e) => {
                            o = Ctx::obs("panic");
                            o.insert("msg".into(), json!(panic_msg(&e)));
                            if a == "vec_splice_huge" && ve.tags.len() > 1 {
                                // the removed element was replaced before the overflow was noticed
                                ve.tags[1] = vtag(id, 1000 + i);
                            }
                        }
                    }
                    o.insert("oaddr".into(), json!(oaddr));
                    o.insert("plen".into(), json!(plen));
                    o.insert("pcap".into(), json!(pcap));
                    vec_obs(&mut o, &**ve.obj, ve.esz);
                    vec_block(ctx, id, &**ve.obj, ve.esz, ve.eal);
                    ctx.vecs.insert(id, ve);
                } else {
                    o = Ctx::obs("skipped");
                }
                o.insert("via".into(), json!("vec"));
                ctx.record(i, Some(sc), o);
            }
            "vec_drop" | "vec_into" => {
                ctx.pc += 1;
                let id = u(&args, "id") as u64;
                let mut o;
                if let Some(ve) = ctx.vecs.remove(&id) {
                    let (plen, pcap, oaddr) = (ve.obj.len(), ve.obj.cap(), ve.obj.addr());
                    let (esz, eal) = (ve.esz, ve.eal);
                    let expect = vec_expected(&ve.tags, esz);
                    let obj = std::mem::ManuallyDrop::into_inner(ve.obj);
                    ctx.blocks.remove(&id);
                    if a == "vec_drop" {
                        let r = catch_unwind(AssertUnwindSafe(move || drop(obj)));
                        o = Ctx::obs(if r.is_ok() { "ok" } else { "panic" });
                        o.insert("wlo".into(), json!(0));
                        o.insert("whi".into(), json!(0));
                    } else {
                        let r = catch_unwind(AssertUnwindSafe(move || obj.into_slice()));
                        match r {
                            Ok((addr, len, bytes)) => {
                                o = Ctx::obs("ok");
                                // an empty final slice is a dangling pointer: its address carries no information
                                let addr = if len == 0 { 0 } else { addr };
                                o.insert("addr".into(), json!(addr));
                                o.insert("len".into(), json!(len * esz));
                                o.insert("content_ok".into(), json!(bytes == expect && len == plen));
                                o.insert("wlo".into(), json!(addr));
                                o.insert("whi".into(), json!(addr + len * esz));
                                if u(&args, "bid") != 0 && addr != 0 {
                                    ctx.blocks.insert(id, Blk::new(id, addr, len * esz, eal, 1));
                                    o.insert("_fresh".into(), json!(id));
                                }
                            }
                            Err(e) => {
                                o = Ctx::obs("panic");
                                o.insert("msg".into(), json!(panic_msg(&e)));
                            }
                        }
                    }
                    o.insert("oaddr".into(), json!(oaddr));
                    o.insert("plen".into(), json!(plen));
                    o.insert("pcap".into(), json!(pcap));
                    o.insert("vesz".into(), json!(esz));
                } else {
                    o = Ctx::obs("skipped");
                }
                o.insert("via".into(), json!("vec"));
                ctx.record(i, Some(sc), o);
            }
            "iter_grow" | "fmt_grow" => {
                ctx.pc += 1;
                let via = ctx.variant;
                let (expect, eal, r): (Vec<u8>, usize, _) = if a == "iter_grow" {
                    let (esz, eal, hint, n) = (u(&args, "esz"), u(&args, "eal"), u(&args, "hint"), u(&args, "n"));
                    let tags: Vec<u8> = (0..n).map(|k| 1 + ((k * 7 + i * 13) % 250) as u8).collect();
                    let r = catch_unwind(AssertUnwindSafe(|| sc.iter_grow(esz, eal, hint, &tags, via)));
                    (vec_expected(&tags, esz), eal, r)
                } else {
                    let cstr = b(&args, "cstr");
                    let pieces: Vec<Vec<u8>> = args["pieces"]
                        .as_array()
                        .map(|a| a.iter().enumerate().map(|(k, l)| vec![b'a' + ((k * 5 + i) % 26) as u8; l.as_u64().unwrap_or(0) as usize]).collect())
                        .unwrap_or_default();
                    let mut expect: Vec<u8> = pieces.concat();
                    if cstr {
                        expect.push(0);
                    }
                    let r = catch_unwind(AssertUnwindSafe(|| sc.fmt_grow(&pieces, cstr, via)));
                    (expect, 1, r)
                };
                let mut o = match r {
                    Ok(Ok((addr, bytes))) => {
                        let mut o = Ctx::obs("ok");
                        let addr = if bytes.is_empty() { 0 } else { addr };
                        o.insert("addr".into(), json!(addr));
                        o.insert("len".into(), json!(bytes.len()));
                        o.insert("content_ok".into(), json!(bytes == expect));
                        let id = u(&args, "id") as u64;
                        if id != 0 && !bytes.is_empty() {
                            ctx.blocks.insert(id, Blk::new(id, addr, bytes.len(), eal, 0));
                            o.insert("_fresh".into(), json!(id));
                        }
                        o
                    }
                    Ok(Err(())) => Ctx::obs("err"),
                    Err(e) => {
                        let mut o = Ctx::obs("panic");
                        o.insert("msg".into(), json!(panic_msg(&e)));
                        o
                    }
                };
                o.insert("via".into(), json!(via));
                ctx.record(i, Some(sc), o);
            }
            "iter_mut" => {
                ctx.pc += 1;
                let (esz, eal, rev, hint, n) = (u(&args, "esz"), u(&args, "eal"), b(&args, "rev"), u(&args, "hint"), u(&args, "n"));
                let tags: Vec<u8> = (0..n).map(|k| 1 + ((k * 7 + i * 13) % 250) as u8).collect();
                let via = ctx.variant;
                let r = catch_unwind(AssertUnwindSafe(|| sc.iter_mut(esz, eal, rev, hint, n, &tags, via)));
                let mut o = match r {
                    Ok(Ok((addr, bytes))) => {
                        let mut o = Ctx::obs("ok");
                        let addr = if bytes.is_empty() { 0 } else { addr };
                        o.insert("addr".into(), json!(addr));
                        o.insert("len".into(), json!(bytes.len()));
                        let order: Vec<u8> = if rev { tags.iter().rev().cloned().collect() } else { tags.clone() };
                        let mut expect: Vec<u8> = Vec::new();
                        for t in order {
                            expect.extend(std::iter::repeat(t).take(esz));
                        }
                        o.insert("content_ok".into(), json!(bytes == expect));
                        let id = u(&args, "id") as u64;
                        if id != 0 {
                            ctx.blocks.insert(id, Blk::new(id, addr, bytes.len(), eal, 0));
                            o.insert("_fresh".into(), json!(id));
                        }
                        o
                    }
                    Ok(Err(())) => Ctx::obs("err"),
                    Err(e) => {
                        let mut o = Ctx::obs("panic");
                        o.insert("msg".into(), json!(panic_msg(&e)));
                        o
                    }
                };
                o.insert("via".into(), json!(via));
                ctx.record(i, Some(sc), o);
            }
            "split" => {
                ctx.pc += 1;
                let id = u(&args, "id") as u64;
                let nid = u(&args, "nid") as u64;
                let at = u(&args, "at");
                let mut o = Ctx::obs("ok");
                if let Some(bk) = ctx.blocks.get(&id).cloned() {
                    // pure bookkeeping: from now on the two halves are separate allocations
                    ctx.blocks.insert(id, Blk { addr: bk.addr, sz: at, al: bk.al, generation: bk.generation, pat: bk.pat, chk: true });
                    ctx.blocks.insert(
                        nid,
                        Blk { addr: bk.addr + at, sz: bk.sz - at, al: bk.al, generation: bk.generation, pat: (bk.pat.0, bk.pat.1, bk.pat.2 + at), chk: true },
                    );
                    o.insert("addr".into(), json!(bk.addr + at));
                } else {
                    o = Ctx::obs("skipped");
                }
                ctx.record(i, Some(sc), o);
            }
            "alloc_huge" => {
                ctx.pc += 1;
                let al = u(&args, "al");
                // the largest valid layout of this alignment: every chunk size computation overflows (capacity overflow: an
                // error of the try_ methods, an unwinding panic of the panicking ones); the base allocator is not asked
                let l = layout(isize::MAX as usize + 1 - al, al);
                let via = ctx.via("alloc");
                let r = catch_unwind(AssertUnwindSafe(|| sc.allocate(l, false, via)));
                let mut o = match r {
                    Ok(Ok(_)) => Ctx::obs("ok"),
                    Ok(Err(())) => Ctx::obs("err"),
                    Err(e) => {
                        let mut o = Ctx::obs("panic");
                        o.insert("msg".into(), json!(panic_msg(&e)));
                        o
                    }
                };
                o.insert("via".into(), json!(via));
                ctx.record(i, Some(sc), o);
            }
            "claimed_op" => {
                // an operation through a handle that is currently claimed
                ctx.pc += 1;
                let _ = exp;
                let lvl = u(&args, "lvl");
                let op = s(&args, "op").to_string();
                let via = ctx.via(&op);
                let Some(&(_, hp)) = ctx.claimed.iter().find(|(d, _)| *d == lvl) else {
                    ctx.aborted = Some(format!("no claimed handle at level {lvl}"));
                    return Flow::End;
                };
                let h: &dyn ScopeOps = unsafe { &*hp };
                let id = u(&args, "id") as u64;
                let blk = ctx.blocks.get(&id).cloned();
                let new = layout(u(&args, "sz"), u(&args, "al").max(1));
                let r = catch_unwind(AssertUnwindSafe(|| -> Result<Option<(usize, usize)>, ()> {
                    match op.as_str() {
                        "alloc" => h.allocate(new, false, via).map(Some),
                        "reserve" => h.reserve(600, via).map(|_| None),
                        "grow" => {
                            let bk = blk.as_ref().unwrap();
                            h.grow(bk.addr, layout(bk.sz, bk.al), new, false, Wrap::None, via).map(Some)
                        }
                        "shrink" => {
                            let bk = blk.as_ref().unwrap();
                            h.shrink(bk.addr, layout(bk.sz, bk.al), new, Wrap::None, via).map(Some)
                        }
                        "dealloc" => {
                            let bk = blk.as_ref().unwrap();
                            h.deallocate(bk.addr, layout(bk.sz, bk.al), Wrap::None, via);
                            Ok(None)
                        }
                        "claim" => match h.claim_again() {
                            Some(m) => std::panic::panic_any(m),
                            None => Ok(None),
                        },
                        _ => Ok(None),
                    }
                }));
                let mut o = match r {
                    Ok(Ok(x)) => {
                        let mut o = Ctx::obs("ok");
                        if let Some((addr, len)) = x {
                            o.insert("addr".into(), json!(addr));
                            o.insert("len".into(), json!(len));
                        }
                        o
                    }
                    Ok(Err(())) => Ctx::obs("err"),
                    Err(e) => {
                        let mut o = Ctx::obs("panic");
                        o.insert("msg".into(), json!(panic_msg(&e)));
                        o
                    }
                };
                match (op.as_str(), o["res"].as_str()) {
                    ("dealloc", _) => {
                        ctx.blocks.remove(&id);
                    }
                    ("shrink", Some("ok")) => {
                        // the caller now owns a block of the new layout at the returned address (contents unchanged)
                        if let (Some(bk), Some(addr)) = (blk.as_ref(), o.get("addr").and_then(|x| x.as_u64())) {
                            o.insert("oaddr".into(), json!(bk.addr));
                            if addr as usize == bk.addr {
                                ctx.blocks.insert(id, Blk { addr: bk.addr, sz: new.size(), al: new.align(), generation: bk.generation, pat: bk.pat, chk: true });
                            }
                        }
                    }
                    _ => {}
                }
                let cs = h.snapshot();
                o.insert("cstats".into(), json!(cs.stats));
                o.insert("cany".into(), json!(cs.any));
                o.insert("cclaimed".into(), json!(h.is_claimed()));
                o.insert("via".into(), json!(via));
                ctx.record(i, Some(sc), o);
            }
            other => {
                ctx.aborted = Some(format!("unknown action {other}"));
                return Flow::End;
            }
        }
    }
}

/// Handle-level driver: owns the `Bump`.
pub fn run_root(make: &mut dyn FnMut(&Value) -> Option<Box<dyn BumpOps>>, ctx: &mut Ctx<'_>) {
    // step 0 is the constructor
    let ctor_args = ctx.steps[0]["args"].clone();
    let through_bump = ctx.variant == "bump";
    ctx.pc = 1;
    let made = catch_unwind(AssertUnwindSafe(|| make(&ctor_args)));
    let mut bump = match made {
        Ok(Some(bump)) => bump,
        Ok(None) => {
            ctx.record(0, None, Ctx::obs("err"));
            return;
        }
        Err(e) => {
            let mut o = Ctx::obs("panic");
            o.insert("msg".into(), json!(panic_msg(&e)));
            ctx.record(0, None, o);
            return;
        }
    };
    {
        let sc = bump.as_scope_ops(through_bump);
        ctx.record(0, Some(sc), Ctx::obs("ok"));
    }
    loop {
        let flow = exec(bump.as_scope_ops(through_bump), ctx);
        match flow {
            Flow::BumpOp => {
                let i = ctx.pc;
                ctx.pc += 1;
                let a = s(&ctx.steps[i], "a").to_string();
                if a != "raw_roundtrip" {
                    ctx.cps.clear();
                    ctx.cp_entries.clear();
                }
                match a.as_str() {
                    "reset" => {
                        let r = catch_unwind(AssertUnwindSafe(|| bump.reset()));
                        ctx.record(i, Some(bump.as_scope_ops(through_bump)), Ctx::obs(if r.is_ok() { "ok" } else { "panic" }));
                    }
                    "reset_to_start" => {
                        let r = catch_unwind(AssertUnwindSafe(|| bump.reset_to_start()));
                        ctx.record(i, Some(bump.as_scope_ops(through_bump)), Ctx::obs(if r.is_ok() { "ok" } else { "panic" }));
                    }
                    "drop" => {
                        let r = catch_unwind(AssertUnwindSafe(move || drop(bump)));
                        ctx.record(i, None, Ctx::obs(if r.is_ok() { "ok" } else { "panic" }));
                        return;
                    }
                    "raw_roundtrip" => {
                        bump = bump.raw_roundtrip();
                        ctx.record(i, Some(bump.as_scope_ops(through_bump)), Ctx::obs("ok"));
                    }
                    "with_settings" => {
                        let args = ctx.steps[i]["args"].clone();
                        match bump.with_settings(u(&args, "ma"), b(&args, "ga")) {
                            Ok(nb) => {
                                bump = nb;
                                ctx.record(i, Some(bump.as_scope_ops(through_bump)), Ctx::obs("ok"));
                            }
                            Err(msg) => {
                                // the conversion panicked: the Bump was moved into the call and dropped by the unwinding
                                let mut o = Ctx::obs("panic");
                                o.insert("msg".into(), json!(msg));
                                ctx.record(i, None, o);
                                return;
                            }
                        }
                    }
                    _ => unreachable!(),
                }
            }
            _ => break,
        }
    }
    // end of the behaviour without an explicit drop: drop now and record a synthetic final observation so that
    // the end-of-life obligations (every grant released exactly once) are observable for every behaviour
    let r = catch_unwind(AssertUnwindSafe(move || drop(bump)));
    let mut o = Ctx::obs(if r.is_ok() { "ok" } else { "panic" });
    o.insert("final".into(), json!(true));
    if let Some(m) = &ctx.aborted {
        o.insert("aborted".into(), json!(m));
    }
    ctx.blocks.clear();
    let r_ = region();
    let writes = r_.diff_and_sync();
    let base: Vec<Value> = r_
        .take_log()
        .iter()
        .map(|e| match e {
            BaseEv::Alloc { size, align, addr, granted } => json!(["alloc", size, align, addr, granted]),
            BaseEv::AllocFail { size, align, scripted } => json!(["fail", size, align, if *scripted { 1 } else { 0 }, 0]),
            BaseEv::Free { addr, size, align } => json!(["free", addr, size, align, 0]),
        })
        .collect();
    o.insert("base".into(), Value::Array(base));
    o.insert("writes".into(), Value::Array(writes.iter().map(|(lo, hi)| json!([lo, hi])).collect()));
    o.insert(
        "grants".into(),
        Value::Array(r_.grants.borrow().iter().map(|g| json!([g.addr, g.req, g.granted, g.align, g.live, g.frees])).collect()),
    );
    for (k, v) in [("chunks", json!([])), ("cur", json!(0)), ("stats", json!([0, 0, 0, 0, 0])), ("pa", json!(ctx.prev_allocated)), ("pp", json!([ctx.prev_pos.0, ctx.prev_pos.1])),
                   ("any", json!([0, 0, 0, 0, 0])), ("anyeq", json!(true)), ("rev", json!(true)), ("claimed", json!(false)),
                   ("ma", json!(1)), ("blocks", json!([])), ("damaged", json!([]))] {
        o.insert(k.into(), v);
    }
    let mut ov = Value::Object(o);
    let mut insane = false;
    sanitize(&mut ov, false, &mut insane);
    if insane {
        ov["insane"] = json!(true);
    }
    let line = json!({"b": ctx.beh_id, "i": ctx.steps.len() + 1, "v": ctx.variant, "n": ctx.steps.len(), "cfg": ctx.cfg,
                      "a": "final", "args": {"none": true},
                      "exp": {"res": "ok", "addr": 0, "cur": 0, "pos": 0, "allocated": 0, "count": 0, "nchunks": 0, "live": [], "ma": 1, "x": {"none": true}},
                      "o": ov});
    serde_json::to_writer(&mut *ctx.out, &line).unwrap();
    ctx.out.write_all(b"\n").unwrap();
    ctx.out.flush().unwrap();
    ctx.lines += 1;
}

/// An exclusive-borrow collection frame: enter(prep) ; prep_push* ; prep_commit | prep_drop.
/// While the collection is alive the arena is mutably borrowed, so the frame is executed inline.
fn run_prep(sc: &mut dyn ScopeOps, ctx: &mut Ctx<'_>) {
    let i = ctx.pc;
    ctx.pc += 1;
    let args = ctx.steps[i]["args"].clone();
    let (mut esz, mut eal, rev, c0) = (u(&args, "esz"), u(&args, "eal"), b(&args, "rev"), u(&args, "cap"));
    let via = if ctx.variant == "dyn" { "dyn" } else if b(&args, "str") { "string" } else { "typed" };
    let before = sc.snapshot();
    let ma = sc.min_align();
    let echunks = Value::Array(before.chunks.iter().map(|c| json!([c.start, c.pos])).collect());
    let ecur = before.cur;
    let decorate = |o: &mut serde_json::Map<String, Value>, len: usize, cap: usize| {
        o.insert("echunks".into(), echunks.clone());
        o.insert("ecur".into(), json!(ecur));
        o.insert("plen".into(), json!(len));
        o.insert("pcap".into(), json!(cap));
        o.insert("via".into(), json!(via));
    };
    region().fail_next.set(b(&args, "fail"));
    // the collection mutably borrows the handle for as long as it lives; the handle is used again (for recording)
    // only after the collection is gone -- expressed with a raw pointer because the borrow checker cannot follow
    // the `Option` being emptied in the loop below
    let scp: *mut (dyn ScopeOps + '_) = &mut *sc;
    let init = if b(&args, "init") { Some(1 + ((i * 13) % 250) as u8) } else { None };
    let made: Result<Result<Box<dyn PrepOps + '_>, ()>, ()> = Ok(unsafe { &mut *scp }.prep(esz, eal, rev, via, c0, init));
    region().fail_next.set(false);
    let mut coll: Option<Box<dyn PrepOps + '_>> = match made {
        Ok(Ok(pb)) => {
            let mut o = Ctx::obs("ok");
            decorate(&mut o, pb.len(), pb.cap());
            let snap = pb.snapshot();
            ctx.record_snap(i, Some((snap, ma)), o);
            Some(pb)
        }
        Ok(Err(())) => None,
        Err(_) => None,
    };
    let failed_at_entry = coll.is_none();
    let mut pending_entry_record = failed_at_entry;
    let mut pushed: Vec<u8> = match init {
        Some(t) if !failed_at_entry => vec![t; c0],
        _ => Vec::new(),
    };
    let mut result: Option<(usize, serde_json::Map<String, Value>)> = None;
    if !failed_at_entry {
        loop {
            if ctx.pc >= ctx.steps.len() {
                break;
            }
            let j = ctx.pc;
            let a = s(&ctx.steps[j], "a").to_string();
            let jargs = ctx.steps[j]["args"].clone();
            match a.as_str() {
                "prep_push" => {
                    ctx.pc += 1;
                    let pb = coll.as_mut().unwrap();
                    let tag = 1 + ((pushed.len() * 7 + i * 13) % (if via == "string" { 100 } else { 250 })) as u8;
                    region().fail_next.set(b(&jargs, "fail"));
                    let r = catch_unwind(AssertUnwindSafe(|| pb.push(tag)));
                    region().fail_next.set(false);
                    let mut o = match r {
                        Ok(Ok(())) => {
                            pushed.push(tag);
                            Ctx::obs("ok")
                        }
                        Ok(Err(())) => Ctx::obs("err"),
                        Err(e) => {
                            let mut o = Ctx::obs("panic");
                            o.insert("msg".into(), json!(panic_msg(&e)));
                            o
                        }
                    };
                    decorate(&mut o, pb.len(), pb.cap());
                    let snap = pb.snapshot();
                    ctx.record_snap(j, Some((snap, ma)), o);
                }
                "prep_extend" => {
                    ctx.pc += 1;
                    let pb = coll.as_mut().unwrap();
                    let k = u(&jargs, "k");
                    let tags: Vec<u8> = (0..k).map(|m| 1 + (((pushed.len() + m) * 7 + i * 13) % (if via == "string" { 100 } else { 250 })) as u8).collect();
                    region().fail_next.set(b(&jargs, "fail"));
                    let r = catch_unwind(AssertUnwindSafe(|| pb.extend(&tags)));
                    region().fail_next.set(false);
                    let mut o = match r {
                        Ok(Ok(())) => {
                            pushed.extend(tags);
                            Ctx::obs("ok")
                        }
                        Ok(Err(())) => Ctx::obs("err"),
                        Err(e) => {
                            let mut o = Ctx::obs("panic");
                            o.insert("msg".into(), json!(panic_msg(&e)));
                            o
                        }
                    };
                    decorate(&mut o, pb.len(), pb.cap());
                    let snap = pb.snapshot();
                    ctx.record_snap(j, Some((snap, ma)), o);
                }
                "prep_map" => {
                    ctx.pc += 1;
                    let pb = coll.take().unwrap();
                    let r = catch_unwind(AssertUnwindSafe(move || pb.map_smaller()));
                    let mut o = match r {
                        Ok(Some(nb)) => {
                            coll = Some(nb);
                            esz = u(&jargs, "esz");
                            eal = u(&jargs, "eal");
                            Ctx::obs("ok")
                        }
                        Ok(None) => {
                            ctx.aborted = Some("map_in_place is not available for this collection".into());
                            break;
                        }
                        Err(e) => {
                            let mut o = Ctx::obs("panic");
                            o.insert("msg".into(), json!(panic_msg(&e)));
                            o
                        }
                    };
                    match coll.as_ref() {
                        Some(pb) => {
                            decorate(&mut o, pb.len(), pb.cap());
                            let snap = pb.snapshot();
                            ctx.record_snap(j, Some((snap, ma)), o);
                        }
                        None => break,
                    }
                }
                "prep_reserve" => {
                    ctx.pc += 1;
                    let pb = coll.as_mut().unwrap();
                    region().fail_next.set(b(&jargs, "fail"));
                    let huge = b(&jargs, "huge");
                    // huge: a valid array layout whose chunk size computation overflows
                    let n = if huge { (isize::MAX as usize + 1 - eal) / esz - pb.len() } else { u(&jargs, "n") };
                    let panicking = huge && ctx.variant == "panicking";
                    let r = catch_unwind(AssertUnwindSafe(|| {
                        if panicking {
                            pb.reserve_panicking(n);
                            Ok(())
                        } else {
                            pb.reserve(n)
                        }
                    }));
                    region().fail_next.set(false);
                    let mut o = match r {
                        Ok(Ok(())) => Ctx::obs("ok"),
                        Ok(Err(())) => Ctx::obs("err"),
                        Err(e) => {
                            let mut o = Ctx::obs("panic");
                            o.insert("msg".into(), json!(panic_msg(&e)));
                            o
                        }
                    };
                    decorate(&mut o, pb.len(), pb.cap());
                    let snap = pb.snapshot();
                    ctx.record_snap(j, Some((snap, ma)), o);
                }
                "prep_commit" => {
                    ctx.pc += 1;
                    let pb = coll.take().unwrap();
                    let r = catch_unwind(AssertUnwindSafe(move || pb.commit()));
                    let mut o = match r {
                        Ok((addr, len, bytes)) => {
                            let mut o = Ctx::obs("ok");
                            // an empty final slice is a dangling pointer: its address carries no information
                            let addr = if len == 0 { 0 } else { addr };
                            o.insert("addr".into(), json!(addr));
                            o.insert("len".into(), json!(len * esz));
                            // exactly the pushed elements: in push order, reversed for the rev collection
                            let mut expect: Vec<u8> = Vec::new();
                            let order: Vec<u8> = if rev { pushed.iter().rev().cloned().collect() } else { pushed.clone() };
                            for t in order {
                                expect.extend(std::iter::repeat(t).take(esz));
                            }
                            o.insert("content_ok".into(), json!(bytes == expect && len == pushed.len()));
                            let id = u(&jargs, "id") as u64;
                            if id != 0 {
                                ctx.blocks.insert(id, Blk::new(id, addr, len * esz, eal, 0));
                                o.insert("_fresh".into(), json!(id));
                            }
                            o
                        }
                        Err(e) => {
                            let mut o = Ctx::obs("panic");
                            o.insert("msg".into(), json!(panic_msg(&e)));
                            o
                        }
                    };
                    decorate(&mut o, pushed.len(), 0);
                    result = Some((j, o));
                    break;
                }
                "prep_drop" => {
                    ctx.pc += 1;
                    let pb = coll.take().unwrap();
                    let unwind = s(&jargs, "how") == "unwind";
                    let r = catch_unwind(AssertUnwindSafe(move || {
                        let _keep = pb;
                        if unwind {
                            std::panic::panic_any(UnwindMarker);
                        }
                    }));
                    let ok = match &r {
                        Ok(()) => !unwind,
                        Err(e) => unwind && e.downcast_ref::<UnwindMarker>().is_some(),
                    };
                    let mut o = Ctx::obs(if ok { "ok" } else { "panic" });
                    decorate(&mut o, pushed.len(), 0);
                    result = Some((j, o));
                    break;
                }
                _ => break, // behaviour ends inside the frame (bound reached): the collection is simply dropped
            }
        }
    }
    drop(coll);
    let sc: &dyn ScopeOps = unsafe { &*scp };
    if pending_entry_record {
        // creation failed: no collection exists; the frame is closed by the next prep_commit / prep_drop step
        let mut o = Ctx::obs("err");
        decorate(&mut o, 0, 0);
        ctx.record(i, Some(sc), o);
        pending_entry_record = false;
        if ctx.pc < ctx.steps.len() {
            let j = ctx.pc;
            let a = s(&ctx.steps[j], "a").to_string();
            if a == "prep_commit" || a == "prep_drop" {
                ctx.pc += 1;
                let mut o = Ctx::obs("ok");
                if a == "prep_commit" {
                    o.insert("addr".into(), json!(0));
                    o.insert("len".into(), json!(0));
                    o.insert("content_ok".into(), json!(true));
                }
                decorate(&mut o, 0, 0);
                ctx.record(j, Some(sc), o);
            }
        }
    }
    let _ = pending_entry_record;
    if let Some((j, o)) = result {
        ctx.record(j, Some(sc), o);
    }
}
