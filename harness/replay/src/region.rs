//! Deterministic, instrumented base allocator: bumps through one big 1 MiB-aligned region, never reuses
//! memory, leaves a guard gap before every block, can over-grant, can "skew" block addresses to odd multiples
//! of the requested alignment, and fails on demand.  `real address - region base` is the *virtual address*
//! used everywhere in the recorded observations; spec/Arena.tla (BaseAlloc) specifies exactly this policy.
use bump_scope::alloc::{AllocError, Allocator};
use std::alloc::Layout;
use std::cell::{Cell, RefCell};
use std::ptr::NonNull;

pub const REGION_CAP: usize = 48 << 20;
pub const REGION_ALIGN: usize = 1 << 20;
pub const FIRST: usize = 65536;
pub const GAP: usize = 48;
const FILL_FRESH: u8 = 0xCD;
const FILL_GAP: u8 = 0xA5;
const FILL_FREED: u8 = 0xDD;

#[derive(Clone, Debug)]
pub enum BaseEv {
    Alloc { size: usize, align: usize, addr: usize, granted: usize },
    AllocFail { size: usize, align: usize, scripted: bool },
    Free { addr: usize, size: usize, align: usize },
}

#[derive(Clone, Debug)]
pub struct Grant {
    pub addr: usize,
    pub req: usize,
    pub granted: usize,
    pub align: usize,
    pub live: bool,
    /// number of deallocate calls seen for this block
    pub frees: u32,
}

pub struct Region {
    mem: *mut u8,
    next: Cell<usize>,
    pub extra: Cell<usize>,
    pub skew: Cell<bool>,
    pub fail_next: Cell<bool>,
    pub exhausted: Cell<bool>,
    pub log: RefCell<Vec<BaseEv>>,
    pub grants: RefCell<Vec<Grant>>,
    /// shadow copy of [FIRST, hw) used by the write monitor
    shadow: RefCell<Vec<u8>>,
}

impl Region {
    fn new() -> Self {
        let mem = unsafe { std::alloc::alloc(Layout::from_size_align(REGION_CAP, REGION_ALIGN).unwrap()) };
        assert!(!mem.is_null());
        Region {
            mem,
            next: Cell::new(FIRST),
            extra: Cell::new(0),
            skew: Cell::new(false),
            fail_next: Cell::new(false),
            exhausted: Cell::new(false),
            log: RefCell::new(Vec::new()),
            grants: RefCell::new(Vec::new()),
            shadow: RefCell::new(Vec::new()),
        }
    }

    pub fn reset(&self, extra: usize, skew: bool) {
        self.next.set(FIRST);
        self.extra.set(extra);
        self.skew.set(skew);
        self.fail_next.set(false);
        self.exhausted.set(false);
        self.log.borrow_mut().clear();
        self.grants.borrow_mut().clear();
        self.shadow.borrow_mut().clear();
    }

    #[inline]
    pub fn vaddr(&self, p: *const u8) -> usize {
        (p as usize).wrapping_sub(self.mem as usize)
    }

    #[inline]
    pub fn real(&self, v: usize) -> *mut u8 {
        unsafe { self.mem.add(v) }
    }

    pub fn high_water(&self) -> usize {
        self.next.get() + GAP
    }

    fn do_alloc(&self, layout: Layout) -> Result<NonNull<[u8]>, AllocError> {
        let (size, align) = (layout.size(), layout.align());
        if self.fail_next.replace(false) {
            self.log.borrow_mut().push(BaseEv::AllocFail { size, align, scripted: true });
            return Err(AllocError);
        }
        let next = self.next.get();
        let mut a = (next + GAP + align - 1) / align * align;
        if self.skew.get() && (a / align) % 2 == 0 {
            a += align;
        }
        if size > REGION_CAP {
            // a request no machine can serve (close to isize::MAX): refused like a real allocator would, the run goes on
            self.log.borrow_mut().push(BaseEv::AllocFail { size, align, scripted: false });
            return Err(AllocError);
        }
        let granted = size + self.extra.get();
        if a + granted + GAP + 64 > REGION_CAP {
            self.exhausted.set(true);
            self.log.borrow_mut().push(BaseEv::AllocFail { size, align, scripted: false });
            return Err(AllocError);
        }
        unsafe {
            std::ptr::write_bytes(self.mem.add(next), FILL_GAP, a - next);
            std::ptr::write_bytes(self.mem.add(a), FILL_FRESH, granted);
            std::ptr::write_bytes(self.mem.add(a + granted), FILL_GAP, GAP);
        }
        // the gap fill is the harness's own write: mirror it into the part of the shadow that already exists (the shadow
        // may have been extended over the first bytes of the gap by an observation taken before this allocation)
        {
            let mut sh = self.shadow.borrow_mut();
            let lo = next.saturating_sub(FIRST);
            let hi = (a - FIRST).min(sh.len());
            if lo < hi {
                sh[lo..hi].fill(FILL_GAP);
            }
        }
        self.next.set(a + granted);
        self.sync_shadow_tail();
        self.log.borrow_mut().push(BaseEv::Alloc { size, align, addr: a, granted });
        self.grants.borrow_mut().push(Grant { addr: a, req: size, granted, align, live: true, frees: 0 });
        Ok(NonNull::slice_from_raw_parts(unsafe { NonNull::new_unchecked(self.mem.add(a)) }, granted))
    }

    fn do_free(&self, ptr: NonNull<u8>, layout: Layout) {
        let addr = self.vaddr(ptr.as_ptr());
        self.log.borrow_mut().push(BaseEv::Free { addr, size: layout.size(), align: layout.align() });
        let mut grants = self.grants.borrow_mut();
        if let Some(g) = grants.iter_mut().find(|g| g.addr == addr && !g.live) {
            g.frees += 1; // a second release of the same block
        }
        if let Some(g) = grants.iter_mut().find(|g| g.addr == addr && g.live) {
            g.live = false;
            g.frees += 1;
            let n = g.granted;
            drop(grants);
            // poison the released block (harness write: mirrored into the shadow so that it is not reported)
            unsafe { std::ptr::write_bytes(self.mem.add(addr), FILL_FREED, n) };
            let mut sh = self.shadow.borrow_mut();
            let lo = addr - FIRST;
            if lo + n <= sh.len() {
                sh[lo..lo + n].fill(FILL_FREED);
            }
        }
    }

    /// extend the shadow to the high-water mark with the current memory contents
    fn sync_shadow_tail(&self) {
        let mut sh = self.shadow.borrow_mut();
        let hw = self.high_water();
        let have = FIRST + sh.len();
        if hw > have {
            let s = unsafe { std::slice::from_raw_parts(self.mem.add(have), hw - have) };
            sh.extend_from_slice(s);
        }
    }

    /// Byte ranges of [FIRST, high water) that differ from the shadow; the shadow is brought up to date.
    pub fn diff_and_sync(&self) -> Vec<(usize, usize)> {
        self.sync_shadow_tail();
        let mut sh = self.shadow.borrow_mut();
        let n = sh.len();
        let mem = unsafe { std::slice::from_raw_parts(self.mem.add(FIRST), n) };
        let mut out = Vec::new();
        if mem == &sh[..] {
            return out;
        }
        let mut i = 0;
        while i < n {
            // skip equal bytes, 8 at a time
            while i + 8 <= n && mem[i..i + 8] == sh[i..i + 8] {
                i += 8;
            }
            while i < n && mem[i] == sh[i] {
                i += 1;
            }
            if i >= n {
                break;
            }
            let lo = i;
            while i < n && mem[i] != sh[i] {
                i += 1;
            }
            out.push((FIRST + lo, FIRST + i));
        }
        sh.copy_from_slice(mem);
        out
    }

    /// the harness itself wrote [v, v+n): mirror into the shadow
    pub fn note_harness_write(&self, v: usize, n: usize) {
        self.sync_shadow_tail();
        let mut sh = self.shadow.borrow_mut();
        let lo = v - FIRST;
        if lo + n <= sh.len() {
            let s = unsafe { std::slice::from_raw_parts(self.mem.add(v), n) };
            sh[lo..lo + n].copy_from_slice(s);
        }
    }

    pub fn take_log(&self) -> Vec<BaseEv> {
        std::mem::take(&mut *self.log.borrow_mut())
    }
}

thread_local! {
    pub static REGION: &'static Region = Box::leak(Box::new(Region::new()));
}

pub fn region() -> &'static Region {
    REGION.with(|r| *r)
}

// ---- three flavours of base allocator handle -------------------------------------------------------------

/// zero-sized handle: ChunkHeader<A> is 32 bytes, align 16
#[derive(Clone, Copy, Default, Debug)]
pub struct ZstA;

/// pointer-sized handle: ChunkHeader<A> is 48 bytes, align 16
#[derive(Clone, Copy)]
pub struct PtrA(&'static Region);
impl Default for PtrA {
    fn default() -> Self {
        PtrA(region())
    }
}

/// 64-byte handle aligned to 64: ChunkHeader<A> is 128 bytes, align 64
#[derive(Clone, Copy)]
#[repr(align(64))]
pub struct BigA(&'static Region, [u64; 7]);
impl Default for BigA {
    fn default() -> Self {
        BigA(region(), [0x5151_5151_5151_5151; 7])
    }
}

macro_rules! impl_alloc {
    ($t:ty, $r:expr) => {
        unsafe impl Allocator for $t {
            fn allocate(&self, layout: Layout) -> Result<NonNull<[u8]>, AllocError> {
                let f: fn(&$t) -> &'static Region = $r;
                f(self).do_alloc(layout)
            }
            unsafe fn deallocate(&self, ptr: NonNull<u8>, layout: Layout) {
                let f: fn(&$t) -> &'static Region = $r;
                f(self).do_free(ptr, layout)
            }
        }
    };
}
impl_alloc!(ZstA, |_| region());
impl_alloc!(PtrA, |s| s.0);
impl_alloc!(BigA, |s| s.0);

pub trait Flavour: Allocator + Clone + Default + 'static {
    const NAME: &'static str;
}
impl Flavour for ZstA {
    const NAME: &'static str = "zst";
}
impl Flavour for PtrA {
    const NAME: &'static str = "ptr";
}
impl Flavour for BigA {
    const NAME: &'static str = "big";
}
