//! Instrumented element types: identity, validity token, global per-id drop counter, scripted panics.
//!
//! The harness is a dumb recorder: nothing here decides whether an execution is right or wrong.  Every event
//! (creation, drop, callback that saw a dead element) is logged into the thread-local `Ctx` and copied into the
//! observation line of the step; the oracle is spec/VecObs.tla.
#![allow(dead_code)]

use std::cell::RefCell;
use std::collections::VecDeque;

#[derive(Clone, Copy, PartialEq, Eq, Debug)]
pub enum Cb {
    Clone = 0,
    Closure = 1,
    Pred = 2,
    Next = 3,
    Drop = 4,
}

impl Cb {
    pub fn parse(s: &str) -> Option<Cb> {
        match s {
            "clone" => Some(Cb::Clone),
            "closure" => Some(Cb::Closure),
            "pred" => Some(Cb::Pred),
            "next" => Some(Cb::Next),
            "drop" => Some(Cb::Drop),
            _ => None,
        }
    }
}

pub const INJECTED: &str = "injected panic";
pub const MAX_ID: usize = 256;

pub struct Ctx {
    /// ids handed to elements created by Clone / closures / iterators, in order of creation
    pub fresh: VecDeque<u32>,
    pub fresh_underflow: u32,
    /// scripted panic: at the `pn`-th invocation of callback kind `pk`
    pub pk: Option<Cb>,
    pub pn: u32,
    pub counts: [u32; 5],
    pub armed: bool,
    pub fired: bool,
    /// predicate script by call index (zero sized elements have no identity)
    pub bs: Vec<bool>,
    pub bs_pos: usize,
    /// per step logs
    pub dropped: Vec<u32>,
    pub created: Vec<u32>,
    /// (source id, clone id) of every Clone::clone in this step
    pub clones: Vec<(u32, u32)>,
    pub tomb: bool,
    /// per behaviour tables
    pub drops: [u32; MAX_ID],
    pub made: [u32; MAX_ID],
    pub keys: [u8; MAX_ID],
    pub zst_created: u64,
    pub zst_dropped: u64,
    pub last_msg: String,
}

impl Ctx {
    fn new() -> Self {
        Ctx {
            fresh: VecDeque::new(),
            fresh_underflow: 0,
            pk: None,
            pn: 0,
            counts: [0; 5],
            armed: false,
            fired: false,
            bs: Vec::new(),
            bs_pos: 0,
            dropped: Vec::new(),
            created: Vec::new(),
            clones: Vec::new(),
            tomb: false,
            drops: [0; MAX_ID],
            made: [0; MAX_ID],
            keys: [0; MAX_ID],
            zst_created: 0,
            zst_dropped: 0,
            last_msg: String::new(),
        }
    }
}

thread_local! {
    pub static CTX: RefCell<Ctx> = RefCell::new(Ctx::new());
}

pub fn with<R>(f: impl FnOnce(&mut Ctx) -> R) -> R {
    CTX.with(|c| f(&mut c.borrow_mut()))
}

pub fn reset_behaviour(keys: &[u8]) {
    with(|c| {
        *c = Ctx::new();
        for (i, k) in keys.iter().enumerate() {
            if i + 1 < MAX_ID {
                c.keys[i + 1] = *k;
            }
        }
    });
}

/// prepare the context for one step
pub fn begin_step(fresh: &[u32], pk: Option<Cb>, pn: u32, bs: &[bool]) {
    with(|c| {
        c.fresh = fresh.iter().copied().collect();
        c.fresh_underflow = 0;
        c.pk = pk;
        c.pn = pn;
        c.counts = [0; 5];
        c.armed = pk.is_some();
        c.fired = false;
        c.bs = bs.to_vec();
        c.bs_pos = 0;
        c.dropped.clear();
        c.created.clear();
        c.clones.clear();
        c.tomb = false;
        c.last_msg.clear();
    });
}

pub fn disarm() {
    with(|c| c.armed = false);
}

/// a user callback of kind `k` is being invoked: count it, panic if the script says so
pub fn callback(k: Cb) {
    let fire = with(|c| {
        c.counts[k as usize] += 1;
        if c.armed && c.pk == Some(k) && c.counts[k as usize] == c.pn {
            c.armed = false;
            c.fired = true;
            true
        } else {
            false
        }
    });
    if fire {
        panic!("{}", INJECTED);
    }
}

/// next id for an element created inside the operation
pub fn fresh_id() -> u32 {
    with(|c| match c.fresh.pop_front() {
        Some(id) => id,
        None => {
            c.fresh_underflow += 1;
            // ids the model never handed out: visible as unexpected contents
            200 + (c.fresh_underflow % 50)
        }
    })
}

/// verdict of a predicate by call index (used for zero sized elements)
pub fn next_verdict() -> bool {
    with(|c| {
        let v = c.bs.get(c.bs_pos).copied().unwrap_or(false);
        c.bs_pos += 1;
        v
    })
}

pub fn key_of(id: u32) -> u8 {
    with(|c| c.keys.get(id as usize).copied().unwrap_or(0))
}

pub fn set_key(id: u32, k: u8) {
    with(|c| {
        if (id as usize) < MAX_ID {
            c.keys[id as usize] = k
        }
    });
}

fn note_created(id: u32, zst: bool) {
    with(|c| {
        if zst {
            c.zst_created += 1;
            c.created.push(0);
        } else {
            c.created.push(id);
            if (id as usize) < MAX_ID {
                c.made[id as usize] += 1;
            }
        }
    });
}

fn note_dropped(id: u32, valid: bool, zst: bool) {
    with(|c| {
        if zst {
            c.zst_dropped += 1;
            c.dropped.push(0);
        } else {
            c.dropped.push(id);
            if (id as usize) < MAX_ID {
                c.drops[id as usize] += 1;
            }
            if !valid {
                c.tomb = true;
            }
        }
    });
}

/// a callback (or the recorder reading a container) looks at an element: is it a live one ?
fn note_seen(id: u32, valid: bool) {
    with(|c| {
        let dead = !valid || (id as usize) >= MAX_ID || c.drops[id as usize] > 0 || c.made[id as usize] == 0;
        if dead {
            c.tomb = true;
        }
    });
}

pub trait Elem: Sized + Clone + PartialEq + 'static {
    const SHAPE: &'static str;
    const ZST: bool;
    /// element type with a different layout, for `map` into another type
    type Cross: Elem;
    fn make(id: u32) -> Self;
    /// the id as stored (garbage if the slot is a tombstone)
    fn id(&self) -> u32;
    /// record that user code looked at this element
    fn seen(&self);
}

const VALID: u64 = 0x5a5a_a5a5_c3c3_3c3c;
const TOMB: u64 = 0xdead_dead_dead_dead;

// ---------------------------------------------------------------------------------------------
/// 16 bytes, align 8
#[repr(C)]
pub struct E16 {
    id: u32,
    chk: u32,
    token: u64,
}

impl E16 {
    fn valid(&self) -> bool {
        self.token == VALID && self.chk == !self.id
    }
}

impl Elem for E16 {
    const SHAPE: &'static str = "e16";
    const ZST: bool = false;
    type Cross = E1;
    fn make(id: u32) -> Self {
        note_created(id, false);
        E16 { id, chk: !id, token: VALID }
    }
    fn id(&self) -> u32 {
        self.id
    }
    fn seen(&self) {
        note_seen(self.id, self.valid());
    }
}

impl Clone for E16 {
    fn clone(&self) -> Self {
        self.seen();
        callback(Cb::Clone);
        let id = fresh_id();
        set_key(id, key_of(self.id));
        with(|c| c.clones.push((self.id, id)));
        E16::make(id)
    }
}

impl PartialEq for E16 {
    fn eq(&self, other: &Self) -> bool {
        self.seen();
        other.seen();
        callback(Cb::Pred);
        key_of(self.id) == key_of(other.id)
    }
}

impl Drop for E16 {
    fn drop(&mut self) {
        note_dropped(self.id, self.valid(), false);
        unsafe { std::ptr::write_volatile(&mut self.token, TOMB) };
        callback(Cb::Drop);
    }
}

// ---------------------------------------------------------------------------------------------
/// 1 byte
#[repr(transparent)]
pub struct E1(u8);

impl Elem for E1 {
    const SHAPE: &'static str = "e1";
    const ZST: bool = false;
    type Cross = E16;
    fn make(id: u32) -> Self {
        note_created(id, false);
        E1(id as u8)
    }
    fn id(&self) -> u32 {
        self.0 as u32
    }
    fn seen(&self) {
        note_seen(self.0 as u32, self.0 != 0xff);
    }
}

impl Clone for E1 {
    fn clone(&self) -> Self {
        self.seen();
        callback(Cb::Clone);
        let id = fresh_id();
        set_key(id, key_of(self.0 as u32));
        with(|c| c.clones.push((self.0 as u32, id)));
        E1::make(id)
    }
}

impl PartialEq for E1 {
    fn eq(&self, other: &Self) -> bool {
        self.seen();
        other.seen();
        callback(Cb::Pred);
        key_of(self.0 as u32) == key_of(other.0 as u32)
    }
}

impl Drop for E1 {
    fn drop(&mut self) {
        note_dropped(self.0 as u32, self.0 != 0xff, false);
        unsafe { std::ptr::write_volatile(&mut self.0, 0xff) };
        callback(Cb::Drop);
    }
}

// ---------------------------------------------------------------------------------------------
/// zero sized: counted, not identified
pub struct EZ;

impl Elem for EZ {
    const SHAPE: &'static str = "ez";
    const ZST: bool = true;
    type Cross = EZ;
    fn make(_id: u32) -> Self {
        note_created(0, true);
        EZ
    }
    fn id(&self) -> u32 {
        0
    }
    fn seen(&self) {}
}

impl Clone for EZ {
    fn clone(&self) -> Self {
        callback(Cb::Clone);
        let _ = fresh_id();
        EZ::make(0)
    }
}

impl PartialEq for EZ {
    fn eq(&self, _other: &Self) -> bool {
        callback(Cb::Pred);
        next_verdict()
    }
}

impl Drop for EZ {
    fn drop(&mut self) {
        note_dropped(0, true, true);
        callback(Cb::Drop);
    }
}
