// Included once per settings module (see main.rs: `settings_mod!`); `Bmp`, `MA`, `UP` are defined by the includer.
// A dumb interpreter of Vec.tla behaviours on the real collections.  The only adaptation made here is the mirror
// mapping of MutBumpVecRev (model order = reversed slice order): indices / ranges / source slices / front-back are
// mirrored and contents are reported reversed; its "buffer address" is the END of the slice.

use crate::elem::{self, Cb, Elem};
use crate::{Behaviour, Step};
use bump_scope::{BumpBox, BumpVec, FixedBumpVec, MutBumpVec, MutBumpVecRev};
use serde_json::{Value, json};
use std::collections::VecDeque;
use std::mem;
use std::panic::{AssertUnwindSafe, catch_unwind};

pub enum Cont<'a, T: Elem> {
    None,
    B(BumpBox<'a, [T]>),
    E(BumpBox<'a, T>),
    F(FixedBumpVec<'a, T>),
    V(BumpVec<T, &'a Bmp>),
    M(MutBumpVec<T, &'a mut Bmp>),
    R(MutBumpVecRev<T, &'a mut Bmp>),
}

impl<'a, T: Elem> Cont<'a, T> {
    fn kind(&self) -> &'static str {
        match self {
            Cont::None => "-",
            Cont::B(_) => "B",
            Cont::E(_) => "E",
            Cont::F(_) => "F",
            Cont::V(_) => "V",
            Cont::M(_) => "M",
            Cont::R(_) => "R",
        }
    }
    fn len(&self) -> usize {
        match self {
            Cont::None => 0,
            Cont::B(x) => x.len(),
            Cont::E(_) => 1,
            Cont::F(x) => x.len(),
            Cont::V(x) => x.len(),
            Cont::M(x) => x.len(),
            Cont::R(x) => x.len(),
        }
    }
}

pub struct State<'a, T: Elem> {
    pub slots: Vec<Cont<'a, T>>,
    pub held: Vec<T>,
    pub shared: &'a Bmp,
    pub spare: Vec<&'a mut Bmp>,
    pub bufs: Vec<usize>,
    pub base: Option<usize>,
    pub ret: Vec<u32>,
    pub num: Vec<i64>,
    pub unsupported: bool,
}

struct Unsupported;

fn unsupported<R>(what: &str) -> R {
    eprintln!("HARNESS: unsupported {what}");
    std::panic::panic_any(Unsupported)
}

macro_rules! growable {
    ($cont:expr, $v:ident => $body:expr) => {
        match $cont {
            Cont::F($v) => $body,
            Cont::V($v) => $body,
            Cont::M($v) => $body,
            Cont::R($v) => $body,
            other => unsupported(other.kind()),
        }
    };
}
macro_rules! growable_or_box {
    ($cont:expr, $v:ident => $body:expr) => {
        match $cont {
            Cont::B($v) => $body,
            Cont::F($v) => $body,
            Cont::V($v) => $body,
            Cont::M($v) => $body,
            Cont::R($v) => $body,
            other => unsupported(other.kind()),
        }
    };
}
macro_rules! slicealg {
    ($cont:expr, $v:ident => $body:expr) => {
        match $cont {
            Cont::B($v) => $body,
            Cont::F($v) => $body,
            Cont::V($v) => $body,
            Cont::M($v) => $body,
            other => unsupported(other.kind()),
        }
    };
}

fn cap_i64(c: usize) -> i64 {
    if c == usize::MAX { -2 } else { c as i64 }
}

/// iterator producing fresh elements; its `next` is a user callback
struct GenIter<T: Elem> {
    ids: VecDeque<u32>,
    lo: usize,
    exact: bool,
    _m: std::marker::PhantomData<T>,
}
impl<T: Elem> GenIter<T> {
    fn new(ids: &[u32], lo: usize, exact: bool) -> Self {
        GenIter { ids: ids.iter().copied().collect(), lo, exact, _m: std::marker::PhantomData }
    }
}
impl<T: Elem> Iterator for GenIter<T> {
    type Item = T;
    fn next(&mut self) -> Option<T> {
        elem::callback(Cb::Next);
        self.ids.pop_front().map(T::make)
    }
    fn size_hint(&self) -> (usize, Option<usize>) {
        if self.exact { (self.ids.len(), Some(self.ids.len())) } else { (self.lo, None) }
    }
}

fn make_vec<T: Elem>(ids: &[u32], rev: bool) -> Vec<T> {
    if rev { ids.iter().rev().map(|&i| T::make(i)).collect() } else { ids.iter().map(|&i| T::make(i)).collect() }
}

impl<'a, T: Elem> State<'a, T> {
    fn hold(&mut self, x: T) {
        self.ret.push(x.id());
        self.held.push(x);
    }

    fn buf_index(&mut self, addr: usize) -> i64 {
        if let Some(p) = self.bufs.iter().position(|&a| a == addr) {
            return p as i64 + 1;
        }
        self.bufs.push(addr);
        self.bufs.len() as i64
    }

    /// address relative to the first address seen in this behaviour (+2^29); -2 = dangling, -1 = too far away to say
    fn rel_addr(&mut self, addr: usize) -> i64 {
        if addr == mem::align_of::<T>() {
            return -2;
        }
        let base = *self.base.get_or_insert(addr);
        let d = addr as i128 - base as i128 + (1i128 << 29);
        if d < 0 || d >= (1i128 << 30) { -1 } else { d as i64 }
    }

    /// [kind, ids (model order), len, cap (-2 = usize::MAX), buffer identity, start address (relative)]
    pub fn snapshot(&mut self) -> Value {
        let mut out = Vec::new();
        for i in 0..self.slots.len() {
            fn ids_of<T: Elem>(s: &[T]) -> Vec<u32> {
                s.iter()
                    .map(|e| {
                        if !T::ZST {
                            e.seen();
                        }
                        e.id()
                    })
                    .collect()
            }
            let (k, ids, len, cap, addr) = match &self.slots[i] {
                Cont::None => ("-", vec![], 0usize, 0i64, 0usize),
                Cont::B(x) => ("B", ids_of(x.as_slice()), x.len(), x.len() as i64, x.as_ptr() as usize),
                Cont::E(x) => ("E", ids_of(std::slice::from_ref(&**x)), 1, 1, (&**x) as *const T as usize),
                Cont::F(x) => ("F", ids_of(x.as_slice()), x.len(), cap_i64(x.capacity()), x.as_ptr() as usize),
                Cont::V(x) => ("V", ids_of(x.as_slice()), x.len(), cap_i64(x.capacity()), x.as_ptr() as usize),
                Cont::M(x) => ("M", ids_of(x.as_slice()), x.len(), cap_i64(x.capacity()), x.as_ptr() as usize),
                Cont::R(x) => {
                    let mut ids = ids_of(x.as_slice());
                    ids.reverse();
                    let end = (x.as_ptr() as usize).wrapping_add(x.len() * mem::size_of::<T>());
                    ("R", ids, x.len(), cap_i64(x.capacity()), end)
                }
            };
            let ids = if T::ZST { vec![] } else { ids };
            let b = if k == "-" { 0 } else { self.buf_index(addr) };
            let start = match &self.slots[i] {
                Cont::R(x) => x.as_ptr() as usize,
                _ => addr,
            };
            let a = if k == "-" { 0 } else { self.rel_addr(start) };
            out.push(json!([k, ids, len, cap, b, a]));
        }
        Value::Array(out)
    }

    fn take(&mut self, c: usize) -> Cont<'a, T> {
        mem::replace(&mut self.slots[c], Cont::None)
    }
}

/// verdict of a scripted predicate: by id for identified elements, by call index for zero sized ones
fn verdict<T: Elem>(e: &T, ps: &[u32]) -> bool {
    e.seen();
    elem::callback(Cb::Pred);
    if T::ZST { elem::next_verdict() } else { ps.contains(&e.id()) }
}

fn mirror_idx(i: usize, len: usize, inclusive: bool) -> usize {
    // insert positions 0..=len mirror to len - i; element positions 0..len mirror to len - 1 - i;
    // out-of-range stays out of range
    if inclusive {
        if i <= len { len - i } else { i }
    } else if i < len {
        len - 1 - i
    } else {
        i
    }
}

fn build_primary<'a, T: Elem>(st: &mut State<'a, T>, kind: &str, n: usize, spare: usize) {
    let ids: Vec<u32> = (1..=n as u32).collect();
    let c = match kind {
        "B" => Cont::B(st.shared.alloc_iter_exact(ids.iter().map(|&i| T::make(i)))),
        "F" => {
            let mut f = FixedBumpVec::with_capacity_in(n + spare, st.shared);
            for &i in &ids {
                f.push(T::make(i));
            }
            Cont::F(f)
        }
        "V" => {
            let mut v = BumpVec::with_capacity_in(n + spare, st.shared);
            for &i in &ids {
                v.push(T::make(i));
            }
            Cont::V(v)
        }
        "M" => {
            let b = st.spare.pop().unwrap();
            let mut v = MutBumpVec::with_capacity_in(n + spare, b);
            for &i in &ids {
                v.push(T::make(i));
            }
            Cont::M(v)
        }
        "R" => {
            let b = st.spare.pop().unwrap();
            let mut v = MutBumpVecRev::with_capacity_in(n + spare, b);
            for &i in &ids {
                v.push(T::make(i));
            }
            Cont::R(v)
        }
        _ => unreachable!(),
    };
    st.slots[0] = c;
}

fn two_mut<X>(v: &mut [X], a: usize, b: usize) -> (&mut X, &mut X) {
    assert!(a != b);
    if a < b {
        let (l, r) = v.split_at_mut(b);
        (&mut l[a], &mut r[0])
    } else {
        let (l, r) = v.split_at_mut(a);
        (&mut r[0], &mut l[b])
    }
}

/// consume an iterator according to the script: nf from the front, nb from the back (R: mirrored)
fn consume<T: Elem, I: DoubleEndedIterator<Item = T>>(held: &mut Vec<T>, ret: &mut Vec<u32>, it: &mut I, nf: usize, nb: usize, mirror: bool) {
    for _ in 0..nf {
        let x = if mirror { it.next_back() } else { it.next() };
        if let Some(x) = x {
            ret.push(x.id());
            held.push(x);
        }
    }
    for _ in 0..nb {
        let x = if mirror { it.next() } else { it.next_back() };
        if let Some(x) = x {
            ret.push(x.id());
            held.push(x);
        }
    }
}

fn exec<'a, T: Elem>(st: &mut State<'a, T>, s: &Step) {
    let c = s.c.wrapping_sub(1);
    let d = s.d.wrapping_sub(1);
    match s.op.as_str() {
        "push" => {
            let x = T::make(s.xs[0]);
            growable!(&mut st.slots[c], v => v.push(x));
        }
        "push_with" => {
            let id = s.xs[0];
            growable!(&mut st.slots[c], v => v.push_with(|| { elem::callback(Cb::Closure); T::make(id) }));
        }
        "insert" => {
            let x = T::make(s.xs[0]);
            match &mut st.slots[c] {
                Cont::F(v) => v.insert(s.i, x),
                Cont::V(v) => v.insert(s.i, x),
                Cont::M(v) => v.insert(s.i, x),
                Cont::R(v) => {
                    let idx = mirror_idx(s.i, v.len(), true);
                    v.insert(idx, x)
                }
                o => unsupported(o.kind()),
            }
        }
        "remove" | "swap_remove" => {
            let sw = s.op == "swap_remove";
            let x = match &mut st.slots[c] {
                Cont::B(v) => if sw { v.swap_remove(s.i) } else { v.remove(s.i) },
                Cont::F(v) => if sw { v.swap_remove(s.i) } else { v.remove(s.i) },
                Cont::V(v) => if sw { v.swap_remove(s.i) } else { v.remove(s.i) },
                Cont::M(v) => if sw { v.swap_remove(s.i) } else { v.remove(s.i) },
                Cont::R(v) => {
                    let idx = mirror_idx(s.i, v.len(), false);
                    if sw { v.swap_remove(idx) } else { v.remove(idx) }
                }
                o => unsupported(o.kind()),
            };
            st.hold(x);
        }
        "pop" => {
            let x = growable_or_box!(&mut st.slots[c], v => v.pop());
            if let Some(x) = x {
                st.hold(x);
            }
        }
        "pop_if" => {
            let ps = &s.ps;
            let x = growable!(&mut st.slots[c], v => v.pop_if(|e| verdict(e, ps)));
            if let Some(x) = x {
                st.hold(x);
            }
        }
        "truncate" => growable_or_box!(&mut st.slots[c], v => v.truncate(s.i)),
        "clear" => growable_or_box!(&mut st.slots[c], v => v.clear()),
        "resize" => {
            let x = T::make(s.xs[0]);
            growable!(&mut st.slots[c], v => v.resize(s.i, x));
        }
        "resize_with" => {
            growable!(&mut st.slots[c], v => v.resize_with(s.i, || { elem::callback(Cb::Closure); T::make(elem::fresh_id()) }));
        }
        "extend_from_slice_clone" => {
            let rev = matches!(st.slots[c], Cont::R(_));
            let src: Vec<T> = make_vec(&s.xs, rev);
            growable!(&mut st.slots[c], v => v.extend_from_slice_clone(&src));
            drop(src);
        }
        "extend_from_within_clone" => {
            match &mut st.slots[c] {
                Cont::F(v) => v.extend_from_within_clone(s.i..s.j),
                Cont::V(v) => v.extend_from_within_clone(s.i..s.j),
                Cont::M(v) => v.extend_from_within_clone(s.i..s.j),
                Cont::R(v) => {
                    let n = v.len();
                    if s.i <= s.j && s.j <= n { v.extend_from_within_clone((n - s.j)..(n - s.i)) } else { v.extend_from_within_clone(s.i..s.j) }
                }
                o => unsupported(o.kind()),
            }
        }
        "extend" => {
            let it = GenIter::<T>::new(&s.xs, s.i, false);
            growable!(&mut st.slots[c], v => v.extend(it));
        }
        "append" => {
            let rev = matches!(st.slots[c], Cont::R(_));
            let ids: Vec<u32> = if rev { s.xs.iter().rev().copied().collect() } else { s.xs.clone() };
            let shared = st.shared;
            macro_rules! app {
                ($src:expr) => {
                    growable!(&mut st.slots[c], v => v.append($src))
                };
            }
            match s.s.as_str() {
                "arr" => match ids.len() {
                    0 => {
                        let a: [T; 0] = [];
                        app!(a)
                    }
                    1 => app!([T::make(ids[0])]),
                    _ => app!([T::make(ids[0]), T::make(ids[1])]),
                },
                "vec" => app!(make_vec::<T>(&ids, false)),
                "vecmut" => {
                    let mut src = make_vec::<T>(&ids, false);
                    app!(&mut src);
                    st.num.push(src.len() as i64);
                }
                "box" => app!(make_vec::<T>(&ids, false).into_boxed_slice()),
                "bb" => {
                    let mut src: BumpBox<[T]> = shared.alloc_iter_exact(ids.iter().map(|&i| T::make(i)));
                    app!(&mut src);
                    st.num.push(src.len() as i64);
                }
                "fixed" => {
                    let mut src = FixedBumpVec::with_capacity_in(ids.len(), shared);
                    for &i in &ids {
                        src.push(T::make(i));
                    }
                    app!(&mut src);
                    st.num.push(src.len() as i64);
                }
                "bvec" => {
                    let mut src = BumpVec::new_in(shared);
                    for &i in &ids {
                        src.push(T::make(i));
                    }
                    app!(src);
                }
                "viter" => app!(make_vec::<T>(&ids, false).into_iter()),
                "vdrain" => {
                    let mut src = make_vec::<T>(&ids, false);
                    app!(src.drain(..));
                    st.num.push(src.len() as i64);
                }
                "odrain" => {
                    let mut src: BumpBox<[T]> = shared.alloc_iter_exact(ids.iter().map(|&i| T::make(i)));
                    app!(src.drain(..));
                    st.num.push(src.len() as i64);
                }
                "oiter" => {
                    let src: BumpBox<[T]> = shared.alloc_iter_exact(ids.iter().map(|&i| T::make(i)));
                    app!(src.into_iter());
                }
                o => unsupported(o),
            }
        }
        "append_slot" => {
            let (cc, dd) = two_mut(&mut st.slots, c, d);
            macro_rules! from_d {
                ($v:ident) => {
                    match dd {
                        Cont::B(w) => $v.append(w),
                        Cont::F(w) => $v.append(w),
                        Cont::V(w) => $v.append(w),
                        Cont::M(w) => $v.append(w),
                        Cont::R(w) => $v.append(w),
                        o => unsupported(o.kind()),
                    }
                };
            }
            growable!(cc, v => from_d!(v));
        }
        "reserve" => growable!(&mut st.slots[c], v => v.reserve(s.i)),
        "reserve_exact" => match &mut st.slots[c] {
            Cont::V(v) => v.reserve_exact(s.i),
            Cont::M(v) => v.reserve_exact(s.i),
            Cont::R(v) => v.reserve_exact(s.i),
            o => unsupported(o.kind()),
        },
        "shrink_to_fit" => match &mut st.slots[c] {
            Cont::V(v) => v.shrink_to_fit(),
            o => unsupported(o.kind()),
        },
        "shrink_to" => match &mut st.slots[c] {
            Cont::V(v) => v.shrink_to(s.i),
            o => unsupported(o.kind()),
        },
        "retain" => {
            let ps = &s.ps;
            slicealg!(&mut st.slots[c], v => v.retain(|e| verdict(e, ps)));
        }
        "dedup" => slicealg!(&mut st.slots[c], v => v.dedup()),
        "dedup_by" => {
            slicealg!(&mut st.slots[c], v => v.dedup_by(|a, b| {
                a.seen();
                b.seen();
                elem::callback(Cb::Pred);
                if T::ZST { elem::next_verdict() } else { elem::key_of(a.id()) == elem::key_of(b.id()) }
            }));
        }
        "dedup_by_key" => {
            let mut calls = 0usize;
            let bs = s.bs.clone();
            slicealg!(&mut st.slots[c], v => v.dedup_by_key(|a| {
                a.seen();
                elem::callback(Cb::Closure);
                let k = calls;
                calls += 1;
                if T::ZST {
                    // two key calls per comparison: make them equal iff the script says "same bucket"
                    if k % 2 == 0 { if bs.get(k / 2).copied().unwrap_or(false) { 0u8 } else { 1u8 } } else { 0u8 }
                } else {
                    elem::key_of(a.id())
                }
            }));
        }
        "drain" => {
            let (nf, nb) = if s.xs.len() == 2 { (s.xs[0] as usize, s.xs[1] as usize) } else { (0, 0) };
            let fin = s.s.as_str();
            let State { slots, held, ret, .. } = st;
            slicealg!(&mut slots[c], v => {
                let mut dr = v.drain(s.i..s.j);
                consume(held, ret, &mut dr, nf, nb, false);
                match fin {
                    "forget" => mem::forget(dr),
                    "keep" => dr.keep_rest(),
                    _ => drop(dr),
                }
            });
        }
        "extract_if" => {
            let ps = &s.ps;
            let cnt = s.i;
            let State { slots, held, ret, .. } = st;
            slicealg!(&mut slots[c], v => {
                let mut it = v.extract_if(|e| verdict(e, ps));
                for _ in 0..cnt {
                    match it.next() {
                        Some(x) => {
                            ret.push(x.id());
                            held.push(x);
                        }
                        None => break,
                    }
                }
                drop(it);
            });
        }
        "splice" => {
            let nf = s.ps.first().copied().unwrap_or(0) as usize;
            let it = GenIter::<T>::new(&s.xs, 0, s.s != "zero");
            let State { slots, held, ret, .. } = st;
            match &mut slots[c] {
                Cont::V(v) => {
                    let mut sp = v.splice(s.i..s.j, it);
                    consume(held, ret, &mut sp, nf, 0, false);
                    drop(sp);
                }
                o => unsupported(o.kind()),
            }
        }
        "into_iter" => {
            let (nf, nb) = (s.xs[0] as usize, s.xs[1] as usize);
            let forget = s.s == "forget";
            let cont = st.take(c);
            let State { held, ret, .. } = st;
            macro_rules! run_it {
                ($v:expr, $mirror:expr) => {{
                    let mut it = $v.into_iter();
                    consume(held, ret, &mut it, nf, nb, $mirror);
                    if forget { mem::forget(it) } else { drop(it) }
                }};
            }
            match cont {
                Cont::B(v) => run_it!(v, false),
                Cont::F(v) => run_it!(v, false),
                Cont::V(v) => run_it!(v, false),
                Cont::M(v) => run_it!(v, false),
                Cont::R(v) => run_it!(v, true),
                o => unsupported(o.kind()),
            }
        }
        "map_in_place" => {
            let f = |t: T| {
                elem::callback(Cb::Closure);
                t.seen();
                let k = elem::key_of(t.id());
                drop(t);
                let id = elem::fresh_id();
                elem::set_key(id, k);
                T::make(id)
            };
            let cont = st.take(c);
            st.slots[c] = match cont {
                Cont::B(v) => Cont::B(v.map_in_place(f)),
                Cont::F(v) => Cont::F(v.map_in_place(f)),
                Cont::V(v) => Cont::V(v.map_in_place(f)),
                Cont::M(v) => Cont::M(v.map_in_place(f)),
                o => unsupported(o.kind()),
            };
        }
        "map" => {
            let f = |t: T| {
                elem::callback(Cb::Closure);
                t.seen();
                let k = elem::key_of(t.id());
                drop(t);
                let id = elem::fresh_id();
                elem::set_key(id, k);
                T::make(id)
            };
            let cont = st.take(c);
            st.slots[c] = match cont {
                Cont::V(v) => Cont::V(v.map(f)),
                o => unsupported(o.kind()),
            };
        }
        "map_cross" => {
            let f = |t: T| {
                elem::callback(Cb::Closure);
                t.seen();
                drop(t);
                <T::Cross as Elem>::make(elem::fresh_id())
            };
            let cont = st.take(c);
            match cont {
                Cont::V(v) => {
                    let w: BumpVec<T::Cross, &'a Bmp> = v.map(f);
                    for e in w.iter() {
                        e.seen();
                        st.ret.push(e.id());
                    }
                    st.num.push(w.len() as i64);
                    drop(w);
                }
                o => unsupported(o.kind()),
            }
        }
        "into_boxed_slice" => {
            let cont = st.take(c);
            st.slots[c] = match cont {
                Cont::F(v) => Cont::B(v.into_boxed_slice()),
                Cont::V(v) => Cont::B(v.into_boxed_slice()),
                Cont::M(v) => Cont::B(v.into_boxed_slice()),
                Cont::R(v) => Cont::B(v.into_boxed_slice()),
                o => unsupported(o.kind()),
            };
        }
        "into_fixed_vec" => {
            let cont = st.take(c);
            st.slots[c] = match cont {
                Cont::V(v) => Cont::F(v.into_fixed_vec()),
                o => unsupported(o.kind()),
            };
        }
        "into_vec" => {
            let cont = st.take(c);
            st.slots[c] = match cont {
                Cont::F(v) => Cont::V(v.into_vec(st.shared)),
                o => unsupported(o.kind()),
            };
        }
        "from_init" => {
            let cont = st.take(c);
            st.slots[c] = match cont {
                Cont::B(v) => Cont::F(FixedBumpVec::from_init(v)),
                o => unsupported(o.kind()),
            };
        }
        "parts_roundtrip" => {
            let cont = st.take(c);
            st.slots[c] = match cont {
                Cont::V(v) => {
                    let (f, a) = v.into_parts();
                    Cont::V(BumpVec::from_parts(f, a))
                }
                o => unsupported(o.kind()),
            };
        }
        "leak" => {
            let cont = st.take(c);
            match cont {
                Cont::B(v) => {
                    let r: &mut [T] = BumpBox::leak(v);
                    st.num.push(r.len() as i64);
                }
                Cont::E(v) => {
                    let _r: &mut T = BumpBox::leak(v);
                    st.num.push(1);
                }
                o => unsupported(o.kind()),
            }
        }
        "forget" => {
            let cont = st.take(c);
            match cont {
                Cont::None => {}
                Cont::B(v) => mem::forget(v),
                Cont::E(v) => mem::forget(v),
                Cont::F(v) => mem::forget(v),
                Cont::V(v) => mem::forget(v),
                Cont::M(v) => mem::forget(v),
                Cont::R(v) => mem::forget(v),
            }
        }
        "new" => {
            let shared = st.shared;
            let nc = match s.s.as_str() {
                "B" => Cont::B(shared.alloc_iter_exact(s.xs.iter().map(|&i| T::make(i)))),
                "F" => match s.j {
                    1 => Cont::F(FixedBumpVec::from_iter_in(GenIter::<T>::new(&s.xs, 0, false), shared)),
                    2 => Cont::F(FixedBumpVec::from_iter_exact_in(s.xs.iter().map(|&i| T::make(i)), shared)),
                    _ => {
                        let mut f = FixedBumpVec::with_capacity_in(s.i, shared);
                        for &i in &s.xs {
                            f.push(T::make(i));
                        }
                        Cont::F(f)
                    }
                },
                "V" => match s.j {
                    1 => Cont::V(BumpVec::from_iter_in(GenIter::<T>::new(&s.xs, 0, false), shared)),
                    2 => Cont::V(BumpVec::from_iter_exact_in(s.xs.iter().map(|&i| T::make(i)), shared)),
                    3 => Cont::V(BumpVec::from_owned_slice_in(make_vec::<T>(&s.xs, false), shared)),
                    _ => {
                        let mut f = if s.i == 0 { BumpVec::new_in(shared) } else { BumpVec::with_capacity_in(s.i, shared) };
                        for &i in &s.xs {
                            f.push(T::make(i));
                        }
                        Cont::V(f)
                    }
                },
                o => unsupported(o),
            };
            st.slots[d] = nc;
        }
        "flatten" => {
            let shared = st.shared;
            let pairs = s.xs.chunks(2).map(|p| [T::make(p[0]), T::make(p[1])]);
            let nc = match s.s.as_str() {
                "B" => {
                    let b: BumpBox<[[T; 2]]> = shared.alloc_iter_exact(pairs.collect::<Vec<_>>());
                    Cont::B(b.into_flattened())
                }
                "F" => {
                    let mut f: FixedBumpVec<[T; 2]> = FixedBumpVec::with_capacity_in(s.xs.len() / 2, shared);
                    for p in pairs {
                        f.push(p);
                    }
                    Cont::F(f.into_flattened())
                }
                "V" => {
                    let mut f: BumpVec<[T; 2], &'a Bmp> = BumpVec::new_in(shared);
                    for p in pairs {
                        f.push(p);
                    }
                    Cont::V(f.into_flattened())
                }
                "M" => {
                    let b = st.spare.pop().unwrap();
                    let mut f: MutBumpVec<[T; 2], &'a mut Bmp> = MutBumpVec::new_in(b);
                    for p in pairs {
                        f.push(p);
                    }
                    Cont::M(f.into_flattened())
                }
                "R" => {
                    let b = st.spare.pop().unwrap();
                    let mut f: MutBumpVecRev<[T; 2], &'a mut Bmp> = MutBumpVecRev::new_in(b);
                    for p in pairs {
                        f.push(p);
                    }
                    Cont::R(f.into_flattened())
                }
                o => unsupported(o),
            };
            st.slots[d] = nc;
        }
        "split_off" => {
            let other = match &mut st.slots[c] {
                Cont::B(v) => Cont::B(v.split_off(s.i..s.j)),
                Cont::F(v) => Cont::F(v.split_off(s.i..s.j)),
                Cont::V(v) => Cont::V(v.split_off(s.i..s.j)),
                o => unsupported(o.kind()),
            };
            st.slots[d] = other;
        }
        "split_at" => {
            let cont = st.take(c);
            match cont {
                Cont::B(v) => {
                    let (l, r) = v.split_at(s.i);
                    st.slots[c] = Cont::B(l);
                    st.slots[d] = Cont::B(r);
                }
                o => unsupported(o.kind()),
            }
        }
        "split_first" | "split_last" => {
            let cont = st.take(c);
            match cont {
                Cont::B(v) => {
                    let r = if s.op == "split_first" { v.split_first() } else { v.split_last() };
                    if let Some((one, rest)) = r {
                        st.slots[c] = Cont::B(rest);
                        st.slots[d] = Cont::E(one);
                    }
                }
                o => unsupported(o.kind()),
            }
        }
        "split_off_first" | "split_off_last" => {
            let one = match &mut st.slots[c] {
                Cont::B(v) => if s.op == "split_off_first" { v.split_off_first() } else { v.split_off_last() },
                o => unsupported(o.kind()),
            };
            if let Some(one) = one {
                st.slots[d] = Cont::E(one);
            }
        }
        "split_at_spare" => {
            let cont = st.take(c);
            match cont {
                Cont::F(v) => {
                    let len = v.len();
                    let (init, spare) = v.split_at_spare();
                    st.num.push(if spare.len() == usize::MAX - len { -2 } else { spare.len() as i64 });
                    drop(spare);
                    st.slots[c] = Cont::B(init);
                }
                o => unsupported(o.kind()),
            }
        }
        "partition" => {
            let ps = &s.ps;
            let cont = st.take(c);
            match cont {
                Cont::B(v) => {
                    let (l, r) = v.partition(|e| verdict(e, ps));
                    st.slots[c] = Cont::B(l);
                    st.slots[d] = Cont::B(r);
                }
                o => unsupported(o.kind()),
            }
        }
        "merge" => {
            let a = st.take(c);
            let b = st.take(d);
            match (a, b) {
                (Cont::B(a), Cont::B(b)) => st.slots[c] = Cont::B(a.merge(b)),
                _ => unsupported("merge operands"),
            }
        }
        "into_inner" => {
            let cont = st.take(c);
            match cont {
                Cont::E(v) => {
                    let x = v.into_inner();
                    st.hold(x);
                }
                o => unsupported(o.kind()),
            }
        }
        "one_into_slice" => {
            let cont = st.take(c);
            st.slots[c] = match cont {
                Cont::E(v) => Cont::B(v.into_boxed_slice()),
                o => unsupported(o.kind()),
            };
        }
        "observe" => {
            // first, last, get(i), reverse iteration (0 = None); R: mirrored
            fn obs<T: Elem>(sl: &[T], i: usize, ret: &mut Vec<u32>, mirror: bool) {
                let idf = |e: Option<&T>| e.map(|e| { e.seen(); e.id().max(if T::ZST { 1 } else { 0 }) }).unwrap_or(0);
                let n = sl.len();
                if mirror {
                    ret.push(idf(sl.last()));
                    ret.push(idf(sl.first()));
                    ret.push(idf(if i < n { sl.get(n - 1 - i) } else { None }));
                    ret.extend(sl.iter().map(|e| idf(Some(e))));
                } else {
                    ret.push(idf(sl.first()));
                    ret.push(idf(sl.last()));
                    ret.push(idf(sl.get(i)));
                    ret.extend(sl.iter().rev().map(|e| idf(Some(e))));
                }
            }
            let State { slots, ret, num, .. } = st;
            match &slots[c] {
                Cont::B(v) => { obs(v, s.i, ret, false); num.push(v.is_empty() as i64); }
                Cont::F(v) => { obs(v, s.i, ret, false); num.push(v.is_empty() as i64); }
                Cont::V(v) => { obs(v, s.i, ret, false); num.push(v.is_empty() as i64); }
                Cont::M(v) => { obs(v, s.i, ret, false); num.push(v.is_empty() as i64); }
                Cont::R(v) => { obs(v, s.i, ret, true); num.push(v.is_empty() as i64); }
                o => unsupported(o.kind()),
            }
        }
        "drop_cont" => {
            let cont = st.take(c);
            drop(cont);
        }
        "drop_held" => {
            st.held.clear();
        }
        o => unsupported(o),
    }
}

/// run one behaviour on element type T; returns the observation object
pub fn run<T: Elem>(beh: &Behaviour, bidx: usize) -> Value {
    elem::reset_behaviour(&beh.keys);
    let shared: Bmp = Bmp::new();
    let mut excl: Vec<Bmp> = (0..6).map(|_| Bmp::new()).collect();
    let mut steps_out: Vec<Value> = Vec::new();
    let mut unsupported_seen = false;
    {
        let mut st: State<T> = State {
            slots: (0..beh.nslots).map(|_| Cont::None).collect(),
            held: Vec::new(),
            shared: &shared,
            spare: excl.iter_mut().collect(),
            bufs: Vec::new(),
            base: None,
            ret: Vec::new(),
            num: Vec::new(),
            unsupported: false,
        };
        elem::begin_step(&[], None, 0, &[]);
        build_primary(&mut st, &beh.kind, beh.n, beh.spare);
        let init_created = elem::with(|c| c.created.clone());
        let init_cs = st.snapshot();
        steps_out.push(json!({"op": "init", "c": 1, "d": 0, "i": 0, "j": 0, "s": "", "pk": "", "pn": 0,
            "o": {"out": "ok", "injp": false, "msg": "", "ret": [], "num": [], "cs": init_cs, "dr": [], "cr": init_created, "cl": [],
                  "tomb": false, "held": [], "zc": elem::with(|c| c.zst_created), "zd": elem::with(|c| c.zst_dropped), "xcb": 0}}));
        for s in &beh.steps {
            // ids created by Clone / closures / iterators inside the operation, in order
            let fresh: Vec<u32> = match s.op.as_str() {
                "resize" => s.xs.iter().skip(1).copied().collect(),
                "resize_with" | "map_in_place" | "map" | "map_cross" => s.xs.clone(),
                "extend_from_slice_clone" => s.ps.clone(),
                "extend_from_within_clone" => s.xs.clone(),
                _ => vec![],
            };
            elem::begin_step(&fresh, s.pk, s.pn, &s.bs);
            st.ret.clear();
            st.num.clear();
            let r = catch_unwind(AssertUnwindSafe(|| exec(&mut st, s)));
            elem::disarm();
            let (out, injp, msg) = match &r {
                Ok(()) => ("ok", false, String::new()),
                Err(p) => {
                    if p.is::<Unsupported>() {
                        unsupported_seen = true;
                        ("unsupported", false, String::new())
                    } else {
                        let m = if let Some(s) = p.downcast_ref::<String>() { s.clone() } else if let Some(s) = p.downcast_ref::<&str>() { s.to_string() } else { "?".to_string() };
                        ("panic", m == elem::INJECTED, m)
                    }
                }
            };
            let (dr, cr, xcb, fired) = elem::with(|c| (c.dropped.clone(), c.created.clone(), c.fresh_underflow, c.fired));
            let cl: Vec<Vec<u32>> = elem::with(|c| c.clones.iter().map(|(a, b)| vec![*a, *b]).collect());
            // reading the containers is part of the observation (a dead element inside a container sets tomb)
            let cs = st.snapshot();
            let held: Vec<u32> = st.held.iter().map(|e| e.id()).collect();
            let tomb = elem::with(|c| c.tomb);
            let (zc, zd) = elem::with(|c| (c.zst_created, c.zst_dropped));
            steps_out.push(json!({"op": s.op, "c": s.c, "d": s.d, "i": s.i, "j": s.j, "s": s.s, "pk": s.pk_s, "pn": s.pn, "e": s.e,
                "o": {"out": out, "injp": injp, "fired": fired, "msg": msg, "ret": st.ret, "num": st.num, "cs": cs, "dr": dr, "cr": cr, "cl": cl,
                      "tomb": tomb, "held": held, "zc": zc, "zd": zd, "xcb": xcb}}));
            if unsupported_seen {
                break;
            }
        }
        // anything the behaviour left alive is forgotten, not dropped: the closing phase is part of the behaviour
        for c in st.slots.drain(..) {
            mem::forget(c);
        }
        for h in st.held.drain(..) {
            mem::forget(h);
        }
    }
    drop(excl);
    json!({"b": bidx, "shape": T::SHAPE, "up": UP, "ma": MA, "kind": beh.kind, "zst": beh.zst, "crash": false,
           "unsup": unsupported_seen, "std": false, "stopped": false, "esz": mem::size_of::<T>(), "steps": steps_out})
}
