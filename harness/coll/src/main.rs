//! coll: replays Vec.tla behaviours (NDJSON, one behaviour per line) on the real bump-scope collections and on
//! std::vec::Vec, and records one observation line per (behaviour, instantiation).
//!
//!   coll replay <behaviours.ndjson> <out.ndjson> <shapes: e16,e1,ez> <settings: u1,d1,u8,d8,u16,d16> <all|rotate> [skip]
//!   coll std    <behaviours.ndjson> <out.ndjson>
//!
//! stdout: number of runs written.  The output is flushed after every run so that a crash of the code under test
//! (abort / segfault) loses nothing: the orchestrator counts the lines, records the crash and restarts with `skip`.

mod elem;
mod stdrun;

use bump_scope::{Bump, alloc::Global, settings::BumpSettings};
use elem::Cb;
use serde_json::Value;
use std::io::{BufRead, BufWriter, Write};

pub struct Step {
    pub op: String,
    pub c: usize,
    pub d: usize,
    pub i: usize,
    pub j: usize,
    pub xs: Vec<u32>,
    pub ps: Vec<u32>,
    pub bs: Vec<bool>,
    pub s: String,
    pub pk: Option<Cb>,
    pub pk_s: String,
    pub pn: u32,
    pub e: Value,
}

pub struct Behaviour {
    pub kind: String,
    pub zst: bool,
    pub n: usize,
    pub spare: usize,
    pub nslots: usize,
    pub keys: Vec<u8>,
    pub steps: Vec<Step>,
    pub cfg: Value,
    pub has_inj: bool,
}

fn u(v: &Value) -> usize {
    v.as_i64().unwrap_or(0).max(0) as usize
}
fn ids(v: &Value) -> Vec<u32> {
    v.as_array().map(|a| a.iter().map(|x| x.as_i64().unwrap_or(0) as u32).collect()).unwrap_or_default()
}

fn parse(line: &str) -> Behaviour {
    let v: Value = serde_json::from_str(line).expect("behaviour json");
    let cfg = v["cfg"].clone();
    let mut steps = Vec::new();
    let mut nslots = 1;
    let mut has_inj = false;
    for s in v["steps"].as_array().unwrap() {
        let pk_s = s["pk"].as_str().unwrap_or("").to_string();
        if !pk_s.is_empty() {
            has_inj = true;
        }
        if let Some(cs) = s["e"]["cs"].as_array() {
            nslots = nslots.max(cs.len());
        }
        steps.push(Step {
            op: s["op"].as_str().unwrap().to_string(),
            c: u(&s["c"]),
            d: u(&s["d"]),
            i: u(&s["i"]),
            j: u(&s["j"]),
            xs: ids(&s["xs"]),
            ps: ids(&s["ps"]),
            bs: s["bs"].as_array().map(|a| a.iter().map(|x| x.as_bool().unwrap_or(false)).collect()).unwrap_or_default(),
            s: s["s"].as_str().unwrap_or("").to_string(),
            pk: Cb::parse(&pk_s),
            pk_s,
            pn: u(&s["pn"]) as u32,
            e: s["e"].clone(),
        });
    }
    Behaviour {
        kind: cfg["kind"].as_str().unwrap().to_string(),
        zst: cfg["zst"].as_bool().unwrap(),
        n: u(&cfg["n"]),
        spare: u(&cfg["spare"]),
        nslots,
        keys: v["key"].as_array().unwrap().iter().map(|x| x.as_i64().unwrap() as u8).collect(),
        steps,
        cfg,
        has_inj,
    }
}

macro_rules! settings_mod {
    ($name:ident, $ma:literal, $up:literal) => {
        pub mod $name {
            use super::*;
            pub type Bmp = Bump<Global, BumpSettings<$ma, $up>>;
            pub const MA: usize = $ma;
            pub const UP: bool = $up;
            include!("interp_body.rs");
        }
    };
}
settings_mod!(u1, 1, true);
settings_mod!(d1, 1, false);
settings_mod!(u8_, 8, true);
settings_mod!(d8, 8, false);
settings_mod!(u16_, 16, true);
settings_mod!(d16, 16, false);

fn run_one(beh: &Behaviour, bidx: usize, shape: &str, setting: &str) -> Value {
    macro_rules! go {
        ($m:ident) => {
            match shape {
                "e16" => $m::run::<elem::E16>(beh, bidx),
                "e1" => $m::run::<elem::E1>(beh, bidx),
                _ => $m::run::<elem::EZ>(beh, bidx),
            }
        };
    }
    match setting {
        "u1" => go!(u1),
        "d1" => go!(d1),
        "u8" => go!(u8_),
        "d8" => go!(d8),
        "u16" => go!(u16_),
        _ => go!(d16),
    }
}

fn main() {
    let args: Vec<String> = std::env::args().collect();
    if args.len() < 4 {
        eprintln!("usage: coll replay|std <behaviours> <out> ...");
        std::process::exit(2);
    }
    // panics are data: keep stderr quiet, remember the message
    std::panic::set_hook(Box::new(|_| {}));
    let behs: Vec<Behaviour> = std::io::BufReader::new(std::fs::File::open(&args[2]).expect("open behaviours"))
        .lines()
        .map(|l| l.unwrap())
        .filter(|l| !l.trim().is_empty())
        .map(|l| parse(&l))
        .collect();
    let append = args.len() > 7 && args[7].parse::<usize>().unwrap_or(0) > 0;
    let f = std::fs::OpenOptions::new().create(true).write(true).append(append).truncate(!append).open(&args[3]).expect("open out");
    let mut out = BufWriter::new(f);
    let mut written = 0usize;
    match args[1].as_str() {
        "replay" => {
            let shapes: Vec<&str> = args[4].split(',').collect();
            let settings: Vec<&str> = args[5].split(',').collect();
            // all: every applicable shape x every setting; shapes: every applicable shape, settings rotate;
            // rotate: one run per behaviour, shape and setting rotate
            let mode = args[6].as_str();
            let skip: usize = if args.len() > 7 { args[7].parse().unwrap_or(0) } else { 0 };
            let mut k = 0usize;
            for (bi, beh) in behs.iter().enumerate() {
                let applicable: Vec<&str> = shapes.iter().copied().filter(|s| (*s == "ez") == beh.zst).collect();
                if applicable.is_empty() {
                    continue;
                }
                let chosen: Vec<&str> = if mode == "rotate" { vec![applicable[bi % applicable.len()]] } else { applicable.clone() };
                for (si, shape) in chosen.iter().enumerate() {
                    let sets: Vec<&str> = if mode == "all" { settings.clone() } else { vec![settings[(bi / 2 + si) % settings.len()]] };
                    for set in sets {
                        k += 1;
                        if k <= skip {
                            continue;
                        }
                        let mut o = run_one(beh, bi + 1, shape, set);
                        o["cfg"] = beh.cfg.clone();
                        o["k"] = Value::from(k);
                        writeln!(out, "{}", o).unwrap();
                        out.flush().unwrap();
                        written += 1;
                    }
                }
            }
        }
        "std" => {
            for (bi, beh) in behs.iter().enumerate() {
                if beh.has_inj || beh.kind == "F" {
                    continue;
                }
                let mut o = if beh.zst { stdrun::run::<elem::EZ>(beh, bi + 1) } else { stdrun::run::<elem::E16>(beh, bi + 1) };
                o["cfg"] = beh.cfg.clone();
                writeln!(out, "{}", o).unwrap();
                written += 1;
            }
            out.flush().unwrap();
        }
        _ => std::process::exit(2),
    }
    println!("{written}");
}
