//! The same behaviours on std::vec::Vec: validates Vec.tla itself (a disagreement here is a SPECIFICATION bug).
//! Everything is in model order (no mirroring).  Operations without a std counterpart end the replay of the behaviour.

use crate::elem::{self, Cb, Elem};
use crate::{Behaviour, Step};
use serde_json::{Value, json};
use std::collections::VecDeque;
use std::mem;
use std::panic::{AssertUnwindSafe, catch_unwind};

struct NoStd;

struct GenIter<T: Elem> {
    ids: VecDeque<u32>,
    lo: usize,
    exact: bool,
    _m: std::marker::PhantomData<T>,
}
impl<T: Elem> Iterator for GenIter<T> {
    type Item = T;
    fn next(&mut self) -> Option<T> {
        elem::callback(Cb::Next);
        self.ids.pop_front().map(T::make)
    }
    fn size_hint(&self) -> (usize, Option<usize>) {
        if self.exact { (self.ids.len(), Some(self.ids.len())) } else { (self.lo, None) }
    }
}

struct St<T: Elem> {
    slots: Vec<Option<Vec<T>>>,
    kinds: Vec<&'static str>,
    held: Vec<T>,
    ret: Vec<u32>,
    num: Vec<i64>,
}

fn verdict<T: Elem>(e: &T, ps: &[u32]) -> bool {
    e.seen();
    elem::callback(Cb::Pred);
    if T::ZST { elem::next_verdict() } else { ps.contains(&e.id()) }
}

fn consume<T: Elem, I: DoubleEndedIterator<Item = T>>(held: &mut Vec<T>, ret: &mut Vec<u32>, it: &mut I, nf: usize, nb: usize) {
    for _ in 0..nf {
        if let Some(x) = it.next() {
            ret.push(x.id());
            held.push(x);
        }
    }
    for _ in 0..nb {
        if let Some(x) = it.next_back() {
            ret.push(x.id());
            held.push(x);
        }
    }
}

fn nostd<R>() -> R {
    std::panic::panic_any(NoStd)
}

fn exec<T: Elem>(st: &mut St<T>, s: &Step) {
    let c = s.c.wrapping_sub(1);
    let d = s.d.wrapping_sub(1);
    macro_rules! v {
        () => {
            st.slots[c].as_mut().unwrap()
        };
    }
    // documented difference: a FixedBumpVec fails when full, std never does: growth of a fixed vector has no std counterpart
    if c < st.kinds.len() && st.kinds[c] == "F" && matches!(s.op.as_str(), "push" | "push_with" | "insert" | "resize" | "resize_with"
        | "extend_from_slice_clone" | "extend_from_within_clone" | "extend" | "append" | "append_slot" | "reserve" | "split_at_spare") {
        nostd::<()>();
    }
    match s.op.as_str() {
        "push" => {
            let x = T::make(s.xs[0]);
            v!().push(x)
        }
        "insert" => {
            let x = T::make(s.xs[0]);
            v!().insert(s.i, x)
        }
        "remove" => {
            let x = v!().remove(s.i);
            st.ret.push(x.id());
            st.held.push(x);
        }
        "swap_remove" => {
            let x = v!().swap_remove(s.i);
            st.ret.push(x.id());
            st.held.push(x);
        }
        "pop" => {
            if let Some(x) = v!().pop() {
                st.ret.push(x.id());
                st.held.push(x);
            }
        }
        "pop_if" => {
            let ps = &s.ps;
            if let Some(x) = v!().pop_if(|e| verdict(e, ps)) {
                st.ret.push(x.id());
                st.held.push(x);
            }
        }
        "truncate" => v!().truncate(s.i),
        "clear" => v!().clear(),
        "resize" => {
            let x = T::make(s.xs[0]);
            v!().resize(s.i, x)
        }
        "resize_with" => v!().resize_with(s.i, || {
            elem::callback(Cb::Closure);
            T::make(elem::fresh_id())
        }),
        "extend_from_slice_clone" => {
            let src: Vec<T> = s.xs.iter().map(|&i| T::make(i)).collect();
            v!().extend_from_slice(&src);
        }
        "extend_from_within_clone" => v!().extend_from_within(s.i..s.j),
        "extend" => {
            let it = GenIter::<T> { ids: s.xs.iter().copied().collect(), lo: s.i, exact: false, _m: std::marker::PhantomData };
            v!().extend(it)
        }
        "append" => {
            let mut src: Vec<T> = s.xs.iter().map(|&i| T::make(i)).collect();
            v!().append(&mut src);
            if matches!(s.s.as_str(), "vecmut" | "bb" | "fixed" | "vdrain" | "odrain") {
                st.num.push(src.len() as i64);
            }
        }
        "append_slot" => {
            let mut src = st.slots[d].take().unwrap();
            // crossing between the mirrored vector and an ordinary one reverses (model order)
            if (st.kinds[c] == "R") != (st.kinds[d] == "R") {
                src.reverse();
            }
            v!().append(&mut src);
            st.slots[d] = Some(src);
        }
        "reserve" => v!().reserve(s.i),
        "reserve_exact" => v!().reserve_exact(s.i),
        "shrink_to_fit" => v!().shrink_to_fit(),
        "shrink_to" => v!().shrink_to(s.i),
        "retain" => {
            let ps = &s.ps;
            v!().retain_mut(|e| verdict(e, ps))
        }
        "dedup" => v!().dedup(),
        "dedup_by" => v!().dedup_by(|a, b| {
            a.seen();
            b.seen();
            elem::callback(Cb::Pred);
            if T::ZST { elem::next_verdict() } else { elem::key_of(a.id()) == elem::key_of(b.id()) }
        }),
        "dedup_by_key" => {
            let mut calls = 0usize;
            let bs = s.bs.clone();
            v!().dedup_by_key(|a| {
                a.seen();
                elem::callback(Cb::Closure);
                let k = calls;
                calls += 1;
                if T::ZST {
                    if k % 2 == 0 { if bs.get(k / 2).copied().unwrap_or(false) { 0u8 } else { 1u8 } } else { 0u8 }
                } else {
                    elem::key_of(a.id())
                }
            })
        }
        "drain" => {
            let (nf, nb) = if s.xs.len() == 2 { (s.xs[0] as usize, s.xs[1] as usize) } else { (0, 0) };
            if s.s == "keep" {
                nostd::<()>();
            }
            let St { slots, held, ret, .. } = st;
            let mut dr = slots[c].as_mut().unwrap().drain(s.i..s.j);
            consume(held, ret, &mut dr, nf, nb);
            if s.s == "forget" { mem::forget(dr) } else { drop(dr) }
        }
        "extract_if" => {
            let ps = &s.ps;
            let St { slots, held, ret, .. } = st;
            let mut it = slots[c].as_mut().unwrap().extract_if(.., |e| verdict(e, ps));
            for _ in 0..s.i {
                match it.next() {
                    Some(x) => {
                        ret.push(x.id());
                        held.push(x);
                    }
                    None => break,
                }
            }
            drop(it);
        }
        "splice" => {
            let nf = s.ps.first().copied().unwrap_or(0) as usize;
            let it = GenIter::<T> { ids: s.xs.iter().copied().collect(), lo: 0, exact: s.s != "zero", _m: std::marker::PhantomData };
            let St { slots, held, ret, .. } = st;
            let mut sp = slots[c].as_mut().unwrap().splice(s.i..s.j, it);
            consume(held, ret, &mut sp, nf, 0);
            drop(sp);
        }
        "into_iter" => {
            let (nf, nb) = (s.xs[0] as usize, s.xs[1] as usize);
            let v = st.slots[c].take().unwrap();
            let mut it = v.into_iter();
            consume(&mut st.held, &mut st.ret, &mut it, nf, nb);
            if s.s == "forget" { mem::forget(it) } else { drop(it) }
        }
        "map_in_place" | "map" => {
            let v = st.slots[c].take().unwrap();
            let w: Vec<T> = v
                .into_iter()
                .map(|t| {
                    elem::callback(Cb::Closure);
                    t.seen();
                    let k = elem::key_of(t.id());
                    drop(t);
                    let id = elem::fresh_id();
                    elem::set_key(id, k);
                    T::make(id)
                })
                .collect();
            st.slots[c] = Some(w);
        }
        "map_cross" => {
            let v = st.slots[c].take().unwrap();
            let w: Vec<T::Cross> = v
                .into_iter()
                .map(|t| {
                    elem::callback(Cb::Closure);
                    t.seen();
                    drop(t);
                    <T::Cross as Elem>::make(elem::fresh_id())
                })
                .collect();
            for e in w.iter() {
                st.ret.push(e.id());
            }
            st.num.push(w.len() as i64);
            drop(w);
        }
        "into_boxed_slice" => {
            if st.kinds[c] == "R" {
                v!().reverse();
            }
            st.kinds[c] = "B";
            let v = st.slots[c].take().unwrap();
            st.slots[c] = Some(v.into_boxed_slice().into_vec());
        }
        "into_fixed_vec" => st.kinds[c] = "F",
        "into_vec" => st.kinds[c] = "V",
        "from_init" => st.kinds[c] = "F",
        "parts_roundtrip" => {}
        "leak" => {
            let v = st.slots[c].take().unwrap();
            let r = Vec::leak(v);
            st.num.push(r.len() as i64);
        }
        "forget" => {
            let v = st.slots[c].take();
            mem::forget(v);
        }
        "new" => {
            let mut v = Vec::with_capacity(s.i);
            for &i in &s.xs {
                v.push(T::make(i));
            }
            st.slots[d] = Some(v);
            st.kinds[d] = match s.s.as_str() {
                "B" => "B",
                "F" => "F",
                _ => "V",
            };
        }
        "flatten" => {
            let v: Vec<[T; 2]> = s.xs.chunks(2).map(|p| [T::make(p[0]), T::make(p[1])]).collect();
            let mut f = v.into_flattened();
            let k = match s.s.as_str() {
                "B" => "B",
                "F" => "F",
                "V" => "V",
                "M" => "M",
                _ => "R",
            };
            if k == "R" {
                // arrays were pushed to the front one by one: model order = reversed slice order
                let mut g: Vec<T> = Vec::new();
                while f.len() >= 2 {
                    let b = f.remove(1);
                    let a = f.remove(0);
                    g.push(b);
                    g.push(a);
                }
                f = g;
            }
            st.slots[d] = Some(f);
            st.kinds[d] = k;
        }
        "split_off" => {
            // documented difference: bump-scope's split_off takes a range (== other.append(self.drain(range)))
            let other: Vec<T> = v!().drain(s.i..s.j).collect();
            st.slots[d] = Some(other);
            st.kinds[d] = st.kinds[c];
        }
        "observe" => {
            let St { slots, ret, num, .. } = st;
            let sl = slots[c].as_ref().unwrap();
            let idf = |e: Option<&T>| e.map(|e| e.id().max(if T::ZST { 1 } else { 0 })).unwrap_or(0);
            ret.push(idf(sl.first()));
            ret.push(idf(sl.last()));
            ret.push(idf(sl.get(s.i)));
            ret.extend(sl.iter().rev().map(|e| idf(Some(e))));
            num.push(sl.is_empty() as i64);
        }
        "drop_cont" => {
            let v = st.slots[c].take();
            drop(v);
        }
        "drop_held" => st.held.clear(),
        _ => nostd(),
    }
}

pub fn run<T: Elem>(beh: &Behaviour, bidx: usize) -> Value {
    elem::reset_behaviour(&beh.keys);
    elem::begin_step(&[], None, 0, &[]);
    let mut st: St<T> = St {
        slots: (0..beh.nslots).map(|_| None).collect(),
        kinds: (0..beh.nslots).map(|_| "-").collect(),
        held: Vec::new(),
        ret: Vec::new(),
        num: Vec::new(),
    };
    let kind: &'static str = match beh.kind.as_str() {
        "B" => "B",
        "F" => "F",
        "V" => "V",
        "M" => "M",
        _ => "R",
    };
    st.slots[0] = Some((1..=beh.n as u32).map(T::make).collect());
    st.kinds[0] = kind;
    let mut steps_out: Vec<Value> = Vec::new();
    let snap = |st: &St<T>| -> Value {
        Value::Array(
            st.slots
                .iter()
                .zip(st.kinds.iter())
                .map(|(s, k)| match s {
                    None => json!(["-", [], 0, 0, 0, 0]),
                    Some(v) => {
                        let ids: Vec<u32> = if T::ZST { vec![] } else { v.iter().map(|e| { e.seen(); e.id() }).collect() };
                        json!([k, ids, v.len(), -1, 0, -1])
                    }
                })
                .collect(),
        )
    };
    let init_created = elem::with(|c| c.created.clone());
    steps_out.push(json!({"op": "init", "c": 1, "d": 0, "i": 0, "j": 0, "s": "", "pk": "", "pn": 0,
        "o": {"out": "ok", "injp": false, "msg": "", "ret": [], "num": [], "cs": snap(&st), "dr": [], "cr": init_created, "cl": [],
              "tomb": false, "held": [], "zc": elem::with(|c| c.zst_created), "zd": elem::with(|c| c.zst_dropped), "xcb": 0}}));
    let mut stopped = false;
    for s in &beh.steps {
        let fresh: Vec<u32> = match s.op.as_str() {
            "resize" => s.xs.iter().skip(1).copied().collect(),
            "resize_with" | "map_in_place" | "map" | "map_cross" => s.xs.clone(),
            "extend_from_slice_clone" => s.ps.clone(),
            "extend_from_within_clone" => s.xs.clone(),
            _ => vec![],
        };
        elem::begin_step(&fresh, s.pk, s.pn, &s.bs);
        st.ret.clear();
        st.num.clear();
        let r = catch_unwind(AssertUnwindSafe(|| exec(&mut st, s)));
        elem::disarm();
        let (out, injp, msg) = match &r {
            Ok(()) => ("ok", false, String::new()),
            Err(p) => {
                if p.is::<NoStd>() {
                    stopped = true;
                    ("nostd", false, String::new())
                } else {
                    let m = if let Some(s) = p.downcast_ref::<String>() { s.clone() } else if let Some(s) = p.downcast_ref::<&str>() { s.to_string() } else { "?".to_string() };
                    ("panic", m == elem::INJECTED, m)
                }
            }
        };
        if stopped {
            break;
        }
        let (dr, cr, xcb, fired) = elem::with(|c| (c.dropped.clone(), c.created.clone(), c.fresh_underflow, c.fired));
            let cl: Vec<Vec<u32>> = elem::with(|c| c.clones.iter().map(|(a, b)| vec![*a, *b]).collect());
        let cs = snap(&st);
        let held: Vec<u32> = st.held.iter().map(|e| e.id()).collect();
        let tomb = elem::with(|c| c.tomb);
        let (zc, zd) = elem::with(|c| (c.zst_created, c.zst_dropped));
        steps_out.push(json!({"op": s.op, "c": s.c, "d": s.d, "i": s.i, "j": s.j, "s": s.s, "pk": s.pk_s, "pn": s.pn, "e": s.e,
            "o": {"out": out, "injp": injp, "fired": fired, "msg": msg, "ret": st.ret, "num": st.num, "cs": cs, "dr": dr, "cr": cr, "cl": cl,
                  "tomb": tomb, "held": held, "zc": zc, "zd": zd, "xcb": xcb}}));
    }
    for c in st.slots.drain(..) {
        mem::forget(c);
    }
    for h in st.held.drain(..) {
        mem::forget(h);
    }
    json!({"b": bidx, "shape": if T::ZST { "std-ez" } else { "std-e16" }, "up": true, "ma": 0, "kind": beh.kind, "zst": beh.zst,
           "crash": false, "unsup": false, "std": true, "stopped": stopped, "esz": 0, "steps": steps_out})
}
