//! Drives the real `src/bumping.rs` and `src/chunk/size_config.rs` (included verbatim from /repo)
//! over grids that are images of a small W-bit word, and writes one NDJSON record per input.
//! The records are evaluated by TLC against the declarative layer of spec/Bumping.tla and
//! spec/ChunkSize.tla (spec/PureObs.tla).
#![allow(dead_code, unused_imports, clippy::all)]

#[path = "/repo/src/bumping.rs"]
mod bumping;
#[path = "/repo/src/chunk/size_config.rs"]
mod size_config;

use core::alloc::Layout;
use std::io::{BufWriter, Write};
use std::panic::{catch_unwind, AssertUnwindSafe};

use bumping::{bump_down, bump_prepare_down, bump_prepare_up, bump_up, BumpProps};
use size_config::ChunkSizeConfig;

#[derive(Clone, Copy, PartialEq, Eq, Debug)]
enum Anchor {
    Lo,
    Mid,
    Hi,
    Scale,
}

impl Anchor {
    fn name(self) -> &'static str {
        match self {
            Anchor::Lo => "lo",
            Anchor::Mid => "mid",
            Anchor::Hi => "hi",
            Anchor::Scale => "scale",
        }
    }
}

struct Embed {
    w: u32,
    anchor: Anchor,
}

impl Embed {
    fn base(&self) -> u128 {
        match self.anchor {
            Anchor::Lo | Anchor::Scale => 0,
            Anchor::Mid => 1u128 << 40,
            Anchor::Hi => (1u128 << 64) - (1u128 << self.w),
        }
    }
    fn shift(&self) -> u32 {
        if self.anchor == Anchor::Scale { 64 - self.w } else { 0 }
    }
    fn addr(&self, x: u64) -> usize {
        (self.base() + ((x as u128) << self.shift())) as usize
    }
    fn len(&self, x: u64) -> usize {
        ((x as u128) << self.shift()) as usize
    }
    /// maps a result address back; None if it is not the image of a W-bit address
    fn back(&self, a: usize) -> i64 {
        let a = a as u128;
        let b = self.base();
        if a < b {
            return -1;
        }
        let d = a - b;
        let sh = self.shift();
        if sh > 0 && d & ((1u128 << sh) - 1) != 0 {
            return -2;
        }
        let v = d >> sh;
        if v > (1u128 << 30) { -3 } else { v as i64 }
    }
}

fn is_pow2(x: u64) -> bool {
    x != 0 && x & (x - 1) == 0
}

fn valid_range(s: u64, e: u64, ma: u64, up: bool, maxu: u64, isize_max: u64) -> bool {
    if s == 0 || e == 0 || s > maxu || e > maxu {
        return false;
    }
    let dummy = s == e + 16 && s % 16 == 0 && e % 16 == 0;
    if dummy {
        return true;
    }
    if !(s <= e && e - s <= isize_max) {
        return false;
    }
    if up { s % ma == 0 && e % 16 == 0 } else { s % 16 == 0 && e % ma == 0 }
}

/// result of one call: (hint bits, fit, a, b, panicked)
type Res = (u8, bool, i64, i64, bool);

fn call(f: &str, em: &Embed, s: u64, e: u64, size: usize, align: usize, ma: usize, h: u8) -> Res {
    let (ac, sc, sm) = (h & 1 != 0, h & 2 != 0, h & 4 != 0);
    let layout = match Layout::from_size_align(size, align) {
        Ok(l) => l,
        Err(_) => return (h, false, -9, -9, true),
    };
    let mk = || BumpProps {
        start: em.addr(s),
        end: em.addr(e),
        min_align: ma,
        layout,
        align_is_const: ac,
        size_is_const: sc,
        size_is_multiple_of_align: sm,
    };
    let r = catch_unwind(AssertUnwindSafe(|| match f {
        "up" => bump_up(mk()).map(|r| (r.ptr, r.new_pos)),
        "down" => bump_down(mk()).map(|p| (p, p)),
        "prep_up" => bump_prepare_up(mk()).map(|r| (r.start, r.end)),
        "prep_down" => bump_prepare_down(mk()).map(|r| (r.start, r.end)),
        _ => unreachable!(),
    }));
    match r {
        Err(_) => (h, false, 0, 0, true),
        Ok(None) => (h, false, 0, 0, false),
        Ok(Some((a, b))) => (h, true, em.back(a), em.back(b), false),
    }
}

fn write_rec(
    out: &mut impl Write,
    f: &str,
    em: &Embed,
    s: u64,
    e: u64,
    sz: i64,
    huge: bool,
    al: u64,
    ma_model: u64,
    ma_real: u64,
    res: &[Res],
) {
    write!(
        out,
        "{{\"f\":\"{}\",\"an\":\"{}\",\"s\":{},\"e\":{},\"sz\":{},\"huge\":{},\"al\":{},\"ma\":{},\"mar\":{},\"res\":[",
        f,
        em.anchor.name(),
        s,
        e,
        sz,
        huge,
        al,
        ma_model,
        ma_real
    )
    .unwrap();
    // group the hint variants by result (normally one group: the result is hint-independent)
    let mut groups: Vec<(Vec<u8>, (bool, i64, i64, bool))> = Vec::new();
    for r in res {
        let key = (r.1, r.2, r.3, r.4);
        match groups.iter_mut().find(|g| g.1 == key) {
            Some(g) => g.0.push(r.0),
            None => groups.push((vec![r.0], key)),
        }
    }
    for (i, (hs, k)) in groups.iter().enumerate() {
        if i > 0 {
            out.write_all(b",").unwrap();
        }
        let hs: Vec<String> = hs.iter().map(|h| h.to_string()).collect();
        write!(out, "{{\"h\":[{}],\"fit\":{},\"a\":{},\"b\":{},\"p\":{}}}", hs.join(","), k.0, k.1, k.2, k.3).unwrap();
    }
    out.write_all(b"]}\n").unwrap();
}

/// xorshift for sub-sampling
struct Rng(u64);
impl Rng {
    fn next(&mut self) -> u64 {
        let mut x = self.0;
        x ^= x << 13;
        x ^= x >> 7;
        x ^= x << 17;
        self.0 = x;
        x
    }
    fn keep(&mut self, per_mille: u32) -> bool {
        per_mille >= 1000 || (self.next() % 1000) < per_mille as u64
    }
}

fn bumping_grid(w: u32, per_mille: u32, seed: u64, out: &mut impl Write) -> u64 {
    let maxu: u64 = (1 << w) - 1;
    let isize_max: u64 = (1 << (w - 1)) - 1;
    let mut rng = Rng(seed.wrapping_mul(0x9E3779B97F4A7C15) | 1);
    let mut n = 0u64;
    let mut res: Vec<Res> = Vec::with_capacity(8);
    for f in ["up", "down", "prep_up", "prep_down"] {
        let up = f == "up" || f == "prep_up";
        let prep = f.starts_with("prep");
        for anchor in [Anchor::Lo, Anchor::Mid, Anchor::Hi, Anchor::Scale] {
            let em = Embed { w, anchor };
            for ma in [1u64, 2, 4, 8, 16] {
                // scale anchor: every scaled address is a multiple of 2^(64-W) >= 16, so the model-side
                // minimum alignment is 1 while the real call runs with `ma`
                let ma_model = if anchor == Anchor::Scale { 1 } else { ma };
                for s in 1..=maxu {
                    for e in 1..=maxu {
                        if !valid_range(s, e, ma_model, up, maxu, isize_max) {
                            continue;
                        }
                        if anchor == Anchor::Scale && s > e {
                            continue; // the dummy range does not scale
                        }
                        for k in 0..w {
                            let al: u64 = 1 << k;
                            let max_sz = (1u64 << (w - 1)) - al;
                            // sizes: all for small words, sampled otherwise; plus the HUGE class
                            let mut sz_list: Vec<(i64, bool)> = Vec::new();
                            for sz in 0..=max_sz {
                                if prep && sz % al != 0 {
                                    continue;
                                }
                                sz_list.push((sz as i64, false));
                            }
                            if anchor != Anchor::Scale {
                                sz_list.push((0, true));
                            }
                            for (sz, huge) in sz_list {
                                if !rng.keep(per_mille) {
                                    continue;
                                }
                                let real_al = em.len(al).max(if anchor == Anchor::Scale { em.len(al) } else { al as usize });
                                let real_sz: usize = if huge {
                                    // largest size Layout accepts for this alignment, rounded down to a multiple of it
                                    let m = (isize::MAX as usize + 1 - real_al) & !(real_al - 1);
                                    m
                                } else {
                                    em.len(sz as u64)
                                };
                                res.clear();
                                for h in 0u8..8 {
                                    let sm = h & 4 != 0;
                                    if sm && real_sz % real_al != 0 {
                                        continue;
                                    }
                                    if prep && (h & 6) != 0 {
                                        continue; // prepare only reads align_is_const
                                    }
                                    res.push(call(f, &em, s, e, real_sz, real_al, ma as usize, h));
                                }
                                write_rec(out, f, &em, s, e, sz, huge, al, ma_model, ma, &res);
                                n += 1;
                            }
                        }
                    }
                }
            }
        }
    }
    n
}

// ------------------------------------------------------------------------------------------------
// chunk size arithmetic
// ------------------------------------------------------------------------------------------------

fn opt(v: Option<usize>) -> i128 {
    match v {
        Some(x) => x as i128,
        None => -1,
    }
}

/// Values are reported relative to an anchor: "lo" = as is, "top" = usize::MAX - v, "half" = isize::MAX - v
/// (so that TLC, whose integers are 32-bit, can evaluate the mathematical specification exactly).
fn chunk_grid(per_mille: u32, seed: u64, out: &mut impl Write) -> u64 {
    let mut rng = Rng(seed.wrapping_mul(0xD1B54A32D192ED03) | 1);
    let mut n = 0u64;
    let overhead = Layout::new::<[usize; 2]>();
    let hdr_layouts: Vec<(usize, usize)> = {
        // base allocator value layouts (size 0..256, align 1..256) -> ChunkHeader<A> layouts:
        // repr(C, align(16)) { 4 words = 32 bytes ; allocator }
        let mut v = std::collections::BTreeSet::new();
        for a_al_k in 0..=8 {
            let a_al = 1usize << a_al_k;
            for a_sz in [0usize, 1, 8, 16, 24, 64, 100, 128, 200, 256] {
                let a_sz = (a_sz + a_al - 1) / a_al * a_al; // size is a multiple of the alignment
                if a_sz > 256 {
                    continue;
                }
                let h_al = a_al.max(16);
                let off = (32 + a_al - 1) / a_al * a_al;
                let h_sz = (off + a_sz + h_al - 1) / h_al * h_al;
                v.insert((h_sz, h_al));
            }
        }
        v.into_iter().collect()
    };
    for up in [true, false] {
        for &(hs, ha) in &hdr_layouts {
            let cfg = ChunkSizeConfig {
                up,
                assumed_malloc_overhead_layout: overhead,
                chunk_header_layout: Layout::from_size_align(hs, ha).unwrap(),
            };
            // ---- calc_size_from_hint over low hints, around powers of two / pages, and the top of the word
            let mut hints: Vec<u128> = Vec::new();
            for h in 0..=700u128 {
                hints.push(h);
            }
            for k in 9..=20 {
                for d in -17i128..=17 {
                    hints.push(((1i128 << k) + d) as u128);
                }
            }
            for p in [3u128, 5, 7, 100] {
                for d in -17i128..=17 {
                    hints.push((p as i128 * 4096 + d) as u128);
                }
            }
            for d in 0..=9000u128 {
                if d < 600 || d % 37 == 0 {
                    hints.push(usize::MAX as u128 - d);
                    hints.push(isize::MAX as u128 - d);
                    hints.push(isize::MAX as u128 + d);
                }
            }
            for h in hints {
                if !rng.keep(per_mille) {
                    continue;
                }
                let h = h as usize;
                let r = catch_unwind(|| cfg.calc_size_from_hint(h).map(|x| x.get()));
                let (an, hv) = anchor_of(h);
                let (ran, rv, panicked) = match r {
                    Ok(Some(x)) => {
                        let (a, v) = anchor_of(x);
                        (a, v as i128, false)
                    }
                    Ok(None) => ("none", 0, false),
                    Err(_) => ("none", 0, true),
                };
                writeln!(
                    out,
                    "{{\"f\":\"size_from_hint\",\"up\":{},\"hs\":{},\"ha\":{},\"an\":\"{}\",\"hint\":{},\"ran\":\"{}\",\"r\":{},\"panicked\":{}}}",
                    up, hs, ha, an, hv, ran, rv, panicked
                )
                .unwrap();
                n += 1;
            }
            // ---- calc_hint_from_capacity over layouts, then the whole pipeline + fit in a fresh chunk
            for al_k in [0u32, 1, 3, 4, 5, 6, 8, 10, 12, 13, 20, 24] {
                let al = 1usize << al_k;
                let mut sizes: Vec<usize> = (0..=130).collect();
                sizes.extend([200, 255, 256, 257, 400, 496, 497, 511, 512, 513, 1000, 4000, 4064, 4080, 4096, 5000, 8192, 10000, 65536, 1 << 20]);
                for d in 0..=400usize {
                    sizes.push(isize::MAX as usize - d);
                }
                for sz in sizes {
                    if Layout::from_size_align(sz, al).is_err() {
                        continue;
                    }
                    if !rng.keep(per_mille) {
                        continue;
                    }
                    let layout = Layout::from_size_align(sz, al).unwrap();
                    let r = catch_unwind(|| {
                        let hint = cfg.calc_hint_from_capacity(layout);
                        let size = hint.and_then(|h| cfg.calc_size_from_hint(h).map(|x| x.get()));
                        (hint, size)
                    });
                    let (hint, size, panicked) = match r {
                        Ok((h, s)) => (h, s, false),
                        Err(_) => (None, None, true),
                    };
                    let (san, sv) = anchor_of(sz);
                    let (han, hv) = match hint {
                        Some(h) => anchor_of(h),
                        None => ("none", 0),
                    };
                    let (zan, zv) = match size {
                        Some(h) => anchor_of(h),
                        None => ("none", 0),
                    };
                    // granted sizes >= requested: exact, +1, +15, +16, +40, +4096 ; aligned down by the real function
                    let mut grants = String::from("[");
                    if let Some(size) = size {
                        if size < (1 << 28) {
                            for (i, extra) in [0usize, 1, 15, 16, 40, 100, 4096].iter().enumerate() {
                                if i > 0 {
                                    grants.push(',');
                                }
                                let g = cfg.align_size(size + extra);
                                grants.push_str(&format!("[{},{}]", extra, g));
                            }
                        }
                    }
                    grants.push(']');
                    writeln!(
                        out,
                        "{{\"f\":\"from_capacity\",\"up\":{},\"hs\":{},\"ha\":{},\"alk\":{},\"san\":\"{}\",\"sz\":{},\"han\":\"{}\",\"hint\":{},\"zan\":\"{}\",\"size\":{},\"grants\":{},\"panicked\":{}}}",
                        up, hs, ha, al_k, san, sv, han, hv, zan, zv, grants, panicked
                    )
                    .unwrap();
                    n += 1;
                }
            }
        }
    }
    n
}

fn anchor_of(v: usize) -> (&'static str, u64) {
    // "lo" values and offsets from the half / top of the word must stay far below 2^28 so that the
    // image under the embedding into the 29-bit model word (spec/ChunkObs.tla) is unambiguous
    const LIM_LO: usize = 1 << 27;
    const LIM: usize = 1 << 24;
    if v < LIM_LO {
        ("lo", v as u64)
    } else if usize::MAX - v < LIM {
        ("top", (usize::MAX - v) as u64)
    } else if v <= isize::MAX as usize && isize::MAX as usize - v < LIM {
        ("half", (isize::MAX as usize - v) as u64)
    } else if v > isize::MAX as usize && v - isize::MAX as usize <= LIM {
        ("half+", (v - isize::MAX as usize) as u64)
    } else {
        ("other", 0)
    }
}

fn main() {
    // silence the default panic message: panics are data here
    std::panic::set_hook(Box::new(|_| {}));
    let args: Vec<String> = std::env::args().collect();
    let mode = args.get(1).map(String::as_str).unwrap_or("");
    let path = args.get(2).expect("output path");
    let mut out = BufWriter::with_capacity(1 << 20, std::fs::File::create(path).unwrap());
    let n = match mode {
        "bumping" => {
            let w: u32 = args[3].parse().unwrap();
            let per_mille: u32 = args[4].parse().unwrap();
            let seed: u64 = args[5].parse().unwrap();
            bumping_grid(w, per_mille, seed, &mut out)
        }
        "chunksize" => {
            let per_mille: u32 = args[3].parse().unwrap();
            let seed: u64 = args[4].parse().unwrap();
            chunk_grid(per_mille, seed, &mut out)
        }
        _ => panic!("usage: purefn bumping <out> <W> <per_mille> <seed> | chunksize <out> <per_mille> <seed>"),
    };
    out.flush().unwrap();
    println!("{}", n);
}
